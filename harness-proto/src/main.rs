//! protomc — engine M of C07: explicit-state model checking (stateright) of the ABSTRACT
//! length-publication protocol of `bases/io/compression.rs` (one background decoder publishing
//! `decoded` under a mutex + condvar, R readers doing wait_for / current_size / unsynchronised
//! buffer reads), exhaustively and WITHOUT a preemption bound, for up to 3 readers x 3 chunks;
//! plus the conformance check that binds the model to the code: every distinct event trace the
//! REAL compression.rs produces under loom (hook H7, `loommc decoder-trace`) must be a path of
//! the model, and the share of model transitions witnessed by real executions is reported.
//!
//!   protomc check   --tier quick|thorough --out REPORT.json
//!   protomc explore --chunks C --avail E --ops "g:0:2;r:1:3"          (one configuration, prints counts)
//!   protomc conform --chunks C --avail E --ops ".." --traces FILE      (one configuration)

use stateright::{Checker, Model, Property};
use std::collections::{HashMap, HashSet, VecDeque};
use std::sync::Arc;

pub const CHUNK: u8 = 2;
const DEC: u8 = 255;
const STEP_LIMIT: u16 = 400;

#[derive(Clone, Copy, Debug, Hash, PartialEq, Eq)]
pub struct Op {
    pub kind: u8, // b'g' get_slice, b'r' read, b'x' read_exact
    pub o: u8,
    pub n: u8,
}

#[derive(Clone, Debug, Hash, PartialEq, Eq)]
pub struct Cfg {
    pub total: u8,
    pub avail: u8,
    pub readers: Vec<Vec<Op>>,
    /// 0: the protocol as the code has it. Deliberately broken variants (self-test of the
    /// explorer: each must be reported): 1 notify_one instead of notify_all, 2 the slice is built
    /// from the total size instead of the published size, 3 an early end of the compressed stream
    /// does not set `failed`
    pub bug: u8,
}

#[derive(Clone, Copy, Debug, Hash, PartialEq, Eq)]
enum DPc {
    Loop,
    Writing,
    NeedLock,
    HaveLock,
    Notify,
    Unlock,
    Done,
}

#[derive(Clone, Copy, Debug, Hash, PartialEq, Eq)]
enum RPc {
    Begin,
    WfLock,
    WfCheck,
    Waiting,
    Woken,
    WfReturn,
    WfUnlock,
    SzLock,
    SzRead,
    SzUnlock,
    Copy,
    End,
    Finished,
}

#[derive(Clone, Debug, Hash, PartialEq, Eq)]
struct Rd {
    op: u8,
    pc: RPc,
    end: u8,
    got: u8,
    size: u8,
    sizes_left: u8,
    /// the reader holds a shared reference on bytes [0, hold) of the buffer
    hold: Option<u8>,
    outcome: u16,
    /// outcomes of the finished operations differ from the expected ones
    bad: bool,
}

#[derive(Clone, Debug, Hash, PartialEq, Eq)]
pub struct St {
    dpc: DPc,
    unc: u8,
    r: u8,
    /// byte range being written by the decoder right now (unsynchronised)
    wr: Option<(u8, u8)>,
    dfail: bool,
    decoded: u8,
    failed: bool,
    lock: Option<u8>,
    readers: Vec<Rd>,
    steps: u16,
}

/// what the hooks of the real code emit: (thread, code, a, b)
pub type Event = (u8, u8, u16, u16);

pub const PANIC: u16 = 7777;

impl Cfg {
    fn init(&self) -> St {
        St {
            dpc: DPc::Loop,
            unc: 0,
            r: 0,
            wr: None,
            dfail: false,
            decoded: 0,
            failed: false,
            lock: None,
            readers: self
                .readers
                .iter()
                .map(|ops| Rd { op: 0, pc: if ops.is_empty() { RPc::Finished } else { RPc::Begin }, end: 0, got: 0, size: 0, sizes_left: 0, hold: None, outcome: 0, bad: false })
                .collect(),
            steps: 0,
        }
    }

    /// what the property demands of one operation (Ok with the exact bytes, or an error only
    /// when the bytes can never come)
    pub fn expected(&self, op: Op) -> u16 {
        let fin = self.avail.min(self.total);
        match op.kind {
            b'g' | b'x' => {
                if op.o + op.n > self.total || op.o + op.n > fin {
                    0
                } else {
                    1 + op.n as u16
                }
            }
            _ => {
                let end = (op.o + op.n).min(self.total);
                if end > fin {
                    0
                } else {
                    1 + (end - op.o) as u16
                }
            }
        }
    }

    fn enabled(&self, s: &St, t: u8) -> bool {
        if t == DEC {
            match s.dpc {
                DPc::Done => false,
                DPc::NeedLock => s.lock.is_none(),
                _ => true,
            }
        } else {
            match s.readers[t as usize].pc {
                RPc::Finished | RPc::Waiting => false,
                RPc::WfLock | RPc::Woken | RPc::SzLock => s.lock.is_none(),
                _ => true,
            }
        }
    }

    /// one step of thread `t` (which must be enabled): new state and the event the real code
    /// emits at that point, if any
    fn step(&self, s: &St, t: u8) -> (St, Option<Event>) {
        let mut n = s.clone();
        n.steps += 1;
        let mut ev = None;
        if t == DEC {
            match s.dpc {
                DPc::Loop => {
                    if s.unc < self.total {
                        let size = (self.total - s.unc).min(CHUNK);
                        n.r = size.min(self.avail.saturating_sub(s.unc));
                        n.wr = Some((s.unc, s.unc + n.r));
                        n.dpc = DPc::Writing;
                    } else {
                        n.dpc = DPc::Done;
                    }
                }
                DPc::Writing => {
                    n.wr = None;
                    ev = Some((DEC, b'w', s.unc as u16, s.r as u16));
                    n.dpc = DPc::NeedLock;
                }
                DPc::NeedLock => {
                    n.lock = Some(DEC);
                    n.dpc = DPc::HaveLock;
                }
                DPc::HaveLock => {
                    if s.r > 0 {
                        n.unc = s.unc + s.r;
                        n.decoded = n.unc;
                        ev = Some((DEC, b'p', n.unc as u16, 0));
                    } else {
                        n.failed = self.bug != 3;
                        n.dfail = true;
                        ev = Some((DEC, b'f', 0, 0));
                    }
                    n.dpc = DPc::Notify;
                }
                DPc::Notify => {
                    for r in n.readers.iter_mut() {
                        if r.pc == RPc::Waiting {
                            r.pc = RPc::Woken;
                            if self.bug == 1 {
                                break;
                            }
                        }
                    }
                    n.dpc = DPc::Unlock;
                }
                DPc::Unlock => {
                    n.lock = None;
                    n.dpc = if s.dfail { DPc::Done } else { DPc::Loop };
                }
                DPc::Done => unreachable!(),
            }
            return (n, ev);
        }
        let i = t as usize;
        let op = self.readers[i][s.readers[i].op as usize];
        let rd = &mut n.readers[i];
        match s.readers[i].pc {
            RPc::Begin => {
                ev = Some((t, b'b', rd.op as u16, 0));
                let oob = op.o + op.n > self.total;
                match op.kind {
                    b'g' | b'x' if oob => {
                        rd.outcome = 0;
                        rd.pc = RPc::End;
                    }
                    b'g' | b'x' => {
                        rd.end = op.o + op.n;
                        rd.pc = RPc::WfLock;
                    }
                    _ => {
                        rd.end = (op.o + op.n).min(self.total);
                        rd.pc = RPc::WfLock;
                    }
                }
            }
            RPc::WfLock | RPc::Woken => {
                n.lock = Some(t);
                rd.pc = RPc::WfCheck;
            }
            RPc::WfCheck => {
                ev = Some((t, b'c', s.decoded as u16, s.failed as u16));
                if s.decoded < rd.end && !s.failed {
                    // Condvar::wait: releases the mutex and sleeps, atomically
                    n.lock = None;
                    rd.pc = RPc::Waiting;
                } else {
                    rd.pc = RPc::WfReturn;
                }
            }
            RPc::WfReturn => {
                rd.got = s.decoded;
                ev = Some((t, b'g', s.decoded as u16, rd.end as u16));
                rd.pc = RPc::WfUnlock;
            }
            RPc::WfUnlock => {
                n.lock = None;
                if rd.got < rd.end {
                    rd.outcome = 0;
                    rd.pc = RPc::End;
                } else {
                    rd.sizes_left = if op.kind == b'x' { 2 } else { 1 };
                    rd.pc = RPc::SzLock;
                }
            }
            RPc::SzLock => {
                n.lock = Some(t);
                rd.pc = RPc::SzRead;
            }
            RPc::SzRead => {
                rd.size = if self.bug == 2 { self.total } else { s.decoded };
                rd.hold = Some(rd.hold.unwrap_or(0).max(rd.size));
                ev = Some((t, b's', s.decoded as u16, 0));
                rd.pc = RPc::SzUnlock;
            }
            RPc::SzUnlock => {
                n.lock = None;
                rd.sizes_left -= 1;
                // indexing the slice [0, size): out of range is a panic in the real code
                let in_range = match op.kind {
                    b'r' => op.o <= rd.size,
                    _ => rd.end <= rd.size,
                };
                if !in_range {
                    rd.outcome = PANIC;
                    rd.pc = RPc::End;
                } else if rd.sizes_left > 0 {
                    rd.pc = RPc::SzLock;
                } else {
                    rd.pc = RPc::Copy;
                }
            }
            RPc::Copy => {
                rd.outcome = match op.kind {
                    b'r' => 1 + (rd.size - op.o).min(op.n) as u16,
                    _ => 1 + op.n as u16,
                };
                rd.pc = RPc::End;
            }
            RPc::End => {
                ev = Some((t, b'x', rd.outcome, 0));
                if rd.outcome != self.expected(op) {
                    rd.bad = true;
                }
                rd.hold = None;
                rd.op += 1;
                rd.pc = if (rd.op as usize) < self.readers[i].len() { RPc::Begin } else { RPc::Finished };
            }
            RPc::Waiting | RPc::Finished => unreachable!(),
        }
        (n, ev)
    }

    fn threads(&self) -> Vec<u8> {
        let mut v: Vec<u8> = (0..self.readers.len() as u8).collect();
        v.push(DEC);
        v
    }

    fn race_free(&self, s: &St) -> bool {
        match s.wr {
            Some((a, b)) if b > a => s.readers.iter().all(|r| r.hold.map(|h| h <= a).unwrap_or(true)),
            _ => true,
        }
    }
    fn outcomes_ok(&self, s: &St) -> bool {
        s.readers.iter().all(|r| !r.bad)
    }
    fn terminal_ok(&self, s: &St) -> bool {
        if self.threads().iter().any(|t| self.enabled(s, *t)) {
            return true;
        }
        s.dpc == DPc::Done && s.readers.iter().all(|r| r.pc == RPc::Finished)
    }
    fn bounded(&self, s: &St) -> bool {
        s.steps < STEP_LIMIT
    }
}

impl Model for Cfg {
    type State = St;
    type Action = u8;
    fn init_states(&self) -> Vec<St> {
        vec![self.init()]
    }
    fn actions(&self, s: &St, out: &mut Vec<u8>) {
        for t in self.threads() {
            if self.enabled(s, t) {
                out.push(t);
            }
        }
    }
    fn next_state(&self, s: &St, t: u8) -> Option<St> {
        Some(self.step(s, t).0)
    }
    fn properties(&self) -> Vec<Property<Self>> {
        vec![
            Property::always("no reader holds bytes the decoder is writing", |m: &Cfg, s: &St| m.race_free(s)),
            Property::always("every operation ends with the stored bytes, or with an error only when they can never come", |m: &Cfg, s: &St| m.outcomes_ok(s)),
            Property::always("no deadlock: a state without successor has every reader and the decoder finished", |m: &Cfg, s: &St| m.terminal_ok(s)),
            Property::always("bounded number of steps (no livelock)", |m: &Cfg, s: &St| m.bounded(s)),
        ]
    }
}

/// own breadth-first exploration: states, transitions, violated property (second, independent
/// count next to stateright's)
pub struct Explored {
    pub states: usize,
    pub transitions: usize,
    pub edges: HashSet<(St, u8)>,
    pub violation: Option<String>,
    pub max_depth: u16,
    pub outcomes: HashSet<Vec<u16>>,
}

pub fn explore(cfg: &Cfg, keep_edges: bool) -> Explored {
    let mut seen: HashSet<St> = HashSet::new();
    let mut q = VecDeque::new();
    let i = cfg.init();
    seen.insert(i.clone());
    q.push_back(i);
    let mut ex = Explored { states: 0, transitions: 0, edges: HashSet::new(), violation: None, max_depth: 0, outcomes: HashSet::new() };
    while let Some(s) = q.pop_front() {
        ex.states += 1;
        ex.max_depth = ex.max_depth.max(s.steps);
        if ex.violation.is_none() {
            for (name, ok) in [("race", cfg.race_free(&s)), ("outcome", cfg.outcomes_ok(&s)), ("deadlock", cfg.terminal_ok(&s)), ("livelock", cfg.bounded(&s))] {
                if !ok {
                    ex.violation = Some(format!("{name}: {s:?}"));
                }
            }
        }
        if !cfg.bounded(&s) {
            continue;
        }
        for t in cfg.threads() {
            if cfg.enabled(&s, t) {
                ex.transitions += 1;
                if keep_edges {
                    ex.edges.insert((s.clone(), t));
                }
                let (n, _) = cfg.step(&s, t);
                if seen.insert(n.clone()) {
                    q.push_back(n);
                }
            }
        }
    }
    ex
}

/// Is the event trace of a real execution a path of the model?  Every thread has at most one
/// enabled action, so the path is determined: on event (t, ..) thread t is advanced through its
/// hidden actions up to the action emitting that event; when t is blocked, the thread blocking
/// it (lock holder, or the decoder about to notify) is advanced through hidden actions.
pub fn conform(cfg: &Cfg, trace: &[Event], covered: &mut HashSet<(St, u8)>) -> Result<(), String> {
    let mut s = cfg.init();
    for (k, ev) in trace.iter().enumerate() {
        let t = ev.0;
        let mut fuel = 40;
        loop {
            fuel -= 1;
            if fuel == 0 {
                return Err(format!("event #{k} {}: not reached", show(ev)));
            }
            if !cfg.enabled(&s, t) {
                // who blocks t?
                let blocker = if t != DEC && s.readers[t as usize].pc == RPc::Waiting {
                    Some(DEC)
                } else {
                    s.lock
                };
                let Some(u) = blocker.filter(|u| *u != t && cfg.enabled(&s, *u)) else {
                    return Err(format!("event #{k} {}: thread not enabled in the model (state {s:?})", show(ev)));
                };
                let (n, e2) = cfg.step(&s, u);
                if let Some(e2) = e2 {
                    return Err(format!("event #{k} {}: the model needs thread {} to emit {} first", show(ev), name(u), show(&e2)));
                }
                covered.insert((s.clone(), u));
                s = n;
                continue;
            }
            let (n, e2) = cfg.step(&s, t);
            covered.insert((s.clone(), t));
            s = n;
            match e2 {
                None => continue,
                Some(e2) if e2 == *ev => break,
                Some(e2) => return Err(format!("event #{k}: the code emits {} where the model emits {}", show(ev), show(&e2))),
            }
        }
    }
    Ok(())
}

fn name(t: u8) -> String {
    if t == DEC {
        "D".into()
    } else {
        t.to_string()
    }
}
fn show(e: &Event) -> String {
    format!("{}{}:{}:{}", name(e.0), e.1 as char, e.2, e.3)
}

pub fn parse_ops(s: &str) -> Vec<Vec<Op>> {
    s.split(';')
        .map(|r| {
            r.split(',')
                .filter(|x| !x.is_empty())
                .map(|o| {
                    let f: Vec<&str> = o.split(':').collect();
                    Op { kind: f[0].as_bytes()[0], o: f[1].parse().unwrap(), n: f[2].parse().unwrap() }
                })
                .collect()
        })
        .collect()
}
pub fn show_ops(r: &[Vec<Op>]) -> String {
    r.iter().map(|ops| ops.iter().map(|o| format!("{}:{}:{}", o.kind as char, o.o, o.n)).collect::<Vec<_>>().join(",")).collect::<Vec<_>>().join(";")
}
pub fn parse_trace(line: &str) -> Vec<Event> {
    line.split_whitespace()
        .map(|w| {
            let (t, rest) = if let Some(r) = w.strip_prefix('D') { (DEC, r) } else { (w[..1].parse::<u8>().unwrap(), &w[1..]) };
            let code = rest.as_bytes()[0];
            let f: Vec<&str> = rest[2..].split(':').collect();
            (t, code, f[0].parse().unwrap(), f[1].parse().unwrap())
        })
        .collect()
}

/// a stream read with a 3-byte buffer from offset o: reads of min(3, left) bytes, the last one of 0 bytes
fn stream(total: u8, o: u8) -> Vec<Op> {
    let mut v = vec![];
    let mut p = o;
    loop {
        let n = 3.min(total - p);
        v.push(Op { kind: b'r', o: p, n });
        if n == 0 {
            break;
        }
        p += n;
    }
    v
}

/// operation lists one reader may run: the alphabet of the loom engine, reduced to one
/// representative per protocol behaviour (wait target, number of size reads, range)
pub fn alphabet(total: u8, full: bool) -> Vec<Vec<Op>> {
    let mut v: Vec<Vec<Op>> = vec![];
    let g = |o, n| vec![Op { kind: b'g', o, n }];
    let r = |o, n| vec![Op { kind: b'r', o, n }];
    let x = |o, n| vec![Op { kind: b'x', o, n }];
    if full {
        for o in 0..=total {
            for n in 0..=(total - o) {
                if n > 0 || o == total {
                    v.push(g(o, n));
                }
            }
        }
    } else {
        for e in 1..=total {
            v.push(g(0, e));
        }
        v.push(g(total, 0));
        v.push(g(total - 1, 1));
    }
    v.push(g(total - 1, 2));
    for o in 0..total {
        if full || o == 0 || o == total - 1 {
            v.push(r(o, total));
        }
        v.push(r(o, 1));
        v.push(x(o, 1));
        if full || o == 0 || o == total - 1 {
            v.push(stream(total, o));
        }
    }
    v.push(x(total - 1, 2));
    v.push(x(0, total));
    // two operations in a row by one reader: the second one finds data already there
    v.push(vec![Op { kind: b'g', o: 0, n: 1 }, Op { kind: b'x', o: total - 1, n: 1 }]);
    v
}

fn multisets(n: usize, k: usize) -> Vec<Vec<usize>> {
    fn rec(n: usize, k: usize, from: usize, cur: &mut Vec<usize>, out: &mut Vec<Vec<usize>>) {
        if cur.len() == k {
            out.push(cur.clone());
            return;
        }
        for i in from..n {
            cur.push(i);
            rec(n, k, i, cur, out);
            cur.pop();
        }
    }
    let mut out = vec![];
    rec(n, k, 0, &mut vec![], &mut out);
    out
}

fn opt(args: &[String], name: &str) -> Option<String> {
    args.iter().position(|a| a == name).and_then(|i| args.get(i + 1).cloned())
}

fn par_map<T: Send + Sync + 'static, R: Send + 'static>(items: Vec<T>, threads: usize, f: impl Fn(&T) -> R + Send + Sync + 'static) -> Vec<R> {
    let items = Arc::new(items);
    let f = Arc::new(f);
    let next = Arc::new(std::sync::atomic::AtomicUsize::new(0));
    let mut hs = vec![];
    for _ in 0..threads {
        let (items, f, next) = (items.clone(), f.clone(), next.clone());
        hs.push(std::thread::spawn(move || {
            let mut out = vec![];
            loop {
                let i = next.fetch_add(1, std::sync::atomic::Ordering::SeqCst);
                if i >= items.len() {
                    break;
                }
                out.push((i, f(&items[i])));
            }
            out
        }));
    }
    let mut all: Vec<(usize, R)> = hs.into_iter().flat_map(|h| h.join().unwrap()).collect();
    all.sort_by_key(|x| x.0);
    all.into_iter().map(|x| x.1).collect()
}

fn main() {
    let args: Vec<String> = std::env::args().collect();
    let sub = args.get(1).cloned().unwrap_or_default();
    match sub.as_str() {
        "explore" => {
            let chunks: u8 = opt(&args, "--chunks").unwrap().parse().unwrap();
            let total = chunks * CHUNK;
            let cfg = Cfg { total, avail: opt(&args, "--avail").map(|x| x.parse().unwrap()).unwrap_or(total), readers: parse_ops(&opt(&args, "--ops").unwrap()), bug: opt(&args, "--bug").map(|x| x.parse().unwrap()).unwrap_or(0) };
            let ex = explore(&cfg, false);
            let checker = cfg.clone().checker().threads(4).spawn_bfs().join();
            println!("own BFS: states {} transitions {} depth {} violation {:?}", ex.states, ex.transitions, ex.max_depth, ex.violation);
            println!("stateright: unique states {} discoveries {:?}", checker.unique_state_count(), checker.discoveries().keys().collect::<Vec<_>>());
        }
        "conform" => {
            let chunks: u8 = opt(&args, "--chunks").unwrap().parse().unwrap();
            let total = chunks * CHUNK;
            let cfg = Cfg { total, avail: opt(&args, "--avail").map(|x| x.parse().unwrap()).unwrap_or(total), readers: parse_ops(&opt(&args, "--ops").unwrap()), bug: opt(&args, "--bug").map(|x| x.parse().unwrap()).unwrap_or(0) };
            let text = std::fs::read_to_string(opt(&args, "--traces").unwrap()).unwrap();
            let mut covered = HashSet::new();
            let mut n = 0;
            for line in text.lines() {
                n += 1;
                if let Err(e) = conform(&cfg, &parse_trace(line), &mut covered) {
                    println!("NOT A PATH OF THE MODEL: {e}\n  trace: {line}");
                    std::process::exit(1);
                }
            }
            let ex = explore(&cfg, true);
            println!("{n} traces accepted; model transitions witnessed {} of {}", covered.len(), ex.edges.len());
        }
        "check" => check(&args),
        _ => {
            eprintln!("usage: protomc check|explore|conform ...");
            std::process::exit(2)
        }
    }
}

#[derive(Default)]
struct ModelRun {
    states: usize,
    transitions: usize,
    sr_states: usize,
    violation: Option<String>,
}

fn check(args: &[String]) {
    let tier = opt(args, "--tier").or_else(|| std::env::var("VERIF_TIER").ok()).unwrap_or_else(|| "quick".into());
    let thorough = tier == "thorough";
    let out = opt(args, "--out");
    let loommc = opt(args, "--loommc").unwrap_or_else(|| "/verif/harness/target-loom/release/loommc".into());
    let scratch = opt(args, "--scratch").or_else(|| std::env::var("JBKMC_SCRATCH_ROOT").ok()).unwrap_or_else(|| "/dev/shm".into());
    let ncpu = std::thread::available_parallelism().map(|n| n.get()).unwrap_or(4);
    let t0 = std::time::Instant::now();

    // ---- part 1: the model, exhaustively, no preemption bound --------------------------------
    let mut cfgs: Vec<Cfg> = vec![];
    for chunks in 1..=3u8 {
        let total = chunks * CHUNK;
        for readers in 1..=3usize {
            let full = readers <= 2 && (thorough || readers == 1 || chunks <= 2);
            let mut alpha = alphabet(total, full);
            if !thorough && readers == 3 && chunks == 3 {
                // quick tier: three readers over three chunks run the operations that wait at a
                // chunk boundary, one byte off, at the very end, a stream and an out-of-range one
                let g = |o, n| vec![Op { kind: b'g', o, n }];
                alpha = vec![g(0, 2), g(0, 3), g(0, 4), g(0, 6), vec![Op { kind: b'x', o: 5, n: 1 }], g(5, 2)];
            }
            for ms in multisets(alpha.len(), readers) {
                let rs: Vec<Vec<Op>> = ms.iter().map(|i| alpha[*i].clone()).collect();
                // the compressed stream delivers everything, or ends early (every length for one
                // and two readers; for three readers at the chunk boundaries and one byte off)
                let avails: Vec<u8> = if readers <= 2 { (0..=total).collect() } else if thorough { (0..=total).collect() } else { vec![total, total - 1, CHUNK] };
                for avail in avails {
                    if readers == 3 && !thorough && chunks == 1 && (ms[0] + ms[1] + ms[2]) % 2 != 0 {
                        continue;
                    }
                    if readers == 3 && !thorough && chunks < 3 && avail != total && ms[0] % 3 != 0 {
                        continue;
                    }
                    if readers == 3 && !thorough && chunks == 2 && (ms[0] + ms[1] + ms[2]) % 9 != 0 {
                        continue;
                    }
                    cfgs.push(Cfg { total, avail, readers: rs.clone(), bug: 0 });
                }
            }
        }
    }
    // --replay FILE: only the configuration of the recorded case
    let replay: Option<serde_json::Value> = opt(args, "--replay").map(|f| {
        let j: serde_json::Value = serde_json::from_str(&std::fs::read_to_string(f).expect("replay file")).expect("replay json");
        j.get("case").cloned().unwrap_or(j)
    });
    let replay_cfg = replay.as_ref().map(|c| {
        let total = c["chunks"].as_u64().unwrap() as u8 * CHUNK;
        (Cfg { total, avail: c["avail"].as_u64().unwrap() as u8, readers: parse_ops(c["ops"].as_str().unwrap()), bug: 0 }, c["bound"].as_str().unwrap_or("2").to_string(), c["kind"].as_str().unwrap_or("model").to_string())
    });
    if let Some((c, _, _)) = &replay_cfg {
        cfgs = vec![c.clone()];
    }
    let n_cfgs = cfgs.len();
    let by_shape: Arc<std::sync::Mutex<HashMap<(u8, usize), (usize, usize, usize)>>> = Default::default();
    let bs = by_shape.clone();
    let results = par_map(cfgs.clone(), ncpu, move |cfg| {
        let ex = explore(cfg, false);
        let mut run = ModelRun { states: ex.states, transitions: ex.transitions, sr_states: 0, violation: ex.violation.clone() };
        // second exploration by stateright's checker on every 16th configuration (and on every
        // configuration with three readers over three chunks when it is the full stream): the
        // two state counts must agree
        let h = {
            use std::hash::{Hash, Hasher};
            let mut h = std::collections::hash_map::DefaultHasher::new();
            cfg.hash(&mut h);
            h.finish()
        };
        if h % 16 == 0 {
            let checker = cfg.clone().checker().spawn_bfs().join();
            run.sr_states = checker.unique_state_count();
            if let Some((name, _)) = checker.discoveries().into_iter().next() {
                if run.violation.is_none() {
                    run.violation = Some(format!("stateright: {name}"));
                }
            }
        }
        let mut m = bs.lock().unwrap();
        let e = m.entry((cfg.total / CHUNK, cfg.readers.len())).or_insert((0, 0, 0));
        e.0 += 1;
        e.1 += ex.states;
        e.2 += ex.transitions;
        run
    });
    let mut findings = vec![];
    let (mut states, mut transitions, mut sr_checked, mut sr_mismatch) = (0usize, 0usize, 0usize, 0usize);
    for (cfg, r) in cfgs.iter().zip(results.iter()) {
        states += r.states;
        transitions += r.transitions;
        if r.sr_states > 0 {
            sr_checked += 1;
            if r.sr_states != r.states && r.violation.is_none() {
                sr_mismatch += 1;
            }
        }
        if let Some(v) = &r.violation {
            if findings.len() < 5 {
                findings.push(serde_json::json!({
                    "key": format!("C07 protocol model: {}", v.split(':').next().unwrap_or("")),
                    "what": format!("readers [{}], stream delivers {} of {} bytes: {}", show_ops(&cfg.readers), cfg.avail, cfg.total, v.chars().take(300).collect::<String>()),
                    "count": 1,
                    "case": {"engine": "protomc", "sub": "check", "kind": "model", "chunks": cfg.total / CHUNK, "avail": cfg.avail, "ops": show_ops(&cfg.readers), "bound": "none"},
                }));
            }
        }
    }
    let model_wall = t0.elapsed().as_secs_f64();

    let mut machinery: Vec<String> = vec![];
    // ---- part 2: conformance of the real code (loom, hook H7) --------------------------------
    let t1 = std::time::Instant::now();
    let mut ccfgs: Vec<(Cfg, String)> = vec![];
    for chunks in 1..=2u8 {
        let total = chunks * CHUNK;
        let alpha = alphabet(total, true);
        for a in &alpha {
            for avail in 0..=total {
                ccfgs.push((Cfg { total, avail, readers: vec![a.clone()], bug: 0 }, "none".into()));
            }
        }
        let alpha2 = alphabet(total, false);
        for ms in multisets(alpha2.len(), 2) {
            let rs: Vec<Vec<Op>> = ms.iter().map(|i| alpha2[*i].clone()).collect();
            let avails: Vec<u8> = if thorough { (0..=total).collect() } else { vec![total, total - 1] };
            for avail in avails {
                if !thorough && avail != total && (ms[0] + ms[1]) % 4 != 0 {
                    continue;
                }
                ccfgs.push((Cfg { total, avail, readers: rs.clone(), bug: 0 }, if chunks == 1 { "none".into() } else { "2".into() }));
            }
        }
    }
    {
        // three chunks / three readers: a few configurations around the interior boundaries
        let total = 3 * CHUNK;
        let g = |o, n| vec![Op { kind: b'g', o, n }];
        let sets: Vec<Vec<Vec<Op>>> = vec![
            vec![g(0, 2), g(0, 4)],
            vec![g(0, 4), g(0, 6)],
            vec![g(2, 2), stream(total, 0)],
            vec![g(0, 2), g(2, 2), g(4, 2)],
            vec![g(0, 6), g(0, 6), g(0, 6)],
            vec![g(0, 4), vec![Op { kind: b'x', o: 5, n: 1 }], vec![Op { kind: b'r', o: 1, n: 6 }]],
        ];
        for rs in sets {
            for avail in [total, total - 1, 3] {
                let b = if rs.len() == 3 { if thorough { "2" } else { "1" } } else { "2" };
                ccfgs.push((Cfg { total, avail, readers: rs.clone(), bug: 0 }, b.into()));
            }
        }
    }
    if let Some((c, b, kind)) = &replay_cfg {
        ccfgs = if kind == "conform" { vec![(c.clone(), b.clone())] } else { vec![] };
    }
    let n_ccfgs = ccfgs.len();
    // ---- self-test of the explorer: three deliberately broken variants of the model must each
    // be reported (a harness that has never failed has not been shown to work)
    let mut selftest = vec![];
    if replay_cfg.is_none() {
        let g = |o, n| vec![Op { kind: b'g', o, n }];
        for (bug, want, cfg) in [
            (1u8, "deadlock", Cfg { total: 4, avail: 4, readers: vec![g(0, 4), g(0, 4)], bug: 1 }),
            (2u8, "race", Cfg { total: 4, avail: 4, readers: vec![g(0, 2)], bug: 2 }),
            (3u8, "deadlock", Cfg { total: 4, avail: 3, readers: vec![g(0, 4)], bug: 3 }),
        ] {
            let ex = explore(&cfg, false);
            let sr = cfg.clone().checker().spawn_bfs().join();
            let found = ex.violation.as_deref().map(|v| v.starts_with(want)).unwrap_or(false) && !sr.discoveries().is_empty();
            selftest.push(serde_json::json!({"broken_variant": bug, "expected": want, "reported": found}));
            if !found {
                machinery.push(format!("self-test: the broken model variant {bug} is not reported ({:?})", ex.violation));
            }
        }
    }
    let (lm, sc) = (loommc.clone(), scratch.clone());
    let cres = par_map(ccfgs.clone(), ncpu, move |(cfg, bound)| {
        let h = {
            use std::hash::{Hash, Hasher};
            let mut h = std::collections::hash_map::DefaultHasher::new();
            (cfg, bound).hash(&mut h);
            h.finish()
        };
        let file = format!("{sc}/protomc-{}-{h:x}.traces", std::process::id());
        let outp = std::process::Command::new(&lm)
            .args(["decoder-trace", "--chunks", &(cfg.total / CHUNK).to_string(), "--avail", &cfg.avail.to_string(), "--ops", &show_ops(&cfg.readers), "--bound", bound, "--out", &file])
            .output();
        let res = (|| -> Result<(usize, usize, usize, usize, Option<String>, Option<String>), String> {
            let mut outp = outp.map_err(|e| format!("cannot run loommc: {e}"))?;
            // the process running the real code killed by a signal or by glibc's heap checks: a
            // memory error of the code under exploration, when a second run dies the same way
            let mem = |o: &std::process::Output| {
                use std::os::unix::process::ExitStatusExt;
                let se = String::from_utf8_lossy(&o.stderr).to_string();
                match o.status.signal() {
                    Some(11) | Some(7) => Some(format!("signal {}", o.status.signal().unwrap())),
                    Some(6) if ["malloc()", "free()", "double free", "corrupted", "munmap_chunk", "tcache", "invalid pointer", "realloc()"].iter().any(|m| se.contains(m)) => Some(format!("heap corruption detected by the allocator: {}", se.lines().last().unwrap_or("").chars().take(120).collect::<String>())),
                    _ => None,
                }
            };
            if let Some(first) = mem(&outp) {
                outp = std::process::Command::new(&lm)
                    .args(["decoder-trace", "--chunks", &(cfg.total / CHUNK).to_string(), "--avail", &cfg.avail.to_string(), "--ops", &show_ops(&cfg.readers), "--bound", bound, "--out", &file])
                    .output()
                    .map_err(|e| format!("cannot run loommc: {e}"))?;
                if mem(&outp).is_some() {
                    return Ok((0, 0, 0, 0, None, Some(format!("memory error in the process running the real code under loom ({first}), reproduced on a second run"))));
                }
            }
            let so = String::from_utf8_lossy(&outp.stdout).to_string();
            let j: serde_json::Value = so.lines().rev().find(|l| l.starts_with('{')).and_then(|l| serde_json::from_str(l).ok()).ok_or_else(|| format!("loommc gave no report: {} {}", so, String::from_utf8_lossy(&outp.stderr).chars().take(300).collect::<String>()))?;
            let execs = j["executions"].as_u64().unwrap_or(0) as usize;
            let loom_err = j["error"].as_str().map(|s| s.to_string());
            let text = std::fs::read_to_string(&file).unwrap_or_default();
            let mut covered = HashSet::new();
            let mut n = 0;
            let mut div = None;
            for line in text.lines() {
                n += 1;
                if let Err(e) = conform(cfg, &parse_trace(line), &mut covered) {
                    if div.is_none() {
                        div = Some(format!("{e} | trace: {line}"));
                    }
                }
            }
            let ex = explore(cfg, true);
            let cov = covered.iter().filter(|e| ex.edges.contains(e)).count();
            Ok((execs, n, cov, ex.edges.len(), div, loom_err))
        })();
        let _ = std::fs::remove_file(&file);
        res
    });
    let (mut execs, mut traces, mut cov, mut edges, mut diverged) = (0usize, 0usize, 0usize, 0usize, 0usize);
    let mut caps: Vec<String> = vec![];
    for ((cfg, bound), r) in ccfgs.iter().zip(cres.iter()) {
        match r {
            Err(e) => machinery.push(e.clone()),
            Ok((x, n, c, e, div, loom_err)) => {
                execs += x;
                traces += n;
                cov += c;
                edges += e;
                if let Some(le) = loom_err {
                    // the real code fails under loom (deadlock, panic, causality violation): a verdict
                    if findings.len() < 8 {
                        findings.push(serde_json::json!({
                            "key": format!("C07 real decoder under loom (trace run): {}", if le.starts_with("memory error") { "memory error" } else if le.to_lowercase().contains("deadlock") { "deadlock" } else if le.contains("ausality") { "causality violation (data race)" } else { "panic" }),
                            "what": format!("readers [{}], stream delivers {} of {} bytes, preemption bound {bound}: {le}", show_ops(&cfg.readers), cfg.avail, cfg.total),
                            "count": 1,
                            "case": {"engine": "protomc", "sub": "check", "kind": "conform", "chunks": cfg.total / CHUNK, "avail": cfg.avail, "ops": show_ops(&cfg.readers), "bound": bound},
                        }));
                    }
                } else if let Some(d) = div {
                    diverged += 1;
                    // an outcome the property forbids is a verdict; any other divergence only says
                    // that the model does not describe this implementation (a cap, see DESIGN 8.6)
                    let outcome = d.contains("the code emits") && d.contains("x:");
                    if outcome && findings.len() < 8 {
                        findings.push(serde_json::json!({
                            "key": "C07 an operation of the real decoder ends differently from what the property demands",
                            "what": format!("readers [{}], stream delivers {} of {} bytes, preemption bound {bound}: {d}", show_ops(&cfg.readers), cfg.avail, cfg.total),
                            "count": 1,
                            "case": {"engine": "protomc", "sub": "check", "kind": "conform", "chunks": cfg.total / CHUNK, "avail": cfg.avail, "ops": show_ops(&cfg.readers), "bound": bound},
                        }));
                    } else if caps.len() < 5 {
                        caps.push(format!("the abstract protocol model does not describe this implementation (its unbounded result does not transfer): readers [{}] avail {}: {}", show_ops(&cfg.readers), cfg.avail, d.chars().take(400).collect::<String>()));
                    }
                }
            }
        }
    }
    if sr_mismatch > 0 {
        machinery.push(format!("{sr_mismatch} configurations: stateright and the own exploration count different numbers of states"));
    }
    // ---- third explorer: the TLA+ twin of the model under TLC (same distinct-state counts)
    let mut tlc_twin = serde_json::json!("not run (replay)");
    if replay_cfg.is_none() {
        let verif = std::env::var("VERIF_DIR").unwrap_or_else(|_| "/verif".into());
        let exe = std::env::current_exe().unwrap();
        let mut cmd = std::process::Command::new("python3");
        cmd.arg(format!("{verif}/harness-proto/tla/tlc_twin.py")).arg("--protomc").arg(&exe);
        if !thorough {
            cmd.arg("--quick");
        }
        match cmd.output() {
            Err(e) => machinery.push(format!("cannot run the TLC twin: {e}")),
            Ok(o) => {
                let so = String::from_utf8_lossy(&o.stdout).to_string();
                match so.lines().rev().find(|l| l.starts_with('{')).and_then(|l| serde_json::from_str::<serde_json::Value>(l).ok()) {
                    None => machinery.push(format!("the TLC twin gave no report: {}", String::from_utf8_lossy(&o.stderr).chars().take(300).collect::<String>())),
                    Some(j) => {
                        for e in j["errors"].as_array().cloned().unwrap_or_default() {
                            machinery.push(format!("TLC twin: {}", e.as_str().unwrap_or("?").chars().take(300).collect::<String>()));
                        }
                        tlc_twin = j["configurations"].clone();
                        if let Some(why) = j["skipped"].as_str() {
                            tlc_twin = serde_json::json!(format!("not run: {why}"));
                        }
                    }
                }
            }
        }
    }
    let shapes: Vec<serde_json::Value> = {
        let m = by_shape.lock().unwrap();
        let mut k: Vec<_> = m.iter().collect();
        k.sort();
        k.into_iter().map(|((c, r), (n, s, t))| serde_json::json!({"chunks": c, "readers": r, "configurations": n, "states": s, "transitions": t})).collect()
    };
    let report = serde_json::json!({
        "engine": "protomc check",
        "property": "C07",
        "tier": tier,
        "exhaustive": caps.is_empty() && machinery.is_empty(),
        "rule": "explicit-state exploration (own breadth-first search, every 16th configuration repeated with stateright's checker, a few configurations repeated by TLC on a TLA+ twin of the model (harness-proto/tla/SyncVec.tla), state counts compared) of the abstract length-publication protocol: decoder {write chunk (begin/end), lock, publish decoded / set failed, notify_all, unlock} x R readers {bounds test, lock, predicate, condvar wait, woken, re-lock, return, unlock, size read under the lock (twice for read_exact), slice index, copy} for 1..3 chunks of 2 bytes, 1..3 readers, every multiset of reader operation lists of the alphabet (get_slice / read / read_exact at every offset, streams, two operations in a row), compressed stream delivering all or only a prefix of the bytes; NO preemption bound; invariants on every state: no reader holds bytes the decoder is writing, every operation ends with the stored bytes or with an error only when they can never come, no out-of-range index, no deadlock (every state without successor is final), bounded steps. Binding to the code: every distinct event trace of the real compression.rs under loom (hook H7: events at each lock-protected read or write of the progress, at each buffer write and at each operation's begin and end) must be a path of the model; the model's transitions witnessed by real executions are counted",
        "evaluations": states + traces,
        "distinct_nontrivial": n_cfgs + n_ccfgs,
        "info": {"model_configurations": n_cfgs, "model_states": states, "model_transitions": transitions, "configurations_repeated_with_stateright": sr_checked, "conformance_configurations": n_ccfgs, "loom_executions": execs, "distinct_traces_replayed": traces, "traces_not_accepted_by_the_model": diverged, "model_transitions_of_the_conformance_configurations": edges, "of_which_witnessed_by_real_executions": cov},
        "model": {"configurations": n_cfgs, "states": states, "transitions": transitions, "by_shape": shapes, "configurations_repeated_with_stateright": sr_checked, "state_count_mismatches": sr_mismatch, "wall_s": model_wall},
        "conformance": {"configurations": n_ccfgs, "loom_executions": execs, "distinct_traces_replayed": traces, "traces_not_accepted_by_the_model": diverged, "model_transitions_of_these_configurations": edges, "witnessed_by_real_executions": cov, "wall_s": t1.elapsed().as_secs_f64()},
        "states": states,
        "transitions": transitions,
        "traces_validated_against_impl": traces - diverged,
        "distinct_outcomes": 0,
        "extra": {"self_test_of_the_explorer": selftest, "tla_twin_under_tlc(distinct states must equal those of both Rust explorers)": tlc_twin},
        "caps": caps,
        "machinery_errors": machinery,
        "violations": findings.clone(),
        "findings": findings,
        "wall_s": t0.elapsed().as_secs_f64(),
    });
    let text = serde_json::to_string_pretty(&report).unwrap();
    if let Some(o) = out {
        std::fs::write(o, &text).unwrap();
    }
    println!("[protomc] model: {n_cfgs} configurations, {states} states, {transitions} transitions ({model_wall:.0}s); conformance: {n_ccfgs} configurations, {execs} loom executions, {traces} distinct traces, {diverged} not accepted, {cov}/{edges} model transitions witnessed; findings {}", report["findings"].as_array().unwrap().len());
    let rc = if !report["machinery_errors"].as_array().unwrap().is_empty() { 2 } else if !report["findings"].as_array().unwrap().is_empty() { 1 } else { 0 };
    std::process::exit(rc)
}
