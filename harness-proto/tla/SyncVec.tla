------------------------------- MODULE SyncVec -------------------------------
(* The length-publication protocol of jubako's bases/io/compression.rs, the same state machine   *)
(* as harness-proto/src/main.rs (engine M of C07), written a second time for TLC: the two        *)
(* explorations must find the same number of distinct states and no invariant violation.         *)
EXTENDS Integers, Sequences

CONSTANTS Total,   \* bytes of the decoded buffer (chunks of 2)
          Avail,   \* bytes the compressed stream delivers before it ends
          Ops      \* Ops[i]: sequence of <<kind, o, n>> run by reader i, kind in {"g", "r", "x"}

Chunk == 2
Readers == 1..Len(Ops)
Min(a, b) == IF a < b THEN a ELSE b
Max(a, b) == IF a > b THEN a ELSE b

VARIABLES dpc, unc, r, wr, dfail, decoded, failed, lock, rd, steps
vars == <<dpc, unc, r, wr, dfail, decoded, failed, lock, rd, steps>>

NoRange == <<-1, -1>>

Expected(op) ==
    LET fin == Min(Avail, Total) IN
    IF op[1] \in {"g", "x"}
    THEN IF op[2] + op[3] > Total \/ op[2] + op[3] > fin THEN 0 ELSE 1 + op[3]
    ELSE LET e == Min(op[2] + op[3], Total) IN IF e > fin THEN 0 ELSE 1 + (e - op[2])

Init ==
    /\ dpc = "Loop" /\ unc = 0 /\ r = 0 /\ wr = NoRange /\ dfail = FALSE
    /\ decoded = 0 /\ failed = FALSE /\ lock = -1 /\ steps = 0
    /\ rd = [i \in Readers |->
               [op |-> 0, pc |-> IF Len(Ops[i]) = 0 THEN "Finished" ELSE "Begin", end |-> 0, got |-> 0,
                size |-> 0, left |-> 0, hold |-> -1, outcome |-> 0, bad |-> FALSE]]

Tick == steps' = steps + 1

(* ---------------------------------------------------------------- the decoder *)
DLoop ==
    /\ dpc = "Loop" /\ Tick
    /\ IF unc < Total
       THEN LET size == Min(Total - unc, Chunk)
                got  == Min(size, IF Avail > unc THEN Avail - unc ELSE 0) IN
            /\ r' = got /\ wr' = <<unc, unc + got>> /\ dpc' = "Writing"
       ELSE /\ dpc' = "Done" /\ UNCHANGED <<r, wr>>
    /\ UNCHANGED <<unc, dfail, decoded, failed, lock, rd>>

DWriting ==
    /\ dpc = "Writing" /\ Tick
    /\ wr' = NoRange /\ dpc' = "NeedLock"
    /\ UNCHANGED <<unc, r, dfail, decoded, failed, lock, rd>>

DNeedLock ==
    /\ dpc = "NeedLock" /\ lock = -1 /\ Tick
    /\ lock' = 0 /\ dpc' = "HaveLock"
    /\ UNCHANGED <<unc, r, wr, dfail, decoded, failed, rd>>

DHaveLock ==
    /\ dpc = "HaveLock" /\ Tick
    /\ IF r > 0
       THEN /\ unc' = unc + r /\ decoded' = unc + r /\ UNCHANGED <<failed, dfail>>
       ELSE /\ failed' = TRUE /\ dfail' = TRUE /\ UNCHANGED <<unc, decoded>>
    /\ dpc' = "Notify"
    /\ UNCHANGED <<r, wr, lock, rd>>

DNotify ==
    /\ dpc = "Notify" /\ Tick
    /\ rd' = [i \in Readers |-> IF rd[i].pc = "Waiting" THEN [rd[i] EXCEPT !.pc = "Woken"] ELSE rd[i]]
    /\ dpc' = "Unlock"
    /\ UNCHANGED <<unc, r, wr, dfail, decoded, failed, lock>>

DUnlock ==
    /\ dpc = "Unlock" /\ Tick
    /\ lock' = -1 /\ dpc' = IF dfail THEN "Done" ELSE "Loop"
    /\ UNCHANGED <<unc, r, wr, dfail, decoded, failed, rd>>

Decoder == DLoop \/ DWriting \/ DNeedLock \/ DHaveLock \/ DNotify \/ DUnlock

(* ---------------------------------------------------------------- reader i *)
OpOf(i) == Ops[i][rd[i].op + 1]

RBegin(i) ==
    /\ rd[i].pc = "Begin" /\ Tick
    /\ LET op == OpOf(i)
           oob == op[2] + op[3] > Total IN
       rd' = [rd EXCEPT ![i] =
                IF op[1] \in {"g", "x"} /\ oob THEN [@ EXCEPT !.outcome = 0, !.pc = "End"]
                ELSE IF op[1] \in {"g", "x"} THEN [@ EXCEPT !.end = op[2] + op[3], !.pc = "WfLock"]
                ELSE [@ EXCEPT !.end = Min(op[2] + op[3], Total), !.pc = "WfLock"]]
    /\ UNCHANGED <<dpc, unc, r, wr, dfail, decoded, failed, lock>>

RLock(i) ==
    /\ rd[i].pc \in {"WfLock", "Woken"} /\ lock = -1 /\ Tick
    /\ lock' = i /\ rd' = [rd EXCEPT ![i].pc = "WfCheck"]
    /\ UNCHANGED <<dpc, unc, r, wr, dfail, decoded, failed>>

RCheck(i) ==
    /\ rd[i].pc = "WfCheck" /\ Tick
    /\ IF decoded < rd[i].end /\ ~failed
       THEN /\ lock' = -1 /\ rd' = [rd EXCEPT ![i].pc = "Waiting"]
       ELSE /\ UNCHANGED lock /\ rd' = [rd EXCEPT ![i].pc = "WfReturn"]
    /\ UNCHANGED <<dpc, unc, r, wr, dfail, decoded, failed>>

RReturn(i) ==
    /\ rd[i].pc = "WfReturn" /\ Tick
    /\ rd' = [rd EXCEPT ![i] = [@ EXCEPT !.got = decoded, !.pc = "WfUnlock"]]
    /\ UNCHANGED <<dpc, unc, r, wr, dfail, decoded, failed, lock>>

RUnlock(i) ==
    /\ rd[i].pc = "WfUnlock" /\ Tick
    /\ lock' = -1
    /\ rd' = [rd EXCEPT ![i] =
                IF @.got < @.end THEN [@ EXCEPT !.outcome = 0, !.pc = "End"]
                ELSE [@ EXCEPT !.left = IF OpOf(i)[1] = "x" THEN 2 ELSE 1, !.pc = "SzLock"]]
    /\ UNCHANGED <<dpc, unc, r, wr, dfail, decoded, failed>>

RSzLock(i) ==
    /\ rd[i].pc = "SzLock" /\ lock = -1 /\ Tick
    /\ lock' = i /\ rd' = [rd EXCEPT ![i].pc = "SzRead"]
    /\ UNCHANGED <<dpc, unc, r, wr, dfail, decoded, failed>>

RSzRead(i) ==
    /\ rd[i].pc = "SzRead" /\ Tick
    /\ rd' = [rd EXCEPT ![i] = [@ EXCEPT !.size = decoded, !.hold = Max(IF @ = -1 THEN 0 ELSE @, decoded), !.pc = "SzUnlock"]]
    /\ UNCHANGED <<dpc, unc, r, wr, dfail, decoded, failed, lock>>

RSzUnlock(i) ==
    /\ rd[i].pc = "SzUnlock" /\ Tick
    /\ lock' = -1
    /\ LET op == OpOf(i)
           inRange == IF op[1] = "r" THEN op[2] <= rd[i].size ELSE rd[i].end <= rd[i].size IN
       rd' = [rd EXCEPT ![i] =
                IF ~inRange THEN [@ EXCEPT !.left = @ - 1, !.outcome = 7777, !.pc = "End"]
                ELSE IF @.left - 1 > 0 THEN [@ EXCEPT !.left = @ - 1, !.pc = "SzLock"]
                ELSE [@ EXCEPT !.left = @ - 1, !.pc = "Copy"]]
    /\ UNCHANGED <<dpc, unc, r, wr, dfail, decoded, failed>>

RCopy(i) ==
    /\ rd[i].pc = "Copy" /\ Tick
    /\ LET op == OpOf(i) IN
       rd' = [rd EXCEPT ![i] = [@ EXCEPT !.outcome = IF op[1] = "r" THEN 1 + Min(rd[i].size - op[2], op[3]) ELSE 1 + op[3], !.pc = "End"]]
    /\ UNCHANGED <<dpc, unc, r, wr, dfail, decoded, failed, lock>>

REnd(i) ==
    /\ rd[i].pc = "End" /\ Tick
    /\ rd' = [rd EXCEPT ![i] = [@ EXCEPT !.bad = @ \/ (rd[i].outcome # Expected(OpOf(i))), !.hold = -1, !.op = @ + 1,
                                         !.pc = IF rd[i].op + 1 < Len(Ops[i]) THEN "Begin" ELSE "Finished"]]
    /\ UNCHANGED <<dpc, unc, r, wr, dfail, decoded, failed, lock>>

Reader(i) == RBegin(i) \/ RLock(i) \/ RCheck(i) \/ RReturn(i) \/ RUnlock(i) \/ RSzLock(i) \/ RSzRead(i) \/ RSzUnlock(i) \/ RCopy(i) \/ REnd(i)

Next == Decoder \/ \E i \in Readers : Reader(i)

Spec == Init /\ [][Next]_vars

(* ---------------------------------------------------------------- invariants *)
RaceFree == wr[2] > wr[1] => \A i \in Readers : rd[i].hold <= wr[1]
OutcomesOk == \A i \in Readers : ~rd[i].bad
AllDone == dpc = "Done" /\ \A i \in Readers : rd[i].pc = "Finished"
NoDeadlock == (~ENABLED Next) => AllDone
Bounded == steps < 400
=============================================================================
