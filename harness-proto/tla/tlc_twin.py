#!/usr/bin/env python3
"""Third exploration of the C07 protocol model: the TLA+ twin (SyncVec.tla) under TLC.
For a list of configurations, TLC's number of distinct states must equal the number the Rust
explorers (own BFS and stateright) report, and TLC must find no invariant violation.

  tlc_twin.py [--protomc PATH] [--workdir DIR]     prints one JSON line
"""
import json, os, re, subprocess, sys, tempfile, shutil

HERE = os.path.dirname(os.path.abspath(__file__))
CONFIGS = [  # (chunks, avail, ops)
    (1, 2, "g:0:2"),
    (2, 4, "g:0:2;r:1:3"),
    (2, 3, "g:0:4;x:3:1"),
    (2, 4, "g:0:4;g:0:4"),
    (3, 6, "g:0:2;g:2:2;x:5:1"),
    (3, 5, "g:0:6;r:1:6"),
    (2, 4, "r:0:3,r:3:1,r:4:0;g:3:2"),
]


def tla_ops(ops):
    readers = []
    for rdr in ops.split(";"):
        items = []
        for o in rdr.split(","):
            if not o:
                continue
            k, a, b = o.split(":")
            items.append(f'<<"{k}", {a}, {b}>>')
        readers.append("<<" + ", ".join(items) + ">>")
    return "<<" + ", ".join(readers) + ">>"


def main():
    args = sys.argv[1:]
    protomc = os.path.join(HERE, "..", "target", "release", "protomc")
    if "--protomc" in args:
        protomc = args[args.index("--protomc") + 1]
    if shutil.which("tlc") is None:
        print(json.dumps({"configurations": [], "errors": [], "skipped": "tlc is not on PATH"}))
        sys.exit(0)
    configs = CONFIGS[:4] if "--quick" in args else CONFIGS
    limit = 120 if "--quick" in args else 900
    work = tempfile.mkdtemp(prefix="tlc-twin-", dir=os.environ.get("JBKMC_SCRATCH_ROOT") or "/dev/shm")
    results, errors = [], []
    try:
        shutil.copy(os.path.join(HERE, "SyncVec.tla"), work)
        for k, (chunks, avail, ops) in enumerate(configs):
            mc = f"MC{k}"
            open(os.path.join(work, mc + ".tla"), "w").write(
                f"---- MODULE {mc} ----\nEXTENDS SyncVec\nconst_Ops == {tla_ops(ops)}\n====\n")
            open(os.path.join(work, mc + ".cfg"), "w").write(
                f"CONSTANTS\n Total = {chunks * 2}\n Avail = {avail}\n Ops <- const_Ops\nINIT Init\nNEXT Next\n"
                "INVARIANTS RaceFree OutcomesOk NoDeadlock Bounded\nCHECK_DEADLOCK FALSE\n")
            # TLC and SANY unpack their standard modules into java.io.tmpdir: keep that inside the scratch area
            env = dict(os.environ, JAVA_TOOL_OPTIONS="-Djava.io.tmpdir=" + work)
            try:
                p = subprocess.run(["tlc", "-workers", "4", "-metadir", os.path.join(work, "states" + str(k)), mc + ".tla"], cwd=work, env=env, capture_output=True, text=True, timeout=limit)
            except subprocess.TimeoutExpired:
                # a machine too busy to finish TLC in time: no comparison for this configuration, not an error
                results.append({"chunks": chunks, "avail": avail, "ops": ops, "skipped": f"TLC did not finish within {limit} s"})
                continue
            out = p.stdout + p.stderr
            # the last such line is the final count (a slow run also prints progress lines)
            found = re.findall(r"(\d+) distinct states found, 0 states left on queue", out)
            m = re.match(r"(\d+)", found[-1]) if found else None
            viol = "Invariant" in out and "is violated" in out
            tlc_states = int(m.group(1)) if m else None
            q = subprocess.run([protomc, "explore", "--chunks", str(chunks), "--avail", str(avail), "--ops", ops], capture_output=True, text=True, timeout=600)
            m2 = re.search(r"own BFS: states (\d+)", q.stdout)
            m3 = re.search(r"stateright: unique states (\d+)", q.stdout)
            rust_states = int(m2.group(1)) if m2 else None
            sr_states = int(m3.group(1)) if m3 else None
            results.append({"chunks": chunks, "avail": avail, "ops": ops, "tlc_distinct_states": tlc_states, "own_bfs_states": rust_states, "stateright_states": sr_states, "tlc_invariant_violated": viol})
            if tlc_states is None and not viol:
                # TLC did not complete (environment: no java, no room, killed): no comparison for
                # this configuration; the spec itself is static and was checked when it was written
                results[-1]["skipped"] = "TLC did not complete: " + out[-200:].replace("\n", " ")
            elif rust_states is None:
                errors.append(f"{ops}: protomc explore gave no state count: {q.stdout[-200:]} {q.stderr[-200:]}")
            elif tlc_states != rust_states or sr_states != rust_states:
                errors.append(f"{ops} avail {avail}: TLC {tlc_states}, own BFS {rust_states}, stateright {sr_states} distinct states")
            if viol:
                errors.append(f"{ops} avail {avail}: TLC reports an invariant violation: " + out[out.find("Invariant"):][:300])
    finally:
        shutil.rmtree(work, ignore_errors=True)
    print(json.dumps({"configurations": results, "errors": errors}))
    sys.exit(1 if errors else 0)


if __name__ == "__main__":
    main()
