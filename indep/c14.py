#!/usr/bin/env python3
"""C14 engine: written bytes follow the layout as decoded by the independent decoder, and the
reference corpus keeps reading the same.

  c14.py c14 --tier quick|thorough --out REPORT [--replay FILE]

1. `corpusmc gen` (current tree) writes the enumerated containers (packaging, content and schema
   families of C10/C01/C02) with their reference model and the library's dump.
2. Every container is validated and decoded by indep/jbkdecode.py (no jubako code); the decoder's
   dump must equal the reference model AND the library's dump, node by node.
3. Every container of /verif/corpus (written by the pinned version) is re-dumped by the current
   reader and by the decoder; both must equal the committed expected dump.
"""
import json
import lzma
import multiprocessing
import os
import shutil
import subprocess
import sys
import tempfile
import time

HERE = os.path.dirname(os.path.abspath(__file__))
VERIF = os.environ.get("VERIF_DIR", os.path.dirname(HERE))
sys.path.insert(0, HERE)
import jbkdecode  # noqa: E402

BIN = os.path.join(VERIF, "harness", "target", "release")
CODEC = os.path.join(BIN, "codec")
CORPUSMC = os.path.join(BIN, "corpusmc")


def compare(model, got, path, out, counter):
    """every node defined by `model` must be present and equal in `got`"""
    if isinstance(model, dict):
        if not isinstance(got, dict):
            out.append((path, json.dumps(model)[:120], json.dumps(got)[:120]))
            return
        for k, v in model.items():
            if k not in got:
                out.append((f"{path}/{k}", json.dumps(v)[:120], "<absent>"))
            else:
                compare(v, got[k], f"{path}/{k}", out, counter)
    elif isinstance(model, list):
        if not isinstance(got, list) or len(got) != len(model):
            out.append((f"{path}/#len", str(len(model)), str(len(got) if isinstance(got, list) else got)[:60]))
            return
        for i, (a, b) in enumerate(zip(model, got)):
            compare(a, b, f"{path}/{i}", out, counter)
    else:
        counter[0] += 1
        if model != got:
            out.append((path, json.dumps(model)[:120], json.dumps(got)[:120]))


def strip(d):
    """the part of a dump all three parties define: indexes (offset,count,entries) and contents"""
    out = {"open": d.get("open"), "indexes": {}, "contents": {}, "check": d.get("check")}
    for name, ix in (d.get("indexes") or {}).items():
        if isinstance(ix, dict):
            out["indexes"][name] = {k: ix.get(k) for k in ("offset", "count", "entries")}
        else:
            out["indexes"][name] = ix
    for k, v in (d.get("contents") or {}).items():
        if k.startswith("99/") or "#" in k:
            continue
        out["contents"][k] = v
    return out


def one(args):
    cdir, is_corpus = args
    res = {"name": os.path.basename(cdir), "violations": [], "nodes": 0, "outcome": "agree"}
    try:
        meta = json.load(open(os.path.join(cdir, "meta.json")))
    except Exception as e:
        res["violations"].append(("MACHINERY meta.json", str(e)))
        return res
    entry = os.path.join(cdir, meta["entry"])
    pack_ids = [p for p in meta["pack_ids"] if p != 99]
    counter = [0]
    try:
        dec = jbkdecode.decode(entry, CODEC, pack_ids)
    except jbkdecode.Invalid as e:
        res["violations"].append(("C14 the independent decoder rejects the written bytes: " + str(e).split(":")[0][:60], f"{meta['name']}: {e}"))
        res["outcome"] = "rejected"
        return res
    except (IndexError, ValueError, KeyError, UnicodeDecodeError, OverflowError, lzma.LZMAError) as e:
        # running off the end of a structure / undecodable field = the bytes do not follow the layout
        res["violations"].append(("C14 the independent decoder cannot follow the written bytes (" + type(e).__name__ + ")", f"{meta['name']}: {type(e).__name__}: {e}"))
        res["outcome"] = "rejected"
        return res
    except Exception as e:  # anything else is a decoder bug = machinery
        res["violations"].append(("MACHINERY decoder crashed", f"{meta['name']}: {type(e).__name__}: {e}"))
        return res
    res["notes"] = dec.get("notes", [])
    dec_s = strip(dec)
    model = strip(meta["model"]) if not is_corpus else None
    expected = strip(meta["expected"]) if is_corpus else None
    lib = strip(meta["lib"]) if not is_corpus else None
    if is_corpus:
        # current reader on the old file
        p = subprocess.run([CORPUSMC, "dump", cdir], capture_output=True, text=True)
        try:
            cur = strip(json.loads(p.stdout))
        except Exception:
            res["violations"].append(("C14 current reader fails on a corpus file", f"{meta['name']}: {p.stdout[:200]} {p.stderr[:200]}"))
            res["outcome"] = "corpus-unreadable"
            return res
        diffs = []
        compare(expected, cur, "", diffs, counter)
        for d in diffs[:1]:
            res["violations"].append(("C14 a corpus file reads differently with the current reader: " + d[0].split("/")[1], f"{meta['name']} {d[0]}: expected {d[1]} got {d[2]}"))
        diffs = []
        compare(expected, dec_s, "", diffs, counter)
        for d in diffs[:1]:
            res["violations"].append(("C14 a corpus file decodes differently with the independent decoder: " + d[0].split("/")[1], f"{meta['name']} {d[0]}: expected {d[1]} got {d[2]}"))
    else:
        diffs = []
        compare(model, dec_s, "", diffs, counter)
        for d in diffs[:1]:
            res["violations"].append(("C14 independent decoding differs from what was written: " + d[0].split("/")[1], f"{meta['name']} {d[0]}: model {d[1]} decoder {d[2]}"))
        diffs = []
        compare(lib, dec_s, "", diffs, counter)
        compare(dec_s, lib, "", diffs, counter)
        for d in diffs[:1]:
            res["violations"].append(("C14 independent decoding differs from the library's reading: " + d[0].split("/")[1], f"{meta['name']} {d[0]}: library {d[1]} decoder {d[2]}"))
    if res["violations"]:
        res["outcome"] = "violation"
    res["nodes"] = counter[0]
    return res


def main():
    args = sys.argv[1:]
    tier = os.environ.get("VERIF_TIER", "quick")
    out = None
    replay = None
    i = 1
    while i < len(args):
        if args[i] == "--tier":
            tier = args[i + 1]; i += 2
        elif args[i] == "--out":
            out = args[i + 1]; i += 2
        elif args[i] == "--replay":
            replay = args[i + 1]; i += 2
        else:
            i += 1
    t0 = time.time()
    machinery = []
    base = tempfile.mkdtemp(prefix="jbkmc-c14-", dir=os.environ.get("JBKMC_SCRATCH_ROOT") or ("/dev/shm" if os.path.isdir("/dev/shm") else "/var/tmp"))
    rep = {"engine": "c14.py", "property": "C14"}
    try:
        p = subprocess.run([CORPUSMC, "gen", "--dir", base, "--set", tier if tier in ("quick", "thorough") else "quick"], capture_output=True, text=True)
        if p.returncode != 0:
            machinery.append("corpusmc gen failed: " + p.stderr[-300:])
        idx = json.load(open(os.path.join(base, "index.json"))) if os.path.exists(os.path.join(base, "index.json")) else {"containers": [], "errors": ["no index"]}
        jobs = [(os.path.join(base, n), False) for n in idx["containers"] if os.path.exists(os.path.join(base, n, "meta.json"))]
        creation_errors = idx.get("errors", [])
        corpus_dir = os.path.join(VERIF, "corpus")
        corpus = sorted(d for d in os.listdir(corpus_dir) if os.path.exists(os.path.join(corpus_dir, d, "meta.json"))) if os.path.isdir(corpus_dir) else []
        jobs += [(os.path.join(corpus_dir, d), True) for d in corpus]
        if replay:
            rj = json.load(open(replay))
            name = rj.get("case", rj).get("container")
            jobs = [j for j in jobs if os.path.basename(j[0]) == name]
        with multiprocessing.Pool(min(16, os.cpu_count() or 4)) as pool:
            results = pool.map(one, jobs, chunksize=4)
        violations = {}
        outcomes = {}
        notes = {}
        nodes = 0
        for r in results:
            outcomes[r["outcome"]] = outcomes.get(r["outcome"], 0) + 1
            nodes += r["nodes"]
            for n in r.get("notes", []):
                notes[n] = notes.get(n, 0) + 1
            for k, w in r["violations"]:
                if k.startswith("MACHINERY"):
                    machinery.append(f"{k}: {w}")
                    continue
                v = violations.setdefault(k, {"key": k, "what": w, "case": {"engine": "c14.py", "container": r["name"]}, "count": 0})
                v["count"] += 1
        for e in creation_errors:
            k = "C14 creation of an enumerated container failed"
            v = violations.setdefault(k, {"key": k, "what": e, "case": {"engine": "c14.py", "container": e.split(":")[0]}, "count": 0})
            v["count"] += 1
        rep.update({
            "evaluations": len(results),
            "distinct_nontrivial": len(results),
            "rule": "containers of the packaging family (shapes x 4 compressions x {one,two,sep,concat}), the content family (insertion sequences of length<=2 over length x entropy x hint, 4 compressions) and the schema family (one-column multisets of boundary values, arrays x prefix x store kind, content addresses, pairs of variants incl. zero-width/empty/33-byte padding) are written by the current creator, validated and decoded by the independent decoder, and compared node by node with the reference model and with the library's dump; plus every container of the committed corpus (written by the pinned version) re-read by the current reader and by the decoder against the committed expected dump; every container is non-trivial and distinct by construction",
            "outcomes": outcomes, "distinct_outcomes": len(outcomes),
            "samples": [os.path.basename(j[0]) for j in jobs[:3]] + [os.path.basename(j[0]) for j in jobs[-2:]],
            "violations": list(violations.values()),
            "info": notes,
            "extra": {"programs": len(results), "disagreements_checked": nodes, "corpus_files": len(corpus), "generated": len(jobs) - len(corpus)},
            "exhaustive": True, "caps": [], "states": 0, "transitions": 0, "traces_validated_against_impl": 0,
            "machinery_errors": machinery, "wall_s": time.time() - t0,
        })
    finally:
        shutil.rmtree(base, ignore_errors=True)
    text = json.dumps(rep, indent=1)
    if out:
        open(out, "w").write(text)
    else:
        print(text)
    sys.stderr.write(f"[c14.py] C14 containers={rep.get('evaluations')} nodes={rep.get('extra',{}).get('disagreements_checked')} violations(keys)={len(rep.get('violations',[]))} wall={time.time()-t0:.1f}s\n")
    if machinery:
        for m in machinery[:5]:
            sys.stderr.write(f"MACHINERY-ERROR {m}\n")
        sys.exit(2)
    sys.exit(1 if rep.get("violations") else 0)


if __name__ == "__main__":
    main()
