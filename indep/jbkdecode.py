#!/usr/bin/env python3
"""jbkdecode — an independent decoder of the Jubako on-disk layout (C14).

Shares no code with the library: own CRC-32C (poly 0x1EDC6F41, init all ones, not reflected, no
final xor, stored big-endian), own BLAKE3, own layout tables (DESIGN.md appendix A, collected from
the pinned writer). It VALIDATES (every block CRC, header/footer mirror, declared sizes, offsets
inside the pack, reserved bytes, blake3 of every pack incl. the manifest's masked check) and
DECODES to the logical dump format shared with the harness:

  {"open":"ok","indexes":{name:{offset,count,entries:[{variant,values:{prop:{u|s|a|c}}}]}},
   "contents":{"pack/idx":{size,blake3,read}},"check":true}

Deviations of the pinned bytes from spec/*.rst (the bytes win): format version (0,2); PackLocator
is uuid+size+offset (32 bytes) + CRC; indexed value store count is u64; entry-store tail field
order; cluster data carries no CRC; a container pack written before fix 846aad0 declares a size 5
bytes short (accepted as a legacy deviation, reported in "notes").

usage: jbkdecode.py <entry file> [--codec <path to harness codec binary>] [--packs 1,2,...]
"""
import json
import lzma
import os
import struct
import subprocess
import sys
import tempfile

# ---------------------------------------------------------------- CRC-32C (jubako flavour)
_CRC_TABLE = []
for _i in range(256):
    _c = _i << 24
    for _ in range(8):
        _c = ((_c << 1) ^ 0x1EDC6F41) & 0xFFFFFFFF if _c & 0x80000000 else (_c << 1) & 0xFFFFFFFF
    _CRC_TABLE.append(_c)


def crc32c(data):
    crc = 0xFFFFFFFF
    for b in data:
        crc = ((crc << 8) & 0xFFFFFFFF) ^ _CRC_TABLE[((crc >> 24) ^ b) & 0xFF]
    return crc


# ---------------------------------------------------------------- BLAKE3 (hash mode only)
_IV = [0x6A09E667, 0xBB67AE85, 0x3C6EF372, 0xA54FF53A, 0x510E527F, 0x9B05688C, 0x1F83D9AB, 0x5BE0CD19]
_PERM = [2, 6, 3, 10, 7, 0, 4, 13, 1, 11, 12, 5, 9, 14, 15, 8]
_CHUNK_START, _CHUNK_END, _PARENT, _ROOT = 1, 2, 4, 8
_M32 = 0xFFFFFFFF


def _rotr(x, n):
    return ((x >> n) | (x << (32 - n))) & _M32


def _g(s, a, b, c, d, mx, my):
    s[a] = (s[a] + s[b] + mx) & _M32
    s[d] = _rotr(s[d] ^ s[a], 16)
    s[c] = (s[c] + s[d]) & _M32
    s[b] = _rotr(s[b] ^ s[c], 12)
    s[a] = (s[a] + s[b] + my) & _M32
    s[d] = _rotr(s[d] ^ s[a], 8)
    s[c] = (s[c] + s[d]) & _M32
    s[b] = _rotr(s[b] ^ s[c], 7)


def _compress(cv, block_words, counter, block_len, flags):
    s = cv[:8] + _IV[:4] + [counter & _M32, (counter >> 32) & _M32, block_len, flags]
    m = list(block_words)
    for r in range(7):
        _g(s, 0, 4, 8, 12, m[0], m[1])
        _g(s, 1, 5, 9, 13, m[2], m[3])
        _g(s, 2, 6, 10, 14, m[4], m[5])
        _g(s, 3, 7, 11, 15, m[6], m[7])
        _g(s, 0, 5, 10, 15, m[8], m[9])
        _g(s, 1, 6, 11, 12, m[10], m[11])
        _g(s, 2, 7, 8, 13, m[12], m[13])
        _g(s, 3, 4, 9, 14, m[14], m[15])
        if r < 6:
            m = [m[p] for p in _PERM]
    for i in range(8):
        s[i] ^= s[i + 8]
        s[i + 8] ^= cv[i]
    return s


def _words(block):
    block = block + b"\0" * (64 - len(block))
    return list(struct.unpack("<16I", block))


def _chunk_output(chunk, counter):
    """returns (cv, last_block_words, last_len, flags) describing the chunk's final compression"""
    cv = _IV[:]
    blocks = [chunk[i:i + 64] for i in range(0, len(chunk), 64)] or [b""]
    for i, b in enumerate(blocks):
        flags = 0
        if i == 0:
            flags |= _CHUNK_START
        if i == len(blocks) - 1:
            return cv, _words(b), len(b), flags | _CHUNK_END, counter
        cv = _compress(cv, _words(b), counter, 64, flags)[:8]


def blake3(data):
    data = bytes(data)
    chunks = [data[i:i + 1024] for i in range(0, len(data), 1024)] or [b""]
    if len(chunks) == 1:
        cv, w, ln, fl, ctr = _chunk_output(chunks[0], 0)
        out = _compress(cv, w, ctr, ln, fl | _ROOT)
        return struct.pack("<8I", *out[:8]).hex()
    # binary tree: left subtree holds the largest power of two of chunks < n
    def subtree(lo, hi):
        """chaining value of chunks[lo:hi] as non-root"""
        if hi - lo == 1:
            cv, w, ln, fl, ctr = _chunk_output(chunks[lo], lo)
            return _compress(cv, w, ctr, ln, fl)[:8]
        n = hi - lo
        left = 1 << ((n - 1).bit_length() - 1)
        l = subtree(lo, lo + left)
        r = subtree(lo + left, hi)
        return _compress(_IV[:], l + r, 0, 64, _PARENT)[:8]

    n = len(chunks)
    left = 1 << ((n - 1).bit_length() - 1)
    l = subtree(0, left)
    r = subtree(left, n)
    out = _compress(_IV[:], l + r, 0, 64, _PARENT | _ROOT)
    return struct.pack("<8I", *out[:8]).hex()


# ---------------------------------------------------------------- helpers
class Invalid(Exception):
    pass


def le(buf, at, n):
    if at < 0 or at + n > len(buf):
        raise Invalid(f"read of {n} bytes at {at} outside the data ({len(buf)})")
    return int.from_bytes(buf[at:at + n], "little")


def sle(buf, at, n):
    v = le(buf, at, n)
    if v >= 1 << (8 * n - 1):
        v -= 1 << (8 * n)
    return v


BLOCKS = []  # (file, absolute offset, payload size, what) of every CRC block validated
CURRENT = ["", 0]  # file and offset of the pack being decoded


def block(buf, at, size, what):
    """return the payload of the block [at, at+size) after checking the CRC stored right after it"""
    BLOCKS.append((CURRENT[0], CURRENT[1] + at, size, what))
    if at < 0 or at + size + 4 > len(buf):
        raise Invalid(f"{what}: block [{at},{at+size}+4) outside the pack ({len(buf)})")
    payload = buf[at:at + size]
    stored = int.from_bytes(buf[at + size:at + size + 4], "big")
    if crc32c(payload) != stored:
        raise Invalid(f"{what}: CRC mismatch")
    return payload


def sized_offset(v):
    return v & 0xFFFF, v >> 16  # (size, offset)


def pstring(buf, at):
    n = buf[at]
    return buf[at + 1:at + 1 + n], at + 1 + n


NOTES = []


class Pack:
    """a pack = bytes [0, pack_size) with validated header, footer and check block"""

    def __init__(self, buf, what):
        self.buf = buf
        head = block(buf, 0, 60, f"{what} pack header")
        if head[:3] != b"jbk":
            raise Invalid(f"{what}: magic")
        self.kind = chr(head[3])
        self.vendor = head[4:8]
        if (head[8], head[9]) != (0, 2):
            raise Invalid(f"{what}: version {head[8]}.{head[9]}")
        self.uuid = head[10:26].hex()
        self.flags = head[26]
        if any(head[27:32]) or any(head[48:60]):
            raise Invalid(f"{what}: reserved header bytes not zero")
        self.size = le(head, 32, 8)
        self.check_pos = le(head, 40, 8)
        if self.size > len(buf):
            raise Invalid(f"{what}: declared size {self.size} > available {len(buf)}")
        self.buf = buf = buf[:self.size] if self.kind != "C" else buf
        # check block
        kind = buf[self.check_pos] if self.check_pos < len(buf) else None
        if kind == 1:
            cb = block(buf, self.check_pos, 33, f"{what} check block")
            self.hash = cb[1:].hex()
            clen = 37
        elif kind == 0:
            block(buf, self.check_pos, 1, f"{what} check block")
            self.hash = None
            clen = 5
        else:
            raise Invalid(f"{what}: check kind {kind}")
        expect = self.check_pos + clen + 64
        if self.size != expect:
            if self.kind == "C" and self.size == expect - 5:
                NOTES.append("container pack declares a size 5 bytes short of what is written (legacy writer, before fix 846aad0)")
                self.size = expect
            else:
                raise Invalid(f"{what}: declared size {self.size} != check position + check block + footer = {expect}")
        if len(buf) < self.size:
            raise Invalid(f"{what}: file shorter than the pack")
        footer = buf[self.size - 64:self.size]
        if footer != buf[:64][::-1]:
            raise Invalid(f"{what}: footer is not the mirrored header")
        if self.kind not in "mdcC":
            raise Invalid(f"{what}: kind {self.kind}")

    def verify_hash(self, masked=None):
        if self.hash is None:
            return True
        data = bytearray(self.buf[:self.check_pos])
        for (a, b) in masked or []:
            data[a:b] = b"\0" * (b - a)
        return blake3(data) == self.hash


def open_file(path):
    """-> dict uuid -> Pack for every pack found in the file (a bare pack or a container, possibly
    embedded at the end of another file)"""
    with open(path, "rb") as f:
        data = f.read()
    start = 0
    CURRENT[0], CURRENT[1] = path, 0
    try:
        block(data, 0, 60, "head")
        if data[:3] != b"jbk":
            raise Invalid("magic")
    except Invalid:
        # look at the end: mirrored header
        if len(data) < 64:
            raise Invalid("not a jubako file (shorter than a header)")
        tail = data[-64:][::-1]
        block(tail, 0, 60, "mirrored header at the end of the file")
        size = le(tail, 32, 8)
        check_pos = le(tail, 40, 8)
        kind = chr(tail[3])
        written = size
        if kind == "C" and size == check_pos + 64:
            written = size + 5  # legacy short declaration
        start = len(data) - written
        if start < 0:
            raise Invalid("embedded pack larger than the file")
    buf = data[start:]
    CURRENT[0], CURRENT[1] = path, start
    p = Pack(buf, os.path.basename(path))
    p.path, p.base = path, start
    if p.kind != "C":
        return {p.uuid: p}
    head = block(buf, 64, 60, "container header")
    locators_pos = le(head, 0, 8)
    count = le(head, 8, 2)
    if any(head[10:36]):
        raise Invalid("container header: reserved bytes not zero")
    out = {}
    for i in range(count):
        loc = block(buf, locators_pos + i * 36, 32, f"pack locator {i}")
        uuid = loc[:16].hex()
        size = le(loc, 16, 8)
        off = le(loc, 24, 8)
        if off + size > len(buf):
            raise Invalid(f"locator {i}: pack outside the container")
        CURRENT[0], CURRENT[1] = path, start + off
        sub = Pack(buf[off:off + size], f"pack {i} in container")
        sub.path, sub.base = path, start + off
        CURRENT[0], CURRENT[1] = path, start
        if sub.uuid != uuid:
            raise Invalid(f"locator {i}: uuid differs from the pack header")
        if sub.size != size:
            raise Invalid(f"locator {i}: size {size} != pack size {sub.size}")
        out[uuid] = sub
    if locators_pos + count * 36 != p.check_pos:
        raise Invalid("container: locators do not end at the check block")
    return out


# ---------------------------------------------------------------- manifest
def decode_manifest(p):
    CURRENT[0], CURRENT[1] = p.path, p.base
    buf = p.buf
    head = block(buf, 64, 60, "manifest header")
    count = le(head, 0, 2)
    vs_size, vs_off = sized_offset(le(head, 2, 8))
    if any(head[10:36]):
        raise Invalid("manifest header: reserved bytes not zero")
    infos_at = p.check_pos - count * 256
    packs = []
    masked = []
    for i in range(count):
        at = infos_at + i * 256
        pi = block(buf, at, 252, f"pack info {i}")
        loc, _ = pstring(pi, 38)
        if any(pi[39 + len(loc):252]):
            raise Invalid(f"pack info {i}: location padding not zero")
        cs, co = sized_offset(le(pi, 24, 8))
        packs.append({
            "uuid": pi[:16].hex(), "size": le(pi, 16, 8), "check_size": cs, "check_off": co,
            "id": le(pi, 32, 2), "kind": chr(pi[34]), "group": pi[35], "free_data_id": le(pi, 36, 2),
            "location": loc.decode("utf-8"),
        })
        masked.append((at + 38, at + 256))
    if not p.verify_hash(masked):
        raise Invalid("manifest: blake3 (with masked locations) does not match")
    # copies of the packs' check blocks
    for i, pk in enumerate(packs):
        cb = buf[pk["check_off"]:pk["check_off"] + pk["check_size"]]
        if len(cb) != pk["check_size"] or pk["check_size"] not in (5, 37):
            raise Invalid(f"pack info {i}: check info position")
        block(buf, pk["check_off"], pk["check_size"] - 4, f"copy of check block {i}")
        pk["check_hash"] = cb[1:33].hex() if cb[0] == 1 else None
    return packs


# ---------------------------------------------------------------- content pack
def decompress(kind, raw, size, codec):
    if kind == 0:
        return raw
    if kind == 2:
        d = lzma.LZMADecompressor(format=lzma.FORMAT_ALONE)
        return d.decompress(raw, max_length=size)
    name = {1: "lz4", 3: "zstd"}.get(kind)
    if name is None:
        raise Invalid(f"unknown compression {kind}")
    if not codec:
        raise Invalid(f"{name} needs the codec binary")
    with tempfile.TemporaryDirectory(dir=os.environ.get("JBKMC_SCRATCH_ROOT") or ("/dev/shm" if os.path.isdir("/dev/shm") else None)) as d:
        i, o = os.path.join(d, "i"), os.path.join(d, "o")
        open(i, "wb").write(raw)
        r = subprocess.run([codec, name, i, o], capture_output=True)
        if r.returncode != 0:
            raise Invalid(f"{name}: codec failed: {r.stderr.decode()[:100]}")
        return open(o, "rb").read()


def decode_content(p, codec):
    CURRENT[0], CURRENT[1] = p.path, p.base
    buf = p.buf
    head = block(buf, 64, 60, "content header")
    info_pos = le(head, 0, 8)
    clus_pos = le(head, 8, 8)
    ccount = le(head, 16, 4)
    kcount = le(head, 20, 4)
    if any(head[24:36]):
        raise Invalid("content header: reserved bytes not zero")
    if not p.verify_hash():
        raise Invalid("content pack: blake3 does not match")
    ptrs = block(buf, clus_pos, kcount * 8, "cluster pointer table")
    infos = block(buf, info_pos, ccount * 4, "content info table")
    if info_pos + ccount * 4 + 4 != p.check_pos:
        raise Invalid("content pack: content infos do not end at the check block")
    clusters = []
    for k in range(kcount):
        ts, to = sized_offset(le(ptrs, k * 8, 8))
        tail = block(buf, to, ts, f"cluster {k} tail")
        comp, n, blobs = tail[0], tail[1], le(tail, 2, 2)
        if not 1 <= n <= 8 or comp > 3:
            raise Invalid(f"cluster {k}: offset size {n} / compression {comp}")
        raw_size = le(tail, 4, n)
        data_size = le(tail, 4 + n, n)
        if ts != 4 + 2 * n + max(blobs - 1, 0) * n:
            raise Invalid(f"cluster {k}: tail size")
        bounds = [0] + [le(tail, 4 + 2 * n + i * n, n) for i in range(max(blobs - 1, 0))] + [data_size]
        if any(a > b for a, b in zip(bounds, bounds[1:])):
            raise Invalid(f"cluster {k}: offsets not monotone")
        if comp == 0 and raw_size != data_size:
            raise Invalid(f"cluster {k}: raw cluster with stored size != data size")
        if to - raw_size < 128:
            raise Invalid(f"cluster {k}: data before the headers")
        clusters.append({"comp": comp, "raw": (to - raw_size, to), "size": data_size, "bounds": bounds, "plain": None})
    out = []
    for i in range(ccount):
        v = le(infos, i * 4, 4)
        k, b = v >> 12, v & 0xFFF
        if k >= kcount or b + 1 >= len(clusters[k]["bounds"]):
            raise Invalid(f"content {i}: cluster {k} blob {b} does not exist")
        c = clusters[k]
        if c["plain"] is None:
            c["plain"] = decompress(c["comp"], buf[c["raw"][0]:c["raw"][1]], c["size"], codec)
            if len(c["plain"]) != c["size"]:
                raise Invalid(f"cluster {k}: {len(c['plain'])} bytes after decompression, tail says {c['size']}")
        out.append(c["plain"][c["bounds"][b]:c["bounds"][b + 1]])
    return out


# ---------------------------------------------------------------- directory pack
def decode_value_store(buf, so, what):
    ts, to = sized_offset(so)
    tail = block(buf, to, ts, f"{what} tail")
    if tail[0] == 0:
        size = le(tail, 1, 8)
        if ts != 9:
            raise Invalid(f"{what}: plain tail size")
        data = block(buf, to - 4 - size, size, f"{what} data")
        return ("plain", data, None)
    if tail[0] == 1:
        count = le(tail, 1, 8)
        n = tail[9]
        size = le(tail, 10, n)
        if ts != 10 + n + max(count - 1, 0) * n:
            raise Invalid(f"{what}: indexed tail size")
        offs = [0] + [le(tail, 10 + n + i * n, n) for i in range(max(count - 1, 0))] + [size]
        if count == 0:
            offs = [0]
        data = block(buf, to - 4 - size, size, f"{what} data")
        return ("indexed", data, offs)
    raise Invalid(f"{what}: kind {tail[0]}")


def parse_property(t, at):
    info = t[at]
    at += 1
    typ, dat = info & 0xF0, info & 0x0F
    if typ == 0x00:
        return {"kind": "pad", "size": dat + 1, "name": ""}, at
    if typ == 0x80:
        name, at = pstring(t, at)
        return {"kind": "variant", "size": 1, "name": name.decode()}, at
    if typ == 0x10:
        pack_size = ((dat & 4) >> 2) + 1
        cid = (dat & 3) + 1
        default = None
        if dat & 8:
            default = le(t, at, pack_size)
            at += pack_size
        name, at = pstring(t, at)
        return {"kind": "content", "pack_size": pack_size, "cid": cid, "default": default,
                "size": cid + (0 if default is not None else pack_size), "name": name.decode()}, at
    if typ in (0x20, 0x30):
        n = (dat & 7) + 1
        default = None
        if dat & 8:
            default = le(t, at, n) if typ == 0x20 else sle(t, at, n)
            at += n
        name, at = pstring(t, at)
        return {"kind": "u" if typ == 0x20 else "s", "n": n, "default": default,
                "size": 0 if default is not None else n, "name": name.decode()}, at
    if typ == 0x50:
        lensize = dat & 3
        comp = t[at]
        at += 1
        prefix, key = comp & 31, comp >> 5
        store = None
        if key:
            store = t[at]
            at += 1
        default = None
        if dat & 8:
            dl = le(t, at, lensize)
            at += lensize
            dp = t[at:at + prefix]
            at += prefix
            dk = None
            if key:
                dk = le(t, at, key)
                at += key
            default = (dl, dp, dk)
        name, at = pstring(t, at)
        return {"kind": "array", "lensize": lensize, "prefix": prefix, "key": key, "store": store, "default": default,
                "size": 0 if default is not None else lensize + prefix + key, "name": name.decode()}, at
    raise Invalid(f"property type {info:#x}")


def array_value(p, length, prefix, key, stores):
    base = prefix[:min(len(prefix), length)] if length is not None else prefix
    if p["key"] == 0:
        return bytes(base)
    kind, data, offs = stores[p["store"]]
    if kind == "plain":
        if length is None:
            raise Invalid("array without length in a plain store")
        rest = length - len(base)
        if key + rest > len(data):
            raise Invalid("plain store: value outside the data")
        return bytes(base) + bytes(data[key:key + rest])
    if key + 1 >= len(offs):
        raise Invalid(f"indexed store: key {key} >= {len(offs)-1}")
    val = data[offs[key]:offs[key + 1]]
    if length is not None:
        val = val[:length - len(base)]
    return bytes(base) + bytes(val)


def read_props(entry, at, props, stores):
    vals = {}
    for p in props:
        k = p["kind"]
        if k == "pad":
            if any(entry[at:at + p["size"]]):
                raise Invalid("padding bytes not zero")
            at += p["size"]
        elif k in ("u", "s"):
            if p["default"] is not None:
                v = p["default"]
            else:
                v = le(entry, at, p["n"]) if k == "u" else sle(entry, at, p["n"])
                at += p["n"]
            vals[p["name"]] = {k: str(v)}
        elif k == "content":
            if p["default"] is not None:
                pack = p["default"]
            else:
                pack = le(entry, at, p["pack_size"])
                at += p["pack_size"]
            cid = le(entry, at, p["cid"])
            at += p["cid"]
            vals[p["name"]] = {"c": [pack, cid]}
        elif k == "array":
            if p["default"] is not None:
                length, prefix, key = p["default"]
            else:
                length = le(entry, at, p["lensize"]) if p["lensize"] else None
                at += p["lensize"]
                prefix = entry[at:at + p["prefix"]]
                at += p["prefix"]
                key = le(entry, at, p["key"]) if p["key"] else None
                at += p["key"]
            a = array_value(p, length, prefix, key, stores)
            if len(a) <= 64:
                vals[p["name"]] = {"a": a.hex()}
            else:
                vals[p["name"]] = {"a_len": len(a), "a_blake3": blake3(a)}
    return vals, at


def decode_directory(p):
    CURRENT[0], CURRENT[1] = p.path, p.base
    buf = p.buf
    head = block(buf, 64, 60, "directory header")
    ipos, epos, vpos = le(head, 0, 8), le(head, 8, 8), le(head, 16, 8)
    icount, ecount, vcount = le(head, 24, 4), le(head, 28, 4), head[32]
    if any(head[33:36]):
        raise Invalid("directory header: reserved bytes not zero")
    if not p.verify_hash():
        raise Invalid("directory pack: blake3 does not match")
    iptr = block(buf, ipos, icount * 8, "index pointer table")
    vptr = block(buf, vpos, vcount * 8, "value store pointer table")
    eptr = block(buf, epos, ecount * 8, "entry store pointer table")
    stores = [decode_value_store(buf, le(vptr, i * 8, 8), f"value store {i}") for i in range(vcount)]
    estores = []
    for e in range(ecount):
        ts, to = sized_offset(le(eptr, e * 8, 8))
        t = block(buf, to, ts, f"entry store {e} tail")
        if t[0] != 0:
            raise Invalid(f"entry store {e}: kind {t[0]}")
        count = le(t, 1, 4)
        if t[5] != 0:
            raise Invalid(f"entry store {e}: flag {t[5]}")
        esize = le(t, 6, 2)
        vcnt = t[8]
        kcount = t[9]
        at = 10
        props = []
        for _ in range(kcount):
            pr, at = parse_property(t, at)
            props.append(pr)
        if at != len(t):
            raise Invalid(f"entry store {e}: {len(t)-at} bytes left after the property definitions")
        common = []
        variants = []
        cur = None
        for pr in props:
            if pr["kind"] == "variant":
                cur = {"name": pr["name"], "props": []}
                variants.append(cur)
            elif cur is None:
                common.append(pr)
            else:
                cur["props"].append(pr)
        if len(variants) != vcnt:
            raise Invalid(f"entry store {e}: {vcnt} variants declared, {len(variants)} defined")
        csize = sum(x["size"] for x in common)
        if vcnt:
            for v in variants:
                if csize + 1 + sum(x["size"] for x in v["props"]) != esize:
                    raise Invalid(f"entry store {e}: variant {v['name']} does not fill the entry size {esize}")
        elif csize != esize:
            raise Invalid(f"entry store {e}: properties sum to {csize}, entry size is {esize}")
        data = block(buf, to - 4 - count * esize, count * esize, f"entry store {e} data")
        entries = []
        for i in range(count):
            ent = data[i * esize:(i + 1) * esize]
            vals, at = read_props(ent, 0, common, stores)
            variant = None
            if vcnt:
                variant = ent[at]
                if variant >= vcnt:
                    raise Invalid(f"entry {i}: variant id {variant}")
                v2, at2 = read_props(ent, at + 1, variants[variant]["props"], stores)
                vals.update(v2)
                at = at2
            if at != esize:
                raise Invalid(f"entry {i}: decoded {at} of {esize} bytes")
            entries.append({"variant": variant, "values": vals})
        estores.append(entries)
    indexes = {}
    for i in range(icount):
        ts, to = sized_offset(le(iptr, i * 8, 8))
        t = block(buf, to, ts, f"index {i}")
        store, count, offset = le(t, 0, 4), le(t, 4, 4), le(t, 8, 4)
        name, end = pstring(t, 17)
        if end != len(t):
            raise Invalid(f"index {i}: trailing bytes")
        if store >= ecount:
            raise Invalid(f"index {i}: store {store}")
        indexes[name.decode()] = {"offset": offset, "count": count, "store": store,
                                  "entries": estores[store][offset:offset + count]}
    return indexes


# ---------------------------------------------------------------- whole container
def decode(path, codec=None, pack_ids=None):
    NOTES.clear()
    BLOCKS.clear()
    here = os.path.dirname(os.path.abspath(path))
    packs = open_file(path)
    manifest = [p for p in packs.values() if p.kind == "m"]
    if len(manifest) != 1:
        raise Invalid(f"{len(manifest)} manifests in the entry file")
    infos = decode_manifest(manifest[0])
    cache = {}

    def locate(pi):
        if pi["uuid"] in packs:
            return packs[pi["uuid"]]
        loc = os.path.join(here, pi["location"])
        if not pi["location"] or not os.path.isfile(loc):
            return None
        if loc not in cache:
            cache[loc] = open_file(loc)
        return cache[loc].get(pi["uuid"])

    out = {"open": "ok", "indexes": {}, "contents": {}, "check": True}
    for pi in infos:
        pk = locate(pi)
        if pk is None:
            if pi["kind"] == "d":
                raise Invalid("directory pack not found")
            out["contents"][f"{pi['id']}/0"] = {"missing": {"pack_id": pi["id"], "location": pi["location"]}}
            continue
        if pk.size != pi["size"]:
            raise Invalid(f"pack {pi['id']}: size in the manifest {pi['size']} != pack size {pk.size}")
        if pk.hash != pi["check_hash"]:
            raise Invalid(f"pack {pi['id']}: the manifest's copy of the check block differs from the pack's")
        if pk.kind != pi["kind"]:
            raise Invalid(f"pack {pi['id']}: kind")
        if pi["kind"] == "d":
            out["indexes"] = decode_directory(pk)
        elif pack_ids is None or pi["id"] in pack_ids:
            blobs = decode_content(pk, codec)
            for i, b in enumerate(blobs):
                out["contents"][f"{pi['id']}/{i}"] = {"size": len(b), "blake3": blake3(b), "read": len(b)}
            out["contents"][f"{pi['id']}/{len(blobs)}"] = "no such content"
    out["notes"] = sorted(set(NOTES))
    return out


def main():
    args = sys.argv[1:]
    if not args:
        print(__doc__)
        sys.exit(2)
    codec = None
    if "--codec" in args:
        codec = args[args.index("--codec") + 1]
    try:
        d = decode(args[0], codec)
        if "--blocks" in args:
            # every CRC block of every file of the container: [file, offset, payload size, what]
            print(json.dumps({"blocks": sorted(set((os.path.basename(f), o, n, w) for f, o, n, w in BLOCKS))}))
            return
    except Invalid as e:
        print(json.dumps({"open": {"err": f"independent decoder: {e}"}}))
        sys.exit(1)
    print(json.dumps(d))


if __name__ == "__main__":
    main()
