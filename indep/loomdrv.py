#!/usr/bin/env python3
"""C07 engine A driver: runs harness-loom's `loommc` (real compression.rs / file.rs under loom)
over a list of configurations, iterating the preemption bound 0,1,2(,3), sharded over the cores.

  loomdrv.py c07 --tier quick|thorough --out REPORT
"""
import json
import os
import subprocess
import sys
import time
from concurrent.futures import ThreadPoolExecutor

HERE = os.path.dirname(os.path.abspath(__file__))
VERIF = os.environ.get("VERIF_DIR", os.path.dirname(HERE))
BIN = os.path.join(VERIF, "harness", "target-loom", "release", "loommc")
SCRATCH = os.environ.get("JBKMC_SCRATCH_ROOT") or "/dev/shm"
PACK = f"{SCRATCH}/jbkmc-loompack-{os.getpid()}.jbkc"
TOP = f"{SCRATCH}/jbkmc-loomtop-{os.getpid()}"


def clean(x):
    """argument as shown in reports: scratch paths dropped, the top-level containers named"""
    if x.startswith(TOP):
        return "<5-file container" + x[len(TOP):] + ">"
    if x.startswith(SCRATCH):
        return ""
    return x


DEADLINE = [None]


def run(cfg, timeout):
    t0 = time.time()
    # the whole stage has a wall budget: a configuration whose turn comes after it is not started
    # (reported as a cap, like one that does not finish within its own limit)
    if DEADLINE[0] is not None and t0 > DEADLINE[0]:
        return {"cfg": cfg, "cap": True, "skipped": True, "wall": 0.0}
    if DEADLINE[0] is not None:
        timeout = max(30, min(timeout, DEADLINE[0] - t0 + 60))
    try:
        p = subprocess.run([BIN] + cfg, capture_output=True, text=True, timeout=timeout)
    except subprocess.TimeoutExpired:
        return {"cfg": cfg, "cap": True, "wall": time.time() - t0}
    line = [l for l in p.stdout.splitlines() if l.startswith("{")]
    if not line:
        return {"cfg": cfg, "crash": (p.stdout + p.stderr)[-400:], "rc": p.returncode, "wall": time.time() - t0}
    r = json.loads(line[-1])
    r["cfg"] = cfg
    r["wall"] = time.time() - t0
    return r


def memory_error(r):
    """loommc killed by SIGSEGV / SIGBUS, or aborted by glibc's heap consistency checks"""
    rc = r.get("rc")
    txt = r.get("crash", "")
    if rc in (-11, -7):
        return True
    return rc == -6 and any(m in txt for m in ("malloc()", "free()", "double free", "corrupted", "munmap_chunk", "tcache", "invalid pointer", "realloc()"))


RULES = {
    "c07": "stateless exploration with loom of the real compression.rs (create_sync_vec, decode_to_end, SyncVecRd, impl Source for SeekableDecoder) and FileSource::read, and (engine B) of the real ContentPack reader: cluster cache Mutex<LruCache> of capacity 1 or 2 (eviction at every other access), the cluster RwLock raw->plain switch (two readers racing to start the decoder), background decoders with 4-byte chunks and the shared BufReader of the file, two readers doing 2+1 (or 2+2) content reads over {two blobs of one compressed cluster, a raw cluster, another compressed cluster}; (engine B2) of the real Container: two threads making the first accesses (1+1 and 2+1 operations over content reads in 3 packs, index/entry/value-store opening, check(), unknown pack id) to a freshly opened 5-file container (uncompressed, zstd, lz4, one pack file missing), with a scheduling point at every OnceLock operation of the pack slots, the store caches and the check-info cells; engine A: one decoder thread fed by a scripted Read (chunks of 2 bytes, short-read scripts {2},{1},{1,2}) and R readers each doing one operation from {get_slice(o,n) for every sub-range incl. one past the end, read(o, long/1), read_exact, stream to the end}; every operation tuple is a configuration; all interleavings at loom's scheduling points (mutex, condvar, thread) with preemption bound 0,1,2 (3 and unbounded where listed); one loom cell per buffer byte makes the unsynchronised buffer accesses visible to the race detector; evaluations = executions (complete schedules), distinct_nontrivial = configurations (operation tuple x short-read script)",
    "c08": "stateless exploration with loom of the real clusterwriter.rs (ClusterWriterProxy, W ClusterCompressor threads, the ClusterWriter thread, dispatch/fusion channels, back-pressure condvar) driven through ContentPackCreator with an in-memory recipient, 1 blob per cluster (override), every insertion program over {c: hint Yes, r: hint No} of length 1..4 (W=1) / 1..3 (W=2), programs with zero-length contents (e: empty/Yes, f: empty/No) plus 5 and 6 compressed clusters beyond the back-pressure limit, preemption bound 0,1,2 (3 on the short programs); per execution: creation terminates (no deadlock), addresses as inserted, the produced pack is decoded by the independent decoder and every content resolves to its bytes; evaluations = executions, distinct_nontrivial = (program, W, bound) configurations",
}


def c07_jobs(add, ncpu, thorough):
    # the length-publication protocol: C chunks of 2 bytes x R readers, every operation tuple
    add(["decoder", "--chunks", "1", "--readers", "1"], [0, 1, 2, "none"])
    add(["decoder", "--chunks", "1", "--readers", "2"], [0, 1, 2])
    add(["decoder", "--chunks", "2", "--readers", "1"], [0, 1, 2, "none"])
    add(["decoder", "--chunks", "2", "--readers", "2"], [0, 1], 4)
    add(["decoder", "--chunks", "2", "--readers", "2"], [2], ncpu)
    # three readers at bound 2 (2.2 M executions) moved to the thorough tier when engine M (the
    # protocol model, three readers without any bound) joined the quick tier
    add(["decoder", "--chunks", "2", "--readers", "3"], [0, 1], 4)
    add(["decoder", "--chunks", "3", "--readers", "2", "--ops", "ends"], [0, 1, 2], ncpu)
    add(["decoder-eof"], [0, 1, 2, 3])
    add(["file", "--file", "/dev/shm/x"], [0, 1, 2, 3])
    # engine B: the real ContentPack reader (cluster cache of capacity 1 or 2, cluster RwLock,
    # background decoders, shared FileSource) - reader A: 2 contents, reader B: 1 (or 2) contents
    add(["container", "--pack", PACK, "--cache", "1"], [0, 1, 2], 4)
    add(["container", "--pack", PACK, "--cache", "1", "--combos", "full"], [2], ncpu)
    add(["container", "--pack", PACK, "--cache", "2"], [2], 4)
    # engine B2: the real Container (lazy per-pack OnceLock slots, VecCache of entry/value stores,
    # check-info cells) - two threads making the FIRST accesses to a freshly opened container:
    # reader A one or two operations, reader B one, over {first content of each of the 3 packs,
    # another content of pack 1, open the index and read entry 0, unknown pack id, check()};
    # uncompressed / zstd / lz4 containers, and one whose pack 2 file is missing
    for d, extra in ((TOP + "-none", ["--check", "yes"]), (TOP + "-zstd", []), (TOP + "-lz4", []), (TOP + "-missing", ["--missing", "2"])):
        add(["toplevel", "--dir", d] + extra, [0, 1, 2], 2)
        if thorough:
            add(["toplevel", "--dir", d] + extra, [3], ncpu)
    if thorough:
        add(["container", "--pack", PACK, "--cache", "1"], [3], ncpu)
        add(["container", "--pack", PACK, "--cache", "1", "--combos", "full"], [3], ncpu)
        add(["container", "--pack", PACK, "--cache", "2", "--combos", "full"], [2, 3], ncpu)
        add(["container", "--pack", PACK, "--cache", "1"], ["none"], ncpu)
    if thorough:
        add(["decoder", "--chunks", "2", "--readers", "3"], [2], ncpu)
        add(["decoder", "--chunks", "2", "--readers", "2"], [3], ncpu)
        add(["decoder", "--chunks", "3", "--readers", "2"], [2], ncpu)
        add(["decoder", "--chunks", "3", "--readers", "3"], [2], ncpu)
        add(["decoder", "--chunks", "2", "--readers", "3"], [3], ncpu)
        add(["decoder", "--chunks", "2", "--readers", "2", "--ops", "ends"], ["none"], ncpu)


def c08_jobs(add, ncpu, thorough):
    def progs(n):
        return ["".join("c" if m >> i & 1 else "r" for i in range(n)) for m in range(1 << n)]
    for n in (1, 2, 3):
        for pr in progs(n):
            add(["pipeline", "--workers", "1", "--program", pr], [0, 1, 2] + ([3] if n <= 2 else []))
    for pr in progs(4):
        add(["pipeline", "--workers", "1", "--program", pr], [0, 1] + ([2] if thorough or pr.count("c") >= 3 else []))
    add(["pipeline", "--workers", "1", "--program", "ccccc"], [0, 1, 2])
    add(["pipeline", "--workers", "1", "--program", "cccccc"], [0, 1])
    # zero-length contents: clusters holding only empty contents, alone or next to data
    for pr in ["e", "f", "ec", "ce", "fr", "rf", "ef", "fe", "rec", "cfr", "ecf", "fce", "eec", "cee"]:
        add(["pipeline", "--workers", "1", "--program", pr], [0, 1, 2])
    for pr in ["ec", "ce", "ef"]:
        add(["pipeline", "--workers", "2", "--program", pr], [0, 1])
    for n in (1, 2):
        for pr in progs(n):
            add(["pipeline", "--workers", "2", "--program", pr], [0, 1, 2])
    for pr in progs(3):
        add(["pipeline", "--workers", "2", "--program", pr], [0, 1] + ([2] if thorough else []))
    if thorough:
        add(["pipeline", "--workers", "2", "--program", "ccccc"], [0, 1])
        add(["pipeline", "--workers", "1", "--program", "crcrc", "--max-blobs", "2"], [0, 1, 2])


def main():
    args = sys.argv[1:]
    sub = args[0] if args else "c07"
    prop = "C07" if sub == "c07" else "C08"
    tier = os.environ.get("VERIF_TIER", "quick")
    out = None
    i = 1
    while i < len(args):
        if args[i] == "--tier":
            tier = args[i + 1]; i += 2
        elif args[i] == "--out":
            out = args[i + 1]; i += 2
        else:
            i += 1
    t0 = time.time()
    ncpu = os.cpu_count() or 4
    thorough = tier == "thorough"
    jobs = []
    cap_s = 900 if thorough else 240
    # wall budget of the whole stage (thorough): the configurations are listed cheapest first
    budget_s = 1800 if thorough else None
    if budget_s:
        DEADLINE[0] = t0 + budget_s

    def add(base, bounds, shards=1):
        for b in bounds:
            for s in range(shards):
                jobs.append(base + ["--bound", str(b)] + (["--shard", str(s), "--shards", str(shards)] if shards > 1 else []))

    if sub == "c07":
        g = subprocess.run([os.path.join(VERIF, "harness", "target", "release", "corpusmc"), "genpack", "--file", PACK], capture_output=True, text=True)
        if g.returncode != 0 or not os.path.exists(PACK):
            sys.stderr.write("MACHINERY-ERROR cannot generate the pack for the container engine: " + g.stderr[-200:] + "\n")
            json.dump({"engine": "loomdrv.py", "property": "C07", "machinery_errors": ["genpack failed"], "evaluations": 0, "distinct_nontrivial": 0, "violations": []}, open(out, "w") if out else sys.stdout)
            sys.exit(2)
        corpusmc = os.path.join(VERIF, "harness", "target", "release", "corpusmc")
        for name, comp in (("none", "None"), ("zstd", "Zstd(5)"), ("lz4", "Lz4(1)"), ("missing", "None")):
            g = subprocess.run([corpusmc, "gentop", "--dir", f"{TOP}-{name}", "--comp", comp], capture_output=True, text=True)
            if g.returncode != 0 or not os.path.exists(f"{TOP}-{name}/expect.json"):
                sys.stderr.write("MACHINERY-ERROR cannot generate the container for the top-level engine: " + g.stderr[-200:] + "\n")
                json.dump({"engine": "loomdrv.py", "property": "C07", "machinery_errors": ["gentop failed"], "evaluations": 0, "distinct_nontrivial": 0, "violations": []}, open(out, "w") if out else sys.stdout)
                sys.exit(2)
        os.remove(f"{TOP}-missing/c.extra2.jbkc")
    (c07_jobs if sub == "c07" else c08_jobs)(add, ncpu, thorough)
    # distinct file names for concurrent `file` runs
    for k, j in enumerate(jobs):
        if j[0] == "file":
            j[j.index("--file") + 1] = f"{SCRATCH}/jbkmc-loomfile-{os.getpid()}-{k}.bin"
    with ThreadPoolExecutor(max_workers=ncpu) as ex:
        results = list(ex.map(lambda c: run(c, cap_s), jobs))
    violations = {}
    machinery = []
    caps = []
    skipped = []
    executions = 0
    configs = 0
    interior = 0
    by_cfg = {}
    for r in results:
        name = " ".join(clean(x) for x in r["cfg"] if clean(x))

        if r.get("cap"):
            if r.get("skipped"):
                skipped.append(name)
            else:
                caps.append(f"{name}: not finished within {int(r.get('wall', cap_s))}s")
            continue
        if "crash" in r and "PANIC:" not in r["crash"] and "panic" in r["crash"].lower() and "aborting" in r["crash"]:
            r["crash"] = "PANIC: " + r["crash"][-200:].replace("\n", " ")
        if "crash" in r:
            # loom aborts the process on some failures (double panic): a detection when the output
            # names a loom verdict, machinery otherwise
            txt = r["crash"]
            if "PANIC:" in txt and not ("deadlock" in txt.lower() or "Causality" in txt):
                first = [l for l in txt.splitlines() if l.startswith("PANIC:")]
                msg = first[0][7:] if first else "panic"
                site = msg.split(" at ")[-1].split(":")[0] if " at " in msg else "?"
                site = "/".join(site.split("/")[-3:])
                k = f"{prop} a thread panicked under loom (process aborted) at {site}"
                violations.setdefault(k, {"key": k, "what": f"{name}: {msg[:300]}", "case": {"engine": "loomdrv.py", "sub": sub, "cfg": r["cfg"]}, "count": 0})["count"] += 1
            elif "deadlock" in txt.lower() or "Causality" in txt or "assert" in txt.lower():
                k = f"{prop} loom verdict (process aborted): " + ("deadlock" if "deadlock" in txt.lower() else "race/assertion")
                violations.setdefault(k, {"key": k, "what": f"{name}: {txt[-300:]}", "case": {"engine": "loomdrv.py", "cfg": r["cfg"]}, "count": 0})["count"] += 1
            elif memory_error(r):
                # the process that runs the real code died of a signal / of glibc's heap checks:
                # a memory error of the code under exploration (the property names it). It counts
                # only when the same configuration dies the same way a second time.
                again = run(r["cfg"], cap_s)
                if "crash" in again and memory_error(again):
                    what = "heap corruption detected by the allocator" if r.get("rc") == -6 else f"signal {-r.get('rc', 0)}"
                    k = f"{prop} memory error in the process running the real code under loom ({what}) [{r['cfg'][0]}]"
                    violations.setdefault(k, {"key": k, "what": f"{name}: loommc exited {r.get('rc')}: {txt[-200:].strip()} (reproduced on a second run)", "case": {"engine": "loomdrv.py", "sub": sub, "cfg": r["cfg"]}, "count": 0})["count"] += 1
                else:
                    machinery.append(f"{name}: loommc exited {r.get('rc')} without a result, not reproduced: {txt[-200:]}")
            else:
                machinery.append(f"{name}: loommc exited {r.get('rc')} without a result: {txt[-200:]}")
            continue
        executions += r["executions"]
        configs += r["configs"]
        interior += r.get("interior_boundary_waits", 0)
        key = " ".join(clean(x) for x in r["cfg"][: r["cfg"].index("--bound")] if clean(x))
        b = by_cfg.setdefault(key, {"executions": 0, "bounds": set()})
        b["executions"] += r["executions"]
        b["bounds"].add(r["cfg"][r["cfg"].index("--bound") + 1])
        if not r["ok"]:
            e = r["error"] or ""
            if "deadlock" in e.lower():
                cls = "deadlock (a thread waits forever)"
            elif "Causality violation" in e or "concurrent" in e.lower():
                cls = "data race on the shared decode buffer"
            elif "resolves to other bytes" in e or "does not decode" in e or "decoder rejects" in e:
                cls = "the created pack does not hold what was inserted"
            elif "answered as not in the manifest" in e or "reported MISSING" in e or "no such content" in e:
                cls = "a valid content address is not resolved"
            elif "assertion" in e or "left" in e:
                cls = "a reader got wrong bytes / wrong length" if sub == "c07" else "assertion on the created pack failed"
            else:
                cls = "failure: " + e.split(":")[-1][:60]
            k = f"{prop} {cls} [{r['cfg'][0]}]"
            violations.setdefault(k, {"key": k, "what": f"{name}: {e[:500]}", "case": {"engine": "loomdrv.py", "sub": sub, "cfg": r["cfg"], "error": e[:800]}, "count": 0})["count"] += 1
    if skipped:
        kinds = sorted(set(" ".join(n.split(" --shard")[0].split()) for n in skipped))
        caps.append(f"{len(skipped)} configuration shards not started, the stage's wall budget of {budget_s}s was used up: " + "; ".join(kinds[:12]) + (" ..." if len(kinds) > 12 else ""))
    extra = {"schedules_explored": executions, "configurations": configs,
             "per_configuration": {k: {"executions": v["executions"], "bounds_completed": sorted(v["bounds"])} for k, v in by_cfg.items()}}
    if sub == "c07":
        extra["executions_with_a_reader_waiting_for_an_interior_chunk_boundary"] = interior
    rep = {
        "engine": "loomdrv.py " + sub, "property": prop,
        "evaluations": executions, "distinct_nontrivial": configs if sub == "c07" else len(by_cfg),
        "rule": RULES[sub],
        "outcomes": {"configuration explored without failure": max(configs - sum(v["count"] for v in violations.values()), 0)} if configs else {},
        "distinct_outcomes": 1,
        "samples": [r["cfg"] for r in results[:2]] + [r["cfg"] for r in results[-2:]],
        "violations": list(violations.values()),
        "info": {},
        "extra": extra,
        "exhaustive": not caps, "caps": caps, "states": 0, "transitions": 0, "traces_validated_against_impl": executions,
        "machinery_errors": machinery, "wall_s": time.time() - t0,
    }
    try:
        os.unlink(PACK)
    except OSError:
        pass
    text = json.dumps(rep, indent=1)
    if out:
        open(out, "w").write(text)
    else:
        print(text)
    sys.stderr.write(f"[loomdrv.py] {prop} configs={configs} executions={executions} violations(keys)={len(violations)} caps={len(caps)} wall={time.time()-t0:.1f}s\n")
    if machinery:
        for m in machinery[:5]:
            sys.stderr.write(f"MACHINERY-ERROR {m}\n")
        sys.exit(2)
    sys.exit(1 if violations else 0)


if __name__ == "__main__":
    main()
