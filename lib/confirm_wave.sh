#!/bin/bash
# usage: confirm_wave.sh <wave dir prefix e.g. /tmp/wt3_> <suffix e.g. 3> <ID>...   — confirm only (no check run)
P="$1"; SUF="$2"; shift 2
for ID in "$@"; do
  for M in A B; do
    D=${P}${ID}/MUTANT/$M
    [ -d "$D" ] || { echo "no $D"; continue; }
    SID=${ID}-${M}${SUF}
    [ -d /verif/seeded/$SID ] && { echo "already kept $SID"; continue; }
    timeout 3000 /verif/lib/confirm_mutant.sh "$D" "$SID" "$ID" 2>&1 | grep -E "RESULT|KEPT|suite:|demo"
  done
done
