"""Per-property claim texts for MANIFEST.json."""
HOOK_COMMITS = []
ENGINES = [
    {"name": "schemamc", "path": "harness/src/bin/schemamc.rs", "serves_properties": ["C02"],
     "kind_free_text": "bounded-exhaustive enumeration of schemas x entry sets on the real DirectoryPackCreator, read back through the real reader, compared with the reference model (the entries as given)"},
]
NOT_YET = {}
CLAIMS = {
    "C02": {
        "engine": "schemamc c02",
        "technique": "bounded-exhaustive input enumeration (boundary alphabets x depth) on the real creator+reader against a reference model",
        "text": "Every schema/entry set of tiers A-E (all multisets of boundary values per property kind, all ordered pairs/triples of kinds, variant menus incl. zero-width and empty variants, shared stores, key-width and 64 KiB tail boundaries, every index window on <=4 entries) is created with the real DirectoryPackCreator and read back value by value through the real reader; integers compared exactly, positions past a window must be None, creation may fail only for unrepresentable input.",
        "design_ref": "DESIGN.md §4 C02",
        "note": "Alphabets are boundary values, not all u64/byte strings; rayon's internal sort schedules are not enumerated; in-memory pack (Cursor) rather than a file.",
    },
}
