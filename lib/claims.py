"""Per-property claim texts for MANIFEST.json."""
HOOK_COMMITS = ["949171d"]
ENGINES = [
    {"name": "viewmc", "path": "harness/src/bin/viewmc.rs", "serves_properties": ["C13"],
     "kind_free_text": "exhaustive enumeration of nested cuts (depth<=3) x conversion paths x read-size compositions on every source kind, model = payload[range]"},
    {"name": "packmc", "path": "harness/src/bin/packmc.rs", "serves_properties": ["C10", "C11"],
     "kind_free_text": "exhaustive enumeration of packagings (creator modes, all concat orders, nested concat, partial concat, decoys, prefixes) and of unavailable-pack subsets x ways, full logical dump compared with the reference model"},
    {"name": "faultmc", "path": "harness/src/bin/faultmc.rs", "serves_properties": ["C04", "C05", "C06"],
     "kind_free_text": "exhaustive byte-level fault enumeration (every position x masks, ranges, truncations, garbage) on reference containers, each case run by the real reader in an isolated worker process; oracles: integrity checks (C04), node-by-node dump comparison (C05), termination without panic/abort/signal (C06)"},
    {"name": "seqmc", "path": "harness/src/bin/seqmc.rs", "serves_properties": ["C01", "C16"],
     "kind_free_text": "bounded-exhaustive insertion sequences driven through the real content-pack creators (bare, OneFile, TwoFiles, NoConcat; direct and deduplicating adder) against a reference model (list of byte strings + abstract creator state validated through Progress callbacks); C16 observes the produced bytes with an independent decoder"},
    {"name": "schemamc", "path": "harness/src/bin/schemamc.rs", "serves_properties": ["C02", "C03", "C15"],
     "kind_free_text": "bounded-exhaustive enumeration of schemas x entry sets on the real DirectoryPackCreator, read back through the real reader, compared with the reference model (the entries as given)"},
]
NOT_YET = {}
CLAIMS = {
    "C13": {
        "engine": "viewmc c13 (release and debug builds)",
        "technique": "bounded-exhaustive enumeration of view chains x read-size compositions on the real ByteRegion/ByteSlice/ByteStream, against a slice model",
        "text": "For payloads of length 0..5 (thorough 0..6) placed at a non-zero offset of 8 source kinds: every chain of nested cuts to depth 3; per view: size(), get_slice of every sub-range (slice and converted region), 4 conversion paths to a stream x every composition of the length into read sizes, with size()/offset()/size_left() after every read and an over-long read at the end; one 5000-byte payload per source crosses the 4 KiB mmap and decoder-chunk boundaries. Debug and release builds.",
        "design_ref": "DESIGN.md §4 C13",
        "note": "Uses hook H1 (jubako::verif) for non-container sources; RandomParser read_* helpers are crate-private and not exercised.",
    },
    "C10": {
        "engine": "packmc c10",
        "technique": "exhaustive enumeration of a finite configuration space (packagings x orders x prefixes) with a reference-model oracle",
        "text": "Each logical container x compression is created as OneFile/TwoFiles/NoConcat, re-assembled by tools::concat in every input order, concatenated twice, partially (content found through its recorded location), with a decoy at the recorded location (the inner pack must win), and embedded after prefixes of boundary lengths x 5 kinds; the full logical dump through reader::Container must equal the reference model for every packaging.",
        "design_ref": "DESIGN.md §4 C10",
        "note": "Finite set of logical containers; prefixes that are themselves valid pack headers are not enumerated.",
    },
    "C11": {
        "engine": "packmc c11",
        "technique": "exhaustive fault enumeration: every subset of content packs x every unavailability mode (full product)",
        "text": "n in {1,2,3} content packs in separate files (BasicCreator extras and low-level creators): every assignment of {available, removed, directory, different valid pack} to the packs: container opens, entries equal the model, available contents read, unavailable ones yield MISSING with the recorded uuid/id/location, check() is Ok(true), unknown pack id answers none.",
        "design_ref": "DESIGN.md §4 C11",
        "note": "Only content packs are made unavailable (as the property states).",
    },
    "C04": {
        "engine": "faultmc c04",
        "technique": "exhaustive fault enumeration over every checksummed byte position x masks, real reader as subject",
        "text": "For every created container of the set (all packagings incl. concat, 4 compressions): pristine packs verify; then every byte inside a pack's checked range or check block x {01,80,ff}, every aligned 4/16-byte run zeroed (thorough: pairs of positions): Pack::check of that pack, ContainerPack::check of the file and Container::check must each answer false or an error, never true. Exempt location bytes are enumerated and reported separately.",
        "design_ref": "DESIGN.md §4 C04",
        "note": "Coverage map from the independent decoder; single- and double-position faults and short runs, not arbitrary multi-byte patterns.",
    },
    "C05": {
        "engine": "faultmc c05",
        "technique": "exhaustive fault enumeration over every byte position x 5 alterations + range grid, differential oracle against the pristine dump",
        "text": "Every byte of every file of the container set x {xor 01, xor 80, xor ff, set 00, set ff} plus zero/ff-filled ranges: the full logical dump through the real reader is compared node by node with the pristine dump; every node is an error or equal; content hashes may differ only when Container::check is not true.",
        "design_ref": "DESIGN.md §4 C05",
        "note": "Small containers; the dump covers what the public API exposes.",
    },
    "C06": {
        "engine": "faultmc c06 (release and debug builds)",
        "technique": "exhaustive fault enumeration (all truncation lengths, all positions x masks, range/garbage grids, non-jubako inputs) with process-level crash/hang observation",
        "text": "Every truncation length, every position x {01,80,ff}, zeroed ranges, appended garbage and 12 non-jubako inputs on the container set (incl. >4 KiB mmap-path containers), whole reader run per case in a worker process, in release and in debug builds: no panic (hook reports the site), no abort/signal, no hang.",
        "design_ref": "DESIGN.md §4 C06",
        "note": "Timeout-based hang oracle (3-4 orders of magnitude of slack); CRC-preserving adversarial damage excluded by the property.",
    },
    "C01": {
        "engine": "seqmc c01",
        "technique": "explicit enumeration of all operation sequences up to a depth bound from initial and non-initial creator states, each trace executed on the real creator and compared step by step with a reference model",
        "text": "All insertion sequences up to depth 2 (full alphabet x reduced alphabet) and 3 (reduced alphabet) over length x entropy x hint x source, from the empty state and from pre-states on both sides of every split rule (4093..4095 blobs per slot, width boundaries, 4 MiB), for 4 compressions (11 levels in thorough) x {direct, deduplicating} x {bare, OneFile, TwoFiles, NoConcat}: returned address, content count, every content's bytes, None past the count, check(); the abstract creator state machine (slots, cluster ids) is validated against the implementation's Progress callbacks on every trace.",
        "design_ref": "DESIGN.md §4 C01",
        "note": "Bounded depth and boundary alphabets; contents above 16 MiB and packs above 2^20 clusters are out of reach; worker scheduling is C08's.",
    },
    "C16": {
        "engine": "seqmc c16",
        "technique": "bounded-exhaustive operation sequences on the real creator, output bytes decoded by an independent decoder",
        "text": "Every sequence of length <=3 (thorough <=4) over {low-entropy A, high-entropy B, A again, empty} x {Yes,No,Detect} for {none,lz4,lzma,zstd} x {direct,cached} plus incompressible contents at byte-width boundaries: cluster compression byte, verbatim bytes for uncompressed storage, independent decompression for compressed storage, address sharing and stored count under the deduplicating adder.",
        "design_ref": "DESIGN.md §4 C16",
        "note": "The independent decoder lives in the harness (Rust, own CRC-32C); zstd/lz4/xz2 codec crates are trusted.",
    },
    "C03": {
        "engine": "schemamc c03",
        "technique": "bounded-exhaustive key sets x windows x probes on the real creator/reader, plus exhaustive enumeration of find() on all short sorted sequences",
        "text": "Every subset (size<=3, thorough<=4) of a 40-key universe built to collide on the inline prefix and on trailing 0x00, x prefix {0..3} x {plain,indexed} x 3 insertion orders; integer and two-column keys; every window x every probe x {binary, linear}: order under the reader's own comparison and under byte order, found iff written inside the window, modes agree; find() alone on all non-decreasing sequences over 0..4 up to length 6 x all windows x probes.",
        "design_ref": "DESIGN.md §4 C03",
        "note": "Key alphabet {00,61,ff}; rayon sort schedules are configurations (1,2,16 threads) on large structured sets, not enumerated.",
    },
    "C15": {
        "engine": "schemamc c15",
        "technique": "exhaustive enumeration of reference graphs x insertion orders on the real creator/reader",
        "text": "All (n+1)^n reference functions x n! insertion orders x {sorted,unsorted} x {alone, next to another column} for n<=4 (thorough n<=5), references given as the Bound returned by add_entry or a Vow for forward references; structured graphs at n in {32,300,1000,20000} x 3 key arrangements (incl. few targets moving across the 1-byte boundary): stored value == final position of the target, handle == final position.",
        "design_ref": "DESIGN.md §4 C15",
        "note": "rayon schedules of the parallel sort/index assignment are configurations (1,2,16 threads); Relaxed atomics of Vow/Bound are not explored under weak memory.",
    },
    "C02": {
        "engine": "schemamc c02",
        "technique": "bounded-exhaustive input enumeration (boundary alphabets x depth) on the real creator+reader against a reference model",
        "text": "Every schema/entry set of tiers A-E (all multisets of boundary values per property kind, all ordered pairs/triples of kinds, variant menus incl. zero-width and empty variants, shared stores, key-width and 64 KiB tail boundaries, every index window on <=4 entries) is created with the real DirectoryPackCreator and read back value by value through the real reader; integers compared exactly, positions past a window must be None, creation may fail only for unrepresentable input.",
        "design_ref": "DESIGN.md §4 C02",
        "note": "Alphabets are boundary values, not all u64/byte strings; rayon's internal sort schedules are not enumerated; in-memory pack (Cursor) rather than a file.",
    },
}
