#!/bin/bash
# usage: confirm_mutant.sh <mutant dir (patch.diff, demo.rs, notes.md)> <seed id> <property> 
# Confirms in a scratch worktree of /repo HEAD: suite green with the change, demo fails with it and passes
# without it. On success copies the mutant to /verif/seeded/<seed id>/ with meta.json.
set -u
M="$1"; SID="$2"; PROP="$3"
WT=/tmp/wtv_$SID
export CARGO_TARGET_DIR=${CONFIRM_TARGET_DIR:-/tmp/verif_target} CARGO_NET_OFFLINE=true
# the suite writes fixed file names into the temp dir: one private temp dir per confirmation
export TMPDIR=$(mktemp -d /tmp/confirm_tmp_XXXXXX)
git -C /repo worktree remove --force $WT 2>/dev/null
git -C /repo worktree add -q --detach $WT HEAD || exit 2
cd $WT
cp "$M/demo.rs" tests/seeded_demo.rs
FEAT="--features lz4,lzma,zstd"
demo_clean=$(timeout 600 cargo test --offline $FEAT --test seeded_demo 2>&1 | grep -E "^test result|panicked|FAILED" | head -5)
clean_rc=$(echo "$demo_clean" | grep -c "test result: ok")
if ! git apply "$M/patch.diff"; then echo "RESULT $SID patch does not apply on HEAD"; cd /; git -C /repo worktree remove --force $WT; exit 3; fi
rm tests/seeded_demo.rs
suite=$(timeout 1200 cargo test --workspace --offline 2>&1 | grep -E "^test result" | tr '\n' ';')
suite_ok=$(echo "$suite" | grep -c "125 passed; 0 failed")
cp "$M/demo.rs" tests/seeded_demo.rs
demo_mut=$(timeout 900 cargo test --offline $FEAT --test seeded_demo 2>&1 | grep -E "^test result|panicked|FAILED|timed out" | head -8)
mut_fail=$(echo "$demo_mut" | grep -c "FAILED\|panicked")
[ -z "$demo_mut" ] && mut_fail=1 && demo_mut="(no result: hang/timeout)"
echo "RESULT $SID suite_ok=$suite_ok demo_clean_pass=$clean_rc demo_mutant_fails=$mut_fail"
echo "  suite: $suite"
echo "  demo(clean): $demo_clean"
echo "  demo(mutant): $demo_mut"
if [ "$suite_ok" = "1" ] && [ "$clean_rc" -ge 1 ] && [ "$mut_fail" -ge 1 ]; then
  D=/verif/seeded/$SID; mkdir -p $D
  cp "$M/patch.diff" $D/patch.diff; cp "$M/demo.rs" $D/demo.rs; cp "$M/notes.md" $D/notes.md 2>/dev/null
  python3 - "$D" "$PROP" "$suite" "$demo_clean" "$demo_mut" <<'P'
import json,sys,subprocess
d,prop,suite,dc,dm=sys.argv[1:6]
head=subprocess.run(["git","-C","/repo","rev-parse","--short","HEAD"],capture_output=True,text=True).stdout.strip()
notes=open(d+"/notes.md").read() if __import__("os").path.exists(d+"/notes.md") else ""
json.dump({"breaks_property":prop,"confirmed_on_repo_commit":head,
 "needs_to_manifest":"see notes.md",
 "what_was_run":{"suite_with_change":"cargo test --workspace --offline -> "+suite,
   "demo_without_change":"cargo test --offline --features lz4,lzma,zstd --test seeded_demo -> "+dc,
   "demo_with_change":dm},
 "detected_by":[]},open(d+"/meta.json","w"),indent=1)
P
  echo "  KEPT as /verif/seeded/$SID"
else
  echo "  NOT KEPT"
fi
cd /; git -C /repo worktree remove --force $WT; rm -rf "$TMPDIR"
