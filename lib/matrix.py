#!/usr/bin/env python3
"""Detection matrix: apply every seeded change of /verif/seeded to /repo in turn, run the quick
check of the property it breaks (plus the cross checks listed in seeded/<id>/meta.json
"also_try"), undo it, and record the verdicts in seeded/<id>/meta.json ("detected_by",
"missed_by") and in seeded/matrix.json.

usage: lib/matrix.py [ID-prefix ...]     (e.g. `lib/matrix.py C09 C16-A2`)

Never run concurrently with a check: it edits /repo's working tree (and restores it).
"""
import json
import os
import subprocess
import sys
import time

VERIF = os.path.dirname(os.path.dirname(os.path.abspath(__file__)))
SEEDED = os.path.join(VERIF, "seeded")
CROSS = {
    # concurrency changes filed under a sequential property by the agent that wrote them
    "C13-A2": ["C07"], "C13-B2": ["C07"],
    "C05-A2": ["C04"], "C11-B2": ["C10"], "C14-A2": ["C02"], "C06-A2": ["C05"],
    "C02-B": ["C15"],
    # wave 3: changes whose effect belongs to another property's check as well
    "C10-B3": ["C12"], "C03-B3": ["C15"], "C08-B3": ["C01"], "C04-A3": ["C12"],
    # wave 4
    "C02-A4": ["C03"], "C04-B4": ["C07"], "C05-B4": ["C12"], "C07-B4": ["C16", "C01"], "C01-A4": ["C07"], "C11-A4": ["C10"], "C11-B4": ["C02"],
    "C08-A4": ["C01"],
    # wave 5
    "C01-A5": ["C13"], "C13-B5": ["C01"], "C01-B5": ["C11"], "C04-B5": ["C12"], "C11-A5": ["C12"], "C11-B5": ["C10"], "C16-B5": ["C01"], "C14-B5": ["C01", "C16"], "C08-A5": ["C01"], "C08-B5": ["C16"],
    "C07-A5": ["C01"], "C07-B5": ["C13"], "C09-B5": ["C01"],
    # wave 6
    "C04-A6": ["C11"], "C04-B6": ["C10"], "C15-B6": ["C02"], "C11-A6": ["C10"], "C11-B6": ["C10"], "C13-A6": ["C01"], "C07-A6": ["C11"],
    "C07-B6": ["C01"], "C03-B6": ["C15"], "C14-B6": ["C02"], "C16-A6": ["C01"], "C01-A6": ["C13"], "C02-A6": ["C03"], "C08-B6": ["C16"],
    # wave 7
    "C01-B7": ["C13"], "C02-B7": ["C03"], "C03-A7": ["C02"], "C04-A7": ["C10"], "C04-B7": ["C10"], "C07-A7": ["C01"], "C07-B7": ["C13"],
    "C08-A7": ["C01"], "C08-B7": ["C01"], "C10-A7": ["C05"], "C10-B7": ["C11"], "C11-B7": ["C07"], "C13-A7": ["C01"], "C13-B7": ["C16"],
    "C14-A7": ["C16", "C01"], "C14-B7": ["C12"], "C15-A7": ["C02"], "C16-A7": ["C08", "C01"], "C16-B7": ["C13"], "C12-A7": ["C11"], "C12-B7": ["C10"],
    # wave 8 (own check first, then the pairs run with --pairs)
    # wave 9
    "C02-A9": ["C14"], "C03-A9": ["C15"], "C04-A9": ["C10"], "C04-B9": ["C11"], "C07-A9": ["C13"], "C13-A9": ["C05"], "C13-B9": ["C05"], "C14-B9": ["C11"],
    "C10-S1": [],
    "C09-B6": ["C10"], "C09-A6": ["C10"], "C10-A6": ["C12"], "C12-B6": ["C11"], "C14-A6": ["C05"], "C08-A6": ["C16"], "C16-B6": ["C01"],
}


def sh(cmd, **kw):
    return subprocess.run(cmd, shell=True, stdout=subprocess.PIPE, stderr=subprocess.STDOUT, text=True, **kw)


def run_one(mid, prop):
    patch = os.path.join(SEEDED, mid, "patch.diff")
    if sh("git -C /repo diff --quiet").returncode != 0:
        return "REPO-DIRTY", ""
    if sh(f"git -C /repo apply {patch}").returncode != 0:
        return "PATCH-DOES-NOT-APPLY", ""
    t0 = time.time()
    try:
        env = dict(os.environ, VERIF_NO_EVIDENCE="1")
        p = subprocess.run(["timeout", "1500", "./check", prop], cwd=VERIF, env=env, stdout=subprocess.PIPE, stderr=subprocess.STDOUT, text=True)
        out = p.stdout
        rc = p.returncode
    finally:
        sh("git -C /repo checkout -- .")
    first = ""
    lines = out.splitlines()
    for i, l in enumerate(lines):
        if l.startswith("VIOLATION"):
            first = " | ".join(x.strip() for x in lines[i + 1:i + 3])[:300]
            break
    if rc == 1 and any(l.startswith("VIOLATION") for l in lines):
        verdict = "VIOLATION"
    elif rc == 0:
        verdict = "MISSED"
    else:
        verdict = f"MACHINERY(rc={rc})"
        first = " | ".join(l for l in lines if "MACHINERY" in l)[:300]
    return verdict, f"{first} [{time.time() - t0:.0f}s]"


def main():
    want = sys.argv[1:]
    if want and want[0] == "--pairs":
        # lib/matrix.py --pairs C01-B8:C07 C02-B8:C03 ...   run the given (change, check) pairs
        # only and merge the verdicts into the rows already recorded
        mpath = os.path.join(SEEDED, "matrix.json")
        matrix = json.load(open(mpath)) if os.path.exists(mpath) else {}
        for pair in want[1:]:
            mid, pr = pair.split(":")
            v, what = run_one(mid, pr)
            print(f"{mid:14s} {pr}: {v} {what}", flush=True)
            row = matrix.setdefault(mid, {})
            row[pr] = {"verdict": v, "first": what}
            meta_p = os.path.join(SEEDED, mid, "meta.json")
            try:
                meta = json.load(open(meta_p))
            except Exception:
                meta = {}
            meta["detected_by"] = sorted(p for p, r in row.items() if r["verdict"] == "VIOLATION")
            meta["missed_by"] = sorted(p for p, r in row.items() if r["verdict"] == "MISSED")
            meta["first_violation"] = {p: r["first"] for p, r in row.items() if r["verdict"] == "VIOLATION"}
            json.dump(meta, open(meta_p, "w"), indent=1)
            json.dump(matrix, open(mpath, "w"), indent=1, sort_keys=True)
        print("done; run ./setup.sh (or any ./check) to rebuild against the clean tree")
        return
    ids = sorted(d for d in os.listdir(SEEDED) if os.path.exists(os.path.join(SEEDED, d, "patch.diff")))
    # changes that a later fix: commit neutralized are kept for the record but not run
    def superseded(d):
        try:
            return "superseded" in json.load(open(os.path.join(SEEDED, d, "meta.json")))
        except Exception:
            return False
    ids = [d for d in ids if not superseded(d)]
    if want:
        ids = [i for i in ids if any(i.startswith(w) for w in want)]
    mpath = os.path.join(SEEDED, "matrix.json")
    matrix = json.load(open(mpath)) if os.path.exists(mpath) else {}
    for mid in ids:
        prop = mid.split("-")[0]
        props = [prop] + CROSS.get(mid, [])
        row = {}
        for pr in props:
            v, what = run_one(mid, pr)
            row[pr] = {"verdict": v, "first": what}
            print(f"{mid:14s} {pr}: {v} {what}", flush=True)
        matrix[mid] = row
        meta_p = os.path.join(SEEDED, mid, "meta.json")
        try:
            meta = json.load(open(meta_p))
        except Exception:
            meta = {}
        meta["detected_by"] = sorted(p for p, r in row.items() if r["verdict"] == "VIOLATION")
        meta["missed_by"] = sorted(p for p, r in row.items() if r["verdict"] == "MISSED")
        meta["first_violation"] = {p: r["first"] for p, r in row.items() if r["verdict"] == "VIOLATION"}
        json.dump(meta, open(meta_p, "w"), indent=1)
        json.dump(matrix, open(mpath, "w"), indent=1, sort_keys=True)
    # build artefacts now correspond to the clean tree again only after a rebuild
    print("done; run ./setup.sh (or any ./check) to rebuild against the clean tree")


if __name__ == "__main__":
    main()
