#!/bin/sh
# usage: trymutant.sh <patch> <ID> [tier]   — apply a seeded change to /repo, run the check, undo
set -u
P="$1"; ID="$2"; TIER="${3:-quick}"
cd /repo || exit 2
if ! git diff --quiet; then echo "repo dirty, refusing"; exit 2; fi
git apply "$P" || { echo "PATCH DOES NOT APPLY"; exit 3; }
cd /verif && VERIF_NO_EVIDENCE=1 timeout 1500 ./check "$ID" --tier "$TIER" 2>&1 | grep -v "^\[schemamc\]\|^\[seqmc\]" | head -${LINES_MAX:-12}
rc=$?
cd /repo && git checkout -- . && git status --short | grep -v '^??' | head
