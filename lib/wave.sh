#!/bin/bash
# usage: wave.sh <wave dir prefix e.g. /tmp/wt2_> <suffix for seed id e.g. 2> <ID> [check ID ...]
# confirm both mutants of an agent worktree, then try them against the property's check(s)
P="$1"; SUF="$2"; ID="$3"; shift 3; CHECKS="${@:-$ID}"
for M in A B; do
  D=${P}${ID}/MUTANT/$M
  [ -d "$D" ] || { echo "no $D"; continue; }
  SID=${ID}-${M}${SUF}
  timeout 3000 /verif/lib/confirm_mutant.sh "$D" "$SID" "$ID" 2>&1 | grep -E "RESULT|KEPT"
  if [ -d /verif/seeded/$SID ]; then
    for C in $CHECKS; do
      echo "-- $SID -> $C"
      LINES_MAX=3 timeout 1700 /verif/lib/trymutant.sh /verif/seeded/$SID/patch.diff $C 2>&1 | grep -v "^\[[a-z0-9.]*\(mc\|py\)\]" | cut -c1-260
    done
  fi
done
