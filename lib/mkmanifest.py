#!/usr/bin/env python3
"""Regenerate /verif/MANIFEST.json from lib/plan.py + lib/claims.py (run after editing either)."""
import json, os, sys
HERE = os.path.dirname(os.path.abspath(__file__))
sys.path.insert(0, HERE)
from plan import PLAN
from claims import CLAIMS, NOT_YET, HOOK_COMMITS, ENGINES

props = [json.loads(l)["id"] for l in open(os.path.join(HERE, "..", "properties.jsonl"))]
checks = []
na = []
for pid in props:
    if pid in PLAN and pid in CLAIMS:
        c = CLAIMS[pid]
        checks.append({
            "property_id": pid,
            "quick_cmd": f"./check {pid} --tier quick",
            "thorough_cmd": f"./check {pid} --tier thorough",
            "evidence_file": f"/verif/evidence/{pid}.json",
            "replay_cmd_template": f"./check {pid} --replay {{path}}",
            "engine": c["engine"],
            "level_claimed": {"category": PLAN[pid]["level"], "text": c["text"], "design_ref": c["design_ref"]},
            "level_note": c["note"],
            "technique": c["technique"],
        })
    else:
        na.append({"property_id": pid, "reason": NOT_YET.get(pid, "check not built yet in this session (see DESIGN.md for the planned engine); no claim is made")})
m = {
    "version": 1,
    "setup_cmd": "./setup.sh",
    "hooks": {
        "guard": "jubako_verif",
        "enable": "RUSTFLAGS=\"--cfg jubako_verif\" (the loom builds add --cfg jubako_verif_loom); set by ./check for every harness build",
        "baseline_off_cmd": "cd /repo && cargo test --workspace --no-fail-fast --offline",
        "source_commits": HOOK_COMMITS,
        "add_only": True,
    },
    "engines": ENGINES,
    "checks": checks,
    "not_applicable": na,
    "notes": "All checks are bounded-exhaustive explorations (model checking family): see DESIGN.md. known_findings.json lists recorded and fixed defects.",
}
json.dump(m, open(os.path.join(HERE, "..", "MANIFEST.json"), "w"), indent=1)
print(f"{len(checks)} checks, {len(na)} not claimed")
