#!/bin/sh
# usage: tryrevert.sh <fix commit> <ID> — undo one fix: commit in the working tree of /repo, run the check, restore
set -u
C="$1"; ID="$2"
cd /repo || exit 2
if ! git diff --quiet; then echo "repo dirty, refusing"; exit 2; fi
git show "$C" -- src | git apply -R -C1 || { echo "REVERSE PATCH DOES NOT APPLY"; git checkout -- .; exit 3; }
cd /verif && VERIF_NO_EVIDENCE=1 timeout 1500 ./check "$ID" --tier quick 2>&1 | grep -v "^\[[a-z]*mc\]" | head -${LINES_MAX:-8}
cd /repo && git checkout -- . && git status --short | grep -v '^??' | head
