"""Which engines serve which property, per tier.  Each engine entry:
   profile: release | dev | loom | script ; bin: binary (or script path relative to /verif);
   args: arguments (the first one is the engine's subcommand)."""


def _e(profile, bin_, *args, **kw):
    d = {"profile": profile, "bin": bin_, "args": list(args)}
    d.update(kw)
    return d


def _short_reads(e, cap=13):
    """the same engine with every read(2) on a file of the scratch area cut to `cap` bytes (shim/shortread.c)"""
    e = dict(e)
    e["also_build"] = list(e.get("also_build", [])) + [("shim", "shortread")]
    e["env"] = dict(e.get("env", {}), LD_PRELOAD="{VERIF}/shim/shortread.so", SHORTREAD_DIR="{SCRATCH}", SHORTREAD_MAX=str(cap))
    return e


def _shared(e, keep, why):
    """an engine of another property run for this one: only the findings matching `keep` count here"""
    e = dict(e, side=True, keep=keep, why=why)
    return e


def _rayon(n):
    return {"RAYON_NUM_THREADS": str(n)}


PLAN = {
    "C07": {
        "level": "model_checking",
        "engines": lambda tier: [
            _e("script", "indep/loomdrv.py", "c07", also_build=[("loom", "loommc"), ("release", "corpusmc")]),
            _e("release", "stressmc", "c07"),
            dict(_e("proto", "protomc", "check", also_build=[("loom", "loommc")]), side=True),
        ],
        "assumptions": [
            "loom explores the interleavings of mutex/condvar/thread operations of the real compression.rs and file.rs (built with --cfg jubako_verif_loom: loom Mutex/Condvar, loom thread instead of the rayon pool, 2-byte chunks); Arc stays std's (no scheduling point, sound); sequentially consistent exploration, preemption-bounded (bound completed reported per configuration)",
            "engine B runs the real ContentPack reader under loom (cluster cache of capacity 1/2, cluster RwLock, decoder threads, shared FileSource; 2 readers, at most 3 decoder threads because of loom's 5-thread limit); engine B2 runs the real Container under loom (hook H6: a scheduling point at every OnceLock operation of the pack slots, the entry/value store caches and the check-info cells; directory pack RwLock as loom's): two threads making the first accesses to a freshly opened 5-file container; contents of a few bytes (loom's 16-bit version counters); the free-running stress engine (stressmc, sampling) is kept for volume only",
            "engine M: the abstract model of the length-publication protocol (harness-proto, stateright + an own breadth-first search whose state counts must agree) is explored exhaustively WITHOUT preemption bound for 1..3 chunks x 1..3 readers; it is bound to the code by replaying every distinct event trace of the real compression.rs under loom (hook H7) as a path of the model: a trace the model does not accept makes the engine non-exhaustive (cap: the model does not describe this implementation), an operation outcome the property forbids is a violation; the model abstracts byte values (ranges only) and is sequentially consistent",
            "weak-memory effects beyond what loom models are out of reach",
        ],
    },
    "C08": {
        "level": "model_checking",
        "engines": lambda tier: [
            _e("release", "pipemc", "c08", drop=r"with the hint"),
            _e("script", "indep/loomdrv.py", "c08", also_build=[("loom", "loommc")]),
            _shared(_e("release", "seqmc", "c16", "--shards", "4"), r"does not decode|decoder rejects|creation failed|does not terminate", "C08 on the schedules the free-running pool of ncpu-1 workers takes by itself (one sampled schedule per insertion sequence of the C16 enumeration, mixing raw and compressed clusters, file and memory sources): creation terminates and the produced pack decodes"),
            _shared(_e("release", "seqmc", "c01", "--shards", "4", tier="quick"), r"content bytes differ|read error|does not terminate|creation failed|process dies|does not verify", "C08 on the schedules the free-running pool takes by itself, over the insertion sequences of the C01 enumeration: every address resolves to its own bytes, the pack verifies, creation terminates"),
        ],
        "assumptions": [
            "the pipeline model (appendix B of DESIGN.md) abstracts what happens inside one compression call; every model trace replayed is confirmed step by step through Progress callbacks, and a divergence is a MACHINERY-ERROR, never a verdict",
            "worker count is set through the CPU affinity mask (taskset): W in {1,2,3} (quick: at most 40 arrival orders per program, thorough: at most 400), W in {7,15} with 6 orders per program in thorough; at most 2 000 000 model states per program; every cap that is hit is reported and makes the run non-exhaustive for that program",
            "a 20 s watchdog only turns a real deadlock into a verdict (all gates are then opened to tell a deadlock from a model mis-prediction)",
            "engine L: the real clusterwriter.rs under loom (loom Mutex/Condvar, channel shims with hang-up semantics, loom threads, 1 blob per cluster, in-memory recipient; at most 2 workers because of loom's 5-thread limit), preemption bound 2",
        ],
    },
    "C14": {
        "level": "translation_validation",
        "engines": lambda tier: [
            _e("script", "indep/c14.py", "c14", also_build=[("release", "corpusmc"), ("release", "codec")]),
            _shared(_e("release", "seqmc", "c16", "--shards", "4"), r"independent decoder|not stored verbatim|does not decode", "C14's oracle with a second independent decoder (the harness's Rust one: own CRC-32C, own layout tables, codec crates) over the insertion sequences of the C16 enumeration: cluster tails, offsets and stored bytes as written decode to what was inserted"),
            _shared(_e("release", "locmc", "c12", "--shards", "4", tier="quick"), r"manifest check fails|CRC does not hold", "C14 for the manifest's global check: the value the creator wrote is the documented one (computed with the location fields and their CRC masked) exactly when it still verifies after a location was rewritten - for manifests whose pack-info table starts within and beyond the first 64 KiB"),
        ],
        "assumptions": [
            "the independent decoder (indep/jbkdecode.py: own CRC-32C, own BLAKE3, own layout tables) follows the bytes the pinned writer produces (DESIGN appendix A); where spec/*.rst differs the bytes win and the difference is listed in the decoder's header",
            "zstd/lz4 streams are decompressed through the codec crates directly (harness `codec` binary), lzma through the Python stdlib",
            "the corpus (/verif/corpus, 20 containers) was written by the pinned tree fc3306d; expected dumps come from the independent decoder and agree with the pinned reader wherever that reader returns a value",
        ],
    },
    "C09": {
        "level": "fault_enumeration",
        "engines": lambda tier: [
            _e("release", "crashmc", "c09", also_build=[("shim", "faultfs")]),
            _shared(_e("release", "packmc", "c10"), r"destination-name", "the fault-free end of C09 (the destination holds a complete container that opens, verifies and reads as created, or nothing) for 14 destination file names x 3 packagings"),
        ],
        "assumptions": [
            "crash = process termination (kill at a write call after a partial write); power loss / page-cache loss is excluded by the property",
            "faults are injected by an LD_PRELOAD shim on write/pwrite/writev (copy_file_range/sendfile/splice are refused so that std falls back to write); renames are raw syscalls the shim cannot see: they are faulted through strace syscall tampering (k-th rename of a thread: EIO, ENOENT, SIGKILL on entry)",
            "the write history is deterministic (two recording runs are compared call by call) and complete (per-inode byte accounting against final file sizes + one strace listing)",
        ],
    },
    "C12": {
        "level": "model_checking",
        "engines": lambda tier: [_e("release", "locmc", "c12", "--shards", "4")],
        "assumptions": [
            "state = vector of recorded locations (reference model: Vec<String>); string alphabet of 11 admissible strings incl. the 213-byte limit, multi-byte UTF-8, a trailing NUL and four spellings of one path",
            "a standalone manifest cannot be opened as a Container once its locations point nowhere, so the content/entry comparison runs on the container-embedded initial states only",
        ],
    },
    "C13": {
        "level": "exploration",
        "engines": lambda tier: [_e("release", "viewmc", "c13"), _e("dev", "viewmc", "c13")] + ([dict(_short_reads(_e("release", "viewmc", "c13")), side=True)] if tier == "thorough" else []),
        "assumptions": [
            "sources over Vec / file / mmap / background decoder are built through the cfg-gated hook jubako::verif (ByteRegion constructors); the container route (content #2 of a raw/compressed cluster) needs no hook",
            "thorough tier only: the release walk is repeated with every read(2) on a file of the scratch area returning at most 13 bytes (shim/shortread.c)",
            "payload lengths 0..5 (quick) / 0..8 (thorough) plus one 5000-byte payload per source; the decoder runs on the real rayon pool, its schedule is not controlled here (C07's subject)",
        ],
    },
    "C10": {
        "level": "exploration",
        "engines": lambda tier: [_e("release", "packmc", "c10"), dict(_short_reads(_e("release", "packmc", "c10")), side=True)],
        "assumptions": [
            "logical containers: shapes small/multi/multi2 x 4 compressions, big (400 entries, directory pack above 4 KiB) uncompressed (+zstd in thorough); the reference model is the logical dump of the spec",
            "a prefix that is itself a CRC-valid pack header is outside the enumeration (the reader documents that a valid header at offset 0 wins)",
            "environment answer: the whole enumeration is repeated with every read(2) on a pack file returning at most 13 bytes (LD_PRELOAD shim shim/shortread.c; a probe read proves the shim is in the process); other short-read sizes and interrupted reads are not enumerated",
        ],
    },
    "C11": {
        "level": "fault_enumeration",
        "engines": lambda tier: [
            _e("release", "packmc", "c11"), dict(_short_reads(_e("release", "packmc", "c11")), side=True),
            _shared(_e("release", "packmc", "c10"), r"placed|partial-concat|decoy|symlinked|multibyte|reverse order", "second half of C11 (every pack that IS available - found through its recorded location, wherever its file lies - still reads) over the placements of the C10 enumeration"),
        ],
        "assumptions": [
            "faults = unavailability of content packs: removed / replaced by a directory / replaced by a different valid pack; other damage of pack files is C05/C06's subject",
            "environment answer: the whole enumeration is repeated with every read(2) on a pack file returning at most 13 bytes (LD_PRELOAD shim shim/shortread.c; a probe read proves the shim is in the process); other short-read sizes and interrupted reads are not enumerated",
        ],
    },
    "C04": {
        "level": "fault_enumeration",
        "engines": lambda tier: [
            _e("release", "faultmc", "c04", also_build=[("release", "codec")]),
            _shared(_e("release", "packmc", "c10"), r"check|does not open|creation failed|does not verify", "first sentence of C04 (every container the creator produces opens and passes its own integrity check) over every packaging, placement, destination name and prefix of the C10 enumeration"),
            _shared(_e("release", "packmc", "c11"), r"check\(\)|does not open", "first sentence of C04 over containers whose pack ids are not 1..n and whose manifest lists the packs in every order"),
            _shared(_e("release", "locmc", "c12", "--shards", "4", tier="quick"), r"check fails|CRC does not hold|does not open", "last sentence of C04 (the rewritable locations are the only exempt bytes): after every history of location rewrites every checksum still verifies"),
        ],
        "assumptions": [
            "which bytes a checksum covers comes from the harness's independent decoder (own CRC-32C, layout tables), not from the library",
            "containers are small (0.4-7 KB); quick: 8 containers, thorough: 26 containers plus pairs of positions on the small ones",
            "collisions of blake3/CRC are not considered",
        ],
    },
    "C05": {
        "level": "fault_enumeration",
        "engines": lambda tier: [_e("release", "faultmc", "c05"), dict(_e("release", "faultmc", "c05giant"), side=True), dict(_e("release", "faultmc", "c05sweep"), side=True)] + [
            # the same two walks with the environment refusing file mappings (shim/mmapfail.c)
            dict(_e("release", "faultmc", sub, "--mmap-refusals", also_build=[("shim", "mmapfail")],
                    env={"LD_PRELOAD": "{VERIF}/shim/mmapfail.so", "MMAPFAIL_SWITCH": "{SCRATCH}/mmapfail-" + sub + ".switch", "MMAPFAIL_LOG": "{SCRATCH}/mmapfail-" + sub + ".log"}), side=True)
            for sub in ("c05giant", "c05sweep")
        ] + [
            _shared(_e("release", "faultmc", "c04", also_build=[("release", "codec")]), r"check passes after altering content", "last clause of C05 (raw content bytes may differ without an error only if the integrity check then fails): every alteration of stored content bytes in the C04 enumeration makes the checks fail"),
            _shared(_e("release", "locmc", "c12", "--shards", "4", tier="quick"), r"re-seals", "C05 across a later rewrite: a pack description altered on disk is never read back, after tools::set_location rewrote that block, as something else than what was created"),
        ],
        "assumptions": [
            "the structural dump is what the public reader API returns (pack infos, index headers, every entry's variant and values, content sizes, content hashes)",
            "a node absent from the altered dump is accepted only because counts/lengths are always dumped next to it",
            "one container with a single checked block of 19.2 MB (above every size threshold of the block reader) gets 20 alterations only; all other containers are swept exhaustively",
            "whether the kernel grants a file mapping is an environment answer decided by an LD_PRELOAD shim (shim/mmapfail.c; every file-backed mmap of the process, counted and logged): for the 19.2 MB block every single refusal and all refused, for the bare-pack sweep (N = 1000..1100, thorough ..4400) all refused; other environment failures of reads (EIO, short reads of the reader) are not modelled",
        ],
    },
    "C06": {
        "level": "fault_enumeration",
        "engines": lambda tier: [_e("release", "faultmc", "c06"), dict(_e("dev", "faultmc", "c06"), side=True), dict(_e("release", "faultmc", "c06sweep"), side=True), dict(_e("dev", "faultmc", "c06sweep"), side=True)],
        "assumptions": [
            "hang detection is wall-clock based: 10 s without an answer (typical case: a few ms), confirmed alone with 30 s",
            "each case runs in a worker process; process death is attributed to the case in flight",
            "damage that keeps every CRC valid by construction of an attacker is outside the claim and is not enumerated",
        ],
    },
    "C01": {
        "level": "model_checking",
        "engines": lambda tier: [
            _e("release", "seqmc", "c01", "--shards", "4"),
            _shared(_e("release", "viewmc", "c13"), r".", "C01 through every way of looking at a stored content: stream, slices, nested cuts and conversions of a content obtained from a pack all yield the stored bytes"),
            _shared(_e("release", "packmc", "c11"), r"no such pack|available pack reads differently|does not open", "C01 at addresses whose pack id is not 1..n: every address the creator returned resolves to its content"),
        ],
        "assumptions": [
            "content lengths come from a boundary alphabet (0,1,255,256,65535,65536, 4 MiB-1/4 MiB/4 MiB+1, 16 MiB+1); payload bytes are seeded patterns (low/high entropy)",
            "the creator runs with 3 compression workers (process pinned to 4 CPUs); worker scheduling itself is C08's subject",
            "the slot a CompHint::Detect content goes to is read from the produced bytes (the property leaves it open); explicit hints are dictated by the property",
        ],
    },
    "C16": {
        "level": "exploration",
        "engines": lambda tier: [
            _e("release", "seqmc", "c16", "--shards", "4"),
            dict(_shared(_e("release", "pipemc", "c08", tier="quick"), r"with the hint", "C16 on forced worker schedules: in every replayed arrival order of the C08 pipeline enumeration (queues shorter and longer than the back-pressure limit, 1..3 workers) a content inserted with the hint 'compress' lies in a compressed cluster and one inserted with 'do not compress' in an uncompressed one (compression byte read by the independent decoder)"), side=True),
        ],
        "assumptions": [
            "observer = independent byte decoder in the harness (own CRC-32C, codec crates), not jubako's reader",
            "CompHint::Detect is unconstrained by the property and only recorded",
            "under the deduplicating adder the hint clauses are evaluated on first occurrences only",
        ],
    },
    "C03": {
        "level": "exploration",
        "engines": lambda tier: [_e("release", "schemamc", "c03")] + [
            _e("release", "schemamc", "c03", "--large", str(n), env=_rayon(t))
            for (n, t) in ([(1000, 1), (3000, 16)] if tier == "quick" else [(1000, 1), (1000, 2), (3000, 16), (5000, 1), (5000, 2), (5000, 16)])
        ] + [
            dict(_shared(_e("release", "schemamc", "c15", tier="quick"), r"not sorted|is not in order", "C03 for stores sorted on late-bound integer keys (positions of other entries): the stores of the C15 enumeration that are declared sorted on a reference are stored in non-decreasing order of that key as the reader reads it"), side=True),
        ],
        "assumptions": [
            "keys come from a 40-string universe over {00,61,ff} (length<=3) and from the integer boundary alphabets; subsets up to the stated size are enumerated completely",
            "large structured key sets run under RAYON_NUM_THREADS configurations (1,2,16): configurations, not enumerated rayon schedules",
            "binary search is reached through a wrapper whose ordered() is true (PropertyCompare::ordered is hard-wired false)",
        ],
    },
    "C15": {
        "level": "exploration",
        "engines": lambda tier: [_e("release", "schemamc", "c15")] + [
            _e("release", "schemamc", "c15", "--large", sizes, env=_rayon(t))
            for (sizes, t) in ([("32,300,1500", 1), ("32,300,1000,2049,66000", 16)] if tier == "quick" else [("32,300,1000,1500,20000,66000", 1), ("32,300,1000,2049,20000", 2), ("32,300,1000,1500,2049,20000,66000", 16)])
        ],
        "assumptions": [
            "all reference graphs x insertion orders are enumerated up to n=4 (quick) / n=5 (thorough); larger stores use structured graphs",
            "rayon schedules of par_sort_unstable_by / par_iter_mut are configurations (1,2,16 threads), not enumerated",
        ],
    },
    "C02": {
        "level": "exploration",
        "engines": lambda tier: [
            _e("release", "schemamc", "c02"),
            _shared(_e("release", "schemamc", "c03", tier="quick"), r"altered|unreadable|reader-panic|index anchored", "C02 on the sorted stores of the C03 enumeration (keys of every length around the inline prefix, both store kinds): every value reads back as written, and an index declared with the handle of an entry as its offset exposes the window that starts at that entry's final position"),
        ],
        "assumptions": [
            "values are restricted to boundary alphabets (byte-width boundaries, prefix lengths, 64 KiB tails); the alphabets x depth are enumerated completely",
            "the reference model is the list of entries as given; reader = DirectoryPack/Index/AnyBuilder/LazyEntry public API",
            "rayon's internal schedules (value-store sort) are not enumerated",
        ],
    },
}
