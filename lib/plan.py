"""Which engines serve which property, per tier.  Each engine entry:
   profile: release | dev | loom | script ; bin: binary (or script path relative to /verif);
   args: arguments (the first one is the engine's subcommand)."""


def _e(profile, bin_, *args, **kw):
    d = {"profile": profile, "bin": bin_, "args": list(args)}
    d.update(kw)
    return d


PLAN = {
    "C02": {
        "level": "exploration",
        "engines": lambda tier: [_e("release", "schemamc", "c02")],
        "assumptions": [
            "values are restricted to boundary alphabets (byte-width boundaries, prefix lengths, 64 KiB tails); the alphabets x depth are enumerated completely",
            "the reference model is the list of entries as given; reader = DirectoryPack/Index/AnyBuilder/LazyEntry public API",
            "rayon's internal schedules (value-store sort) are not enumerated",
        ],
    },
}
