//! jbkmc — shared pieces of the bounded-exhaustive engines that decide the jubako properties.
//! Every engine is a binary under src/bin; this library holds the scenario language, the
//! reference models, the enumerators and the report writer.

pub mod dirmodel;
pub mod dump;
pub mod gen;
pub mod indep;
pub mod isolate;
pub mod mmapfail;
pub mod packs;
pub mod report;
pub mod shard;
pub mod watchdog;

pub use report::{Args, Report};

use std::cell::RefCell;
use std::panic::{catch_unwind, AssertUnwindSafe};

thread_local! {
    static LAST_PANIC: RefCell<Option<String>> = const { RefCell::new(None) };
}

/// Install a panic hook that records "file:line message" per thread instead of printing.
pub fn install_quiet_panic_hook() {
    std::panic::set_hook(Box::new(|info| {
        let loc = info
            .location()
            .map(|l| format!("{}:{}", l.file(), l.line()))
            .unwrap_or_else(|| "?".into());
        let msg = if let Some(s) = info.payload().downcast_ref::<&str>() {
            s.to_string()
        } else if let Some(s) = info.payload().downcast_ref::<String>() {
            s.clone()
        } else {
            "<non-string panic>".into()
        };
        let mut msg = msg.replace('\n', " ");
        if msg.len() > 300 {
            let mut cut = 300;
            while !msg.is_char_boundary(cut) {
                cut -= 1;
            }
            msg.truncate(cut);
        }
        LAST_PANIC.with(|p| *p.borrow_mut() = Some(format!("{loc} {msg}")));
    }));
}

/// Run `f`, turning a panic into `Err("file:line message")`.
pub fn catch<T>(f: impl FnOnce() -> T) -> Result<T, String> {
    match catch_unwind(AssertUnwindSafe(f)) {
        Ok(v) => Ok(v),
        Err(_) => Err(LAST_PANIC
            .with(|p| p.borrow_mut().take())
            .unwrap_or_else(|| "panic (no message)".into())),
    }
}

/// The source site of a recorded panic ("src/x/y.rs" without line), for stable finding keys.
pub fn panic_site(msg: &str) -> String {
    let first = msg.split_whitespace().next().unwrap_or("?");
    let file = first.rsplit_once(':').map(|x| x.0).unwrap_or(first);
    match file.find("src/") {
        Some(i) if file.contains("/repo/") || file.starts_with("src/") => file[i..].to_string(),
        _ => file.to_string(),
    }
}

pub fn hex(b: &[u8]) -> String {
    let mut s = String::with_capacity(b.len() * 2);
    for x in b {
        s.push_str(&format!("{:02x}", x));
    }
    s
}

pub fn unhex(s: &str) -> Vec<u8> {
    (0..s.len() / 2)
        .map(|i| u8::from_str_radix(&s[2 * i..2 * i + 2], 16).unwrap())
        .collect()
}

/// Where scratch files go: the root handed down by the `check` driver (removed by it at the end,
/// so that workers that are killed or abort leave nothing behind), else tmpfs, else /var/tmp.
pub fn scratch_base() -> String {
    if let Ok(r) = std::env::var("JBKMC_SCRATCH_ROOT") {
        if std::path::Path::new(&r).is_dir() {
            return r;
        }
    }
    if std::path::Path::new("/dev/shm").is_dir() {
        "/dev/shm".into()
    } else {
        "/var/tmp".into()
    }
}

/// A scratch directory on tmpfs when available (removed on drop).
pub fn scratch_dir(tag: &str) -> tempfile::TempDir {
    let base = scratch_base();
    tempfile::Builder::new()
        .prefix(&format!("jbkmc-{tag}-"))
        .tempdir_in(base)
        .expect("scratch dir")
}
