//! A small independent decoder of the *bytes* (no jubako code): pack headers, container
//! locators, content-pack tables and cluster tails, own CRC-32C. Used as an observer by C16
//! (how a content is stored), C08 (cluster order in the file), C04 (which bytes a checksum covers).

pub fn crc32c_jbk(data: &[u8]) -> u32 {
    // CRC-32C polynomial 0x1EDC6F41, init all ones, no reflection, no final xor
    let mut crc: u32 = 0xFFFF_FFFF;
    for &b in data {
        crc ^= (b as u32) << 24;
        for _ in 0..8 {
            crc = if crc & 0x8000_0000 != 0 {
                (crc << 1) ^ 0x1EDC_6F41
            } else {
                crc << 1
            };
        }
    }
    crc
}

pub fn block_ok(buf: &[u8], start: usize, payload: usize) -> bool {
    if start + payload + 4 > buf.len() {
        return false;
    }
    let crc = crc32c_jbk(&buf[start..start + payload]);
    buf[start + payload..start + payload + 4] == crc.to_be_bytes()
}

fn le(buf: &[u8], at: usize, n: usize) -> u64 {
    let mut v = 0u64;
    for i in 0..n {
        v |= (buf[at + i] as u64) << (8 * i);
    }
    v
}

#[derive(Debug, Clone)]
pub struct PackHead {
    pub kind: u8, // b'm', b'd', b'c', b'C'
    pub uuid: [u8; 16],
    pub pack_size: u64,
    pub check_info_pos: u64,
}

pub fn pack_head(buf: &[u8], at: usize) -> Result<PackHead, String> {
    if at + 64 > buf.len() {
        return Err("pack header out of file".into());
    }
    if &buf[at..at + 3] != b"jbk" {
        return Err("bad magic".into());
    }
    if !block_ok(buf, at, 60) {
        return Err("pack header crc".into());
    }
    let mut uuid = [0u8; 16];
    uuid.copy_from_slice(&buf[at + 10..at + 26]);
    Ok(PackHead {
        kind: buf[at + 3],
        uuid,
        pack_size: le(buf, at + 32, 8),
        check_info_pos: le(buf, at + 40, 8),
    })
}

#[derive(Debug, Clone)]
pub struct Located {
    pub head: PackHead,
    /// absolute offset of the pack in the file
    pub offset: usize,
}

/// All non-container packs found in a file that starts with a pack header (a bare pack or a
/// container pack), with their absolute offsets.
pub fn packs_in_file(buf: &[u8]) -> Result<Vec<Located>, String> {
    let head = pack_head(buf, 0)?;
    if head.kind != b'C' {
        return Ok(vec![Located { head, offset: 0 }]);
    }
    if !block_ok(buf, 64, 60) {
        return Err("container header crc".into());
    }
    let locators_pos = le(buf, 64, 8) as usize;
    let count = le(buf, 72, 2) as usize;
    let mut out = vec![];
    for i in 0..count {
        let at = locators_pos + i * 36;
        if !block_ok(buf, at, 32) {
            return Err(format!("locator {i} crc"));
        }
        let size = le(buf, at + 16, 8) as usize;
        let offset = le(buf, at + 24, 8) as usize;
        let h = pack_head(buf, offset)?;
        if h.uuid != buf[at..at + 16] {
            return Err(format!("locator {i}: uuid differs from the pack header"));
        }
        if h.pack_size as usize != size {
            return Err(format!("locator {i}: size {size} != pack size {}", h.pack_size));
        }
        out.push(Located { head: h, offset });
    }
    Ok(out)
}

#[derive(Debug, Clone)]
pub struct ClusterInfo {
    pub id: usize,
    pub compression: u8,
    pub offset_size: usize,
    /// absolute offsets (in the buffer handed to `content_pack`)
    pub data_start: usize,
    pub raw_size: usize,
    pub data_size: usize,
    pub tail_offset: usize,
    /// blob boundaries inside the uncompressed data: blob i = [bounds[i], bounds[i+1])
    pub bounds: Vec<usize>,
}

#[derive(Debug, Clone)]
pub struct ContentPackMap {
    pub head: PackHead,
    pub content_count: usize,
    pub clusters: Vec<ClusterInfo>,
    /// per content: (cluster id, blob index)
    pub contents: Vec<(usize, usize)>,
}

/// Parse a content pack located at `buf[at..]` (validating every block CRC on the way).
pub fn content_pack(buf: &[u8], at: usize) -> Result<ContentPackMap, String> {
    let head = pack_head(buf, at)?;
    if head.kind != b'c' {
        return Err("not a content pack".into());
    }
    if !block_ok(buf, at + 64, 60) {
        return Err("content header crc".into());
    }
    let content_info_pos = at + le(buf, at + 64, 8) as usize;
    let cluster_ptr_pos = at + le(buf, at + 72, 8) as usize;
    let content_count = le(buf, at + 80, 4) as usize;
    let cluster_count = le(buf, at + 84, 4) as usize;
    if !block_ok(buf, cluster_ptr_pos, cluster_count * 8) {
        return Err("cluster pointer table crc".into());
    }
    if !block_ok(buf, content_info_pos, content_count * 4) {
        return Err("content info table crc".into());
    }
    let mut clusters = vec![];
    for c in 0..cluster_count {
        let so = le(buf, cluster_ptr_pos + c * 8, 8);
        let tail_size = (so & 0xFFFF) as usize;
        let tail_offset = at + (so >> 16) as usize;
        if !block_ok(buf, tail_offset, tail_size) {
            return Err(format!("cluster {c} tail crc"));
        }
        let compression = buf[tail_offset];
        let n = buf[tail_offset + 1] as usize;
        if !(1..=8).contains(&n) {
            return Err(format!("cluster {c}: offset size {n}"));
        }
        let blob_count = le(buf, tail_offset + 2, 2) as usize;
        let raw_size = le(buf, tail_offset + 4, n) as usize;
        let data_size = le(buf, tail_offset + 4 + n, n) as usize;
        if tail_size != 4 + 2 * n + blob_count.saturating_sub(1) * n {
            return Err(format!("cluster {c}: tail size {tail_size} does not match {blob_count} blobs of {n}-byte offsets"));
        }
        let mut bounds = vec![0usize];
        for b in 0..blob_count.saturating_sub(1) {
            bounds.push(le(buf, tail_offset + 4 + 2 * n + b * n, n) as usize);
        }
        bounds.push(data_size);
        if bounds.windows(2).any(|w| w[0] > w[1]) {
            return Err(format!("cluster {c}: blob offsets not monotone"));
        }
        if raw_size > tail_offset - at {
            return Err(format!("cluster {c}: raw size {raw_size} reaches before the pack start"));
        }
        clusters.push(ClusterInfo {
            id: c,
            compression,
            offset_size: n,
            data_start: tail_offset - raw_size,
            raw_size,
            data_size,
            tail_offset,
            bounds,
        });
    }
    let mut contents = vec![];
    for i in 0..content_count {
        let v = le(buf, content_info_pos + i * 4, 4) as usize;
        let (cl, blob) = (v >> 12, v & 0xFFF);
        if cl >= cluster_count {
            return Err(format!("content {i}: cluster {cl} >= {cluster_count}"));
        }
        if blob + 1 >= clusters[cl].bounds.len() {
            return Err(format!("content {i}: blob {blob} not in cluster {cl}"));
        }
        contents.push((cl, blob));
    }
    Ok(ContentPackMap {
        head,
        content_count,
        clusters,
        contents,
    })
}

/// Decompress a cluster's stored bytes with the codec crates directly.
pub fn decompress(compression: u8, raw: &[u8], expected: usize) -> Result<Vec<u8>, String> {
    use std::io::Read;
    let mut out = Vec::with_capacity(expected);
    match compression {
        0 => out.extend_from_slice(raw),
        1 => {
            lz4::Decoder::new(raw)
                .map_err(|e| format!("lz4: {e}"))?
                .read_to_end(&mut out)
                .map_err(|e| format!("lz4: {e}"))?;
        }
        2 => {
            let stream = xz2::stream::Stream::new_lzma_decoder(1 << 30).map_err(|e| format!("lzma: {e}"))?;
            xz2::read::XzDecoder::new_stream(raw, stream)
                .read_to_end(&mut out)
                .map_err(|e| format!("lzma: {e}"))?;
        }
        3 => {
            zstd::Decoder::new(raw)
                .map_err(|e| format!("zstd: {e}"))?
                .read_to_end(&mut out)
                .map_err(|e| format!("zstd: {e}"))?;
        }
        x => return Err(format!("unknown compression {x}")),
    }
    Ok(out)
}

impl ContentPackMap {
    /// The bytes of content `i` as the independent decoder sees them.
    pub fn content_bytes(&self, buf: &[u8], i: usize) -> Result<Vec<u8>, String> {
        let (cl, blob) = self.contents[i];
        let c = &self.clusters[cl];
        let raw = &buf[c.data_start..c.data_start + c.raw_size];
        let plain = decompress(c.compression, raw, c.data_size)?;
        if plain.len() != c.data_size {
            return Err(format!("cluster {cl}: decompressed {} bytes, tail says {}", plain.len(), c.data_size));
        }
        Ok(plain[c.bounds[blob]..c.bounds[blob + 1]].to_vec())
    }
}
