//! Directory packs from a small scenario language: schema spec + entry specs → real
//! `DirectoryPackCreator` → bytes → real `DirectoryPack` reader → values, compared with the spec
//! (the reference model *is* the list of entries as given).

use jubako as jbk;
use jbk::creator::schema;
use jbk::reader::builder::BuilderTrait;
use jbk::reader::{EntryTrait, Range};
use serde_json::{json, Value as J};
use std::collections::{BTreeMap, HashMap};
use std::sync::Arc;

const NAMES: [&str; 48] = [
    "p0", "p1", "p2", "p3", "p4", "p5", "p6", "p7", "p8", "p9", "p10", "p11", "p12", "p13", "p14",
    "p15", "p16", "p17", "p18", "p19", "p20", "p21", "p22", "p23", "p24", "p25", "p26", "p27",
    "p28", "p29", "p30", "p31", "p32", "p33", "p34", "p35", "p36", "p37", "p38", "p39", "p40",
    "p41", "p42", "p43", "p44", "p45", "p46", "p47",
];
const VNAMES: [&str; 8] = ["v0", "v1", "v2", "v3", "v4", "v5", "v6", "v7"];

#[derive(Copy, Clone, Hash, Eq, PartialEq, Debug)]
pub struct PN(pub u8);
impl jbk::PropertyName for PN {
    fn as_str(&self) -> &'static str {
        NAMES[self.0 as usize]
    }
}
#[derive(Copy, Clone, Hash, Eq, PartialEq, Debug)]
pub struct VN(pub u8);
impl jbk::VariantName for VN {
    fn as_str(&self) -> &'static str {
        VNAMES[self.0 as usize]
    }
}

#[derive(Clone, Copy, Debug, PartialEq, Eq)]
pub enum StoreKind {
    Plain,
    Indexed,
}

#[derive(Clone, Debug, PartialEq, Eq)]
pub enum PropSpec {
    U,
    S,
    C,
    A { prefix: usize, store: usize },
}

#[derive(Clone, Debug)]
pub struct SchemaSpec {
    pub stores: Vec<StoreKind>,
    pub common: Vec<PropSpec>,
    pub variants: Vec<Vec<PropSpec>>,
    /// indexes into `common`
    pub sort: Option<Vec<usize>>,
}

#[derive(Clone, Debug, PartialEq, Eq, PartialOrd, Ord)]
pub enum Val {
    U(u64),
    S(i64),
    C(u16, u32),
    A(Vec<u8>),
    /// the same values, but handed over as a delayed `Word`
    UW(u64),
    SW(i64),
    /// unsigned word bound to the final index of entry #k (k = position in the spec's entry list)
    Ref(usize),
    /// unsigned word (closure) giving 1 + the final index of entry #k ("parent + 1, 0 = no parent")
    RefP1(usize),
    /// signed word (closure) giving the final index of entry #k
    SRef(usize),
    /// signed word (closure) giving final index of entry #k minus the final index of the entry itself
    SRel(usize),
}

#[derive(Clone, Debug)]
pub struct EntrySpec {
    pub variant: Option<usize>,
    /// values for the common properties, then for the variant's properties
    pub vals: Vec<Val>,
}

#[derive(Clone, Debug)]
pub struct IndexSpec {
    pub name: String,
    pub offset: u32,
    pub count: u32,
}

#[derive(Clone, Debug)]
pub struct DirSpec {
    pub schema: SchemaSpec,
    pub entries: Vec<EntrySpec>,
    pub indexes: Vec<IndexSpec>,
}

impl SchemaSpec {
    pub fn common_name(&self, i: usize) -> PN {
        PN(i as u8)
    }
    pub fn variant_name(&self, v: usize, j: usize) -> PN {
        let mut base = self.common.len();
        for k in 0..v {
            base += self.variants[k].len();
        }
        PN((base + j) as u8)
    }
    pub fn to_json(&self) -> J {
        let p = |p: &PropSpec| match p {
            PropSpec::U => json!("U"),
            PropSpec::S => json!("S"),
            PropSpec::C => json!("C"),
            PropSpec::A { prefix, store } => json!({"A": {"prefix": prefix, "store": store}}),
        };
        json!({
            "stores": self.stores.iter().map(|s| format!("{s:?}")).collect::<Vec<_>>(),
            "common": self.common.iter().map(p).collect::<Vec<_>>(),
            "variants": self.variants.iter().map(|v| v.iter().map(p).collect::<Vec<_>>()).collect::<Vec<_>>(),
            "sort": self.sort,
        })
    }
    pub fn from_json(j: &J) -> SchemaSpec {
        let p = |j: &J| -> PropSpec {
            match j {
                J::String(s) if s == "U" => PropSpec::U,
                J::String(s) if s == "S" => PropSpec::S,
                J::String(s) if s == "C" => PropSpec::C,
                _ => PropSpec::A {
                    prefix: j["A"]["prefix"].as_u64().unwrap() as usize,
                    store: j["A"]["store"].as_u64().unwrap() as usize,
                },
            }
        };
        SchemaSpec {
            stores: j["stores"]
                .as_array()
                .unwrap()
                .iter()
                .map(|s| if s == "Plain" { StoreKind::Plain } else { StoreKind::Indexed })
                .collect(),
            common: j["common"].as_array().unwrap().iter().map(p).collect(),
            variants: j["variants"]
                .as_array()
                .unwrap()
                .iter()
                .map(|v| v.as_array().unwrap().iter().map(p).collect())
                .collect(),
            sort: j["sort"]
                .as_array()
                .map(|a| a.iter().map(|x| x.as_u64().unwrap() as usize).collect()),
        }
    }
}

impl Val {
    pub fn to_json(&self) -> J {
        match self {
            Val::U(v) => json!({"u": v.to_string()}),
            Val::S(v) => json!({"s": v.to_string()}),
            Val::UW(v) => json!({"uw": v.to_string()}),
            Val::SW(v) => json!({"sw": v.to_string()}),
            Val::C(p, c) => json!({"c": [p, c]}),
            Val::A(a) => {
                if a.len() <= 64 {
                    json!({"a": crate::hex(a)})
                } else {
                    // long arrays are always "one byte repeated" or a seeded pattern; keep them replayable
                    json!({"a_long": {"len": a.len(), "first": a[0], "last": a[a.len()-1], "hex_head": crate::hex(&a[..16])}, "a": crate::hex(a)})
                }
            }
            Val::Ref(k) => json!({"ref": k}),
            Val::RefP1(k) => json!({"refp1": k}),
            Val::SRef(k) => json!({"sref": k}),
            Val::SRel(k) => json!({"srel": k}),
        }
    }
    pub fn from_json(j: &J) -> Val {
        let n = |x: &J| x.as_str().unwrap().to_string();
        if let Some(v) = j.get("u") {
            Val::U(n(v).parse().unwrap())
        } else if let Some(v) = j.get("s") {
            Val::S(n(v).parse().unwrap())
        } else if let Some(v) = j.get("uw") {
            Val::UW(n(v).parse().unwrap())
        } else if let Some(v) = j.get("sw") {
            Val::SW(n(v).parse().unwrap())
        } else if let Some(v) = j.get("c") {
            Val::C(v[0].as_u64().unwrap() as u16, v[1].as_u64().unwrap() as u32)
        } else if let Some(v) = j.get("a") {
            Val::A(crate::unhex(v.as_str().unwrap()))
        } else if let Some(v) = j.get("refp1") {
            Val::RefP1(v.as_u64().unwrap() as usize)
        } else if let Some(v) = j.get("sref") {
            Val::SRef(v.as_u64().unwrap() as usize)
        } else if let Some(v) = j.get("srel") {
            Val::SRel(v.as_u64().unwrap() as usize)
        } else {
            Val::Ref(j["ref"].as_u64().unwrap() as usize)
        }
    }
}

impl DirSpec {
    pub fn to_json(&self) -> J {
        json!({
            "schema": self.schema.to_json(),
            "entries": self.entries.iter().map(|e| json!({"variant": e.variant, "vals": e.vals.iter().map(|v| v.to_json()).collect::<Vec<_>>()})).collect::<Vec<_>>(),
            "indexes": self.indexes.iter().map(|i| json!({"name": i.name, "offset": i.offset, "count": i.count})).collect::<Vec<_>>(),
        })
    }
    pub fn from_json(j: &J) -> DirSpec {
        DirSpec {
            schema: SchemaSpec::from_json(&j["schema"]),
            entries: j["entries"]
                .as_array()
                .unwrap()
                .iter()
                .map(|e| EntrySpec {
                    variant: e["variant"].as_u64().map(|v| v as usize),
                    vals: e["vals"].as_array().unwrap().iter().map(Val::from_json).collect(),
                })
                .collect(),
            indexes: j["indexes"]
                .as_array()
                .unwrap()
                .iter()
                .map(|i| IndexSpec {
                    name: i["name"].as_str().unwrap().into(),
                    offset: i["offset"].as_u64().unwrap() as u32,
                    count: i["count"].as_u64().unwrap() as u32,
                })
                .collect(),
        }
    }
    /// Compact JSON for long lists (samples / replays stay readable).
    pub fn brief(&self) -> J {
        if self.entries.len() <= 8 {
            self.to_json()
        } else {
            json!({"schema": self.schema.to_json(), "entries": format!("{} entries (structured)", self.entries.len())})
        }
    }
}

pub struct Built {
    pub bytes: Vec<u8>,
    /// `Bound::get()` of the handle `add_entry` returned, per entry of the spec, after finalize
    pub bounds: Vec<u32>,
}

#[derive(Debug)]
pub enum BuildErr {
    Err(String),
    Panic(String),
}

type Schema = schema::Schema<PN, VN>;

fn make_prop(p: &PropSpec, name: PN, stores: &[jbk::creator::StoreHandle]) -> schema::Property<PN> {
    match p {
        PropSpec::U => schema::Property::new_uint(name),
        PropSpec::S => schema::Property::new_sint(name),
        PropSpec::C => schema::Property::new_content_address(name),
        PropSpec::A { prefix, store } => {
            schema::Property::new_array(*prefix, stores[*store].clone(), name)
        }
    }
}

/// Create the directory pack with the real creator, in memory. Panics inside the creator are
/// caught and reported as `BuildErr::Panic`.
pub fn build(spec: &DirSpec) -> Result<Built, BuildErr> {
    build_with_order(spec, None)
}

/// `order`: the order in which the entries of `spec.entries` are handed to `add_entry`
/// (indices into `spec.entries`); `Val::Ref(k)` always names an entry by its spec position.
pub fn build_with_order(spec: &DirSpec, order: Option<&[usize]>) -> Result<Built, BuildErr> {
    let r = crate::catch(|| -> Result<Built, String> {
        let mut creator = jbk::creator::DirectoryPackCreator::new(
            jbk::PackId::from(0),
            jbk::VendorId::from([1, 2, 3, 4]),
            Default::default(),
        );
        let returned = populate(spec, order, &mut creator);
        let mut out = std::io::Cursor::new(Vec::new());
        let finalized = creator.finalize().map_err(|e| format!("finalize: {e}"))?;
        finalized.write(&mut out).map_err(|e| format!("write: {e}"))?;
        let bounds = returned.iter().map(|b| b.get().into_u32()).collect();
        Ok(Built {
            bytes: out.into_inner(),
            bounds,
        })
    });
    match r {
        Ok(Ok(b)) => Ok(b),
        Ok(Err(e)) => Err(BuildErr::Err(e)),
        Err(p) => Err(BuildErr::Panic(p)),
    }
}

/// When set (schemamc), `populate` adds an index "__anchor" (1 entry) whose offset is the handle of
/// the spec's first entry, and `read_and_compare` checks it.
pub static ANCHOR_INDEX: std::sync::atomic::AtomicBool = std::sync::atomic::AtomicBool::new(false);

/// Add the spec's value stores, entry store and indexes to a DirectoryPackCreator (used by the
/// in-memory path above and by BasicCreator-based containers). Returns the handles `add_entry`
/// returned, per spec entry.
pub fn populate(
    spec: &DirSpec,
    order: Option<&[usize]>,
    creator: &mut jbk::creator::DirectoryPackCreator,
) -> Vec<jbk::Bound<jbk::EntryIdx>> {
    let s = &spec.schema;
    let stores: Vec<jbk::creator::StoreHandle> = s
        .stores
        .iter()
        .map(|k| match k {
            StoreKind::Plain => jbk::creator::ValueStore::new_plain(None),
            StoreKind::Indexed => jbk::creator::ValueStore::new_indexed(),
        })
        .collect();
    let common = schema::CommonProperties::new(
        s.common
            .iter()
            .enumerate()
            .map(|(i, p)| make_prop(p, s.common_name(i), &stores))
            .collect(),
    );
    let variants = s
        .variants
        .iter()
        .enumerate()
        .map(|(v, props)| {
            (
                VN(v as u8),
                schema::VariantProperties::new(
                    props
                        .iter()
                        .enumerate()
                        .map(|(j, p)| make_prop(p, s.variant_name(v, j), &stores))
                        .collect(),
                ),
            )
        })
        .collect();
    let sort = s
        .sort
        .as_ref()
        .map(|k| k.iter().map(|i| s.common_name(*i)).collect::<Vec<_>>());
    let schema: Schema = schema::Schema::new(common, variants, sort);
    let mut store = Box::new(jbk::creator::EntryStore::new(schema, None));

    let n = spec.entries.len();
    let default_order: Vec<usize> = (0..n).collect();
    let order = order.unwrap_or(&default_order);
    // Vows for forward references, handles returned by add_entry for the rest.
    let mut vows: Vec<Option<jbk::Vow<jbk::EntryIdx>>> = (0..n)
        .map(|_| Some(jbk::Vow::new(jbk::EntryIdx::from(0))))
        .collect();
    let binds: Vec<jbk::Bound<jbk::EntryIdx>> =
        vows.iter().map(|v| v.as_ref().unwrap().bind()).collect();
    let mut returned: Vec<Option<jbk::Bound<jbk::EntryIdx>>> = (0..n).map(|_| None).collect();
    for &k in order {
        let e = &spec.entries[k];
        let mut map: HashMap<PN, jbk::Value> = HashMap::new();
        let ncommon = s.common.len();
        for (i, v) in e.vals.iter().enumerate() {
            let name = if i < ncommon {
                s.common_name(i)
            } else {
                s.variant_name(e.variant.expect("variant values need a variant"), i - ncommon)
            };
            let val = match v {
                Val::U(x) => jbk::Value::Unsigned(*x),
                Val::S(x) => jbk::Value::Signed(*x),
                Val::UW(x) => jbk::Value::UnsignedWord((*x).into()),
                Val::SW(x) => jbk::Value::SignedWord((*x).into()),
                Val::C(p, c) => jbk::Value::Content(jbk::ContentAddress::new(
                    jbk::PackId::from(*p),
                    jbk::ContentIdx::from(*c),
                )),
                Val::A(a) => jbk::Value::Array(a.as_slice().into()),
                Val::Ref(t) => {
                    let bound = match &returned[*t] {
                        Some(b) => b.clone(),
                        None => binds[*t].clone(),
                    };
                    jbk::Value::UnsignedWord(bound.into())
                }
                Val::RefP1(t) => {
                    let target = match &returned[*t] {
                        Some(b) => b.clone(),
                        None => binds[*t].clone(),
                    };
                    let f: Box<dyn Fn() -> u64 + Sync + Send> = Box::new(move || target.get().into_u64() + 1);
                    jbk::Value::UnsignedWord(f.into())
                }
                Val::SRef(t) => {
                    let target = match &returned[*t] {
                        Some(b) => b.clone(),
                        None => binds[*t].clone(),
                    };
                    let f: Box<dyn Fn() -> i64 + Sync + Send> = Box::new(move || target.get().into_u64() as i64);
                    jbk::Value::SignedWord(f.into())
                }
                Val::SRel(t) => {
                    let target = match &returned[*t] {
                        Some(b) => b.clone(),
                        None => binds[*t].clone(),
                    };
                    let me = binds[k].clone();
                    let f: Box<dyn Fn() -> i64 + Sync + Send> =
                        Box::new(move || target.get().into_u64() as i64 - me.get().into_u64() as i64);
                    jbk::Value::SignedWord(f.into())
                }
            };
            map.insert(name, val);
        }
        let entry = jbk::creator::BasicEntry::new_from_schema_idx(
            &store.schema,
            vows[k].take().expect("each entry is added once"),
            e.variant.map(|v| VN(v as u8)),
            map,
        );
        returned[k] = Some(store.add_entry(entry));
    }
    for st in &stores {
        creator.add_value_store(st.clone());
    }
    let store_id = creator.add_entry_store(store);
    if ANCHOR_INDEX.load(std::sync::atomic::Ordering::Relaxed) && !spec.entries.is_empty() {
        // an index whose first entry is given as the handle of an entry (not as a number): it
        // must start at the final position of that entry
        let anchor = returned[0].clone().unwrap_or_else(|| binds[0].clone());
        creator.create_index("__anchor", Default::default(), 0.into(), store_id, 1.into(), anchor.into());
    }
    for ix in &spec.indexes {
        creator.create_index(
            &ix.name,
            Default::default(),
            0.into(),
            store_id,
            ix.count.into(),
            jbk::EntryIdx::from(ix.offset).into(),
        );
    }
    returned
        .into_iter()
        .enumerate()
        .map(|(k, b)| b.unwrap_or_else(|| binds[k].clone()))
        .collect()
}

#[derive(Clone, Debug, PartialEq, Eq)]
pub enum RVal {
    U(u64),
    S(i64),
    C(u16, u32),
    A(Vec<u8>),
}

impl RVal {
    pub fn to_json(&self) -> J {
        match self {
            RVal::U(v) => json!({"u": v.to_string()}),
            RVal::S(v) => json!({"s": v.to_string()}),
            RVal::C(p, c) => json!({"c": [p, c]}),
            RVal::A(a) => {
                if a.len() <= 64 {
                    json!({"a": crate::hex(a)})
                } else {
                    json!({"a_len": a.len(), "a_blake3": blake3::hash(a).to_hex().to_string()})
                }
            }
        }
    }
}

pub fn rval_of(v: &jbk::reader::RawValue) -> Result<RVal, String> {
    match v.get().map_err(|e| format!("{e}"))? {
        jbk::Value::Unsigned(x) => Ok(RVal::U(x)),
        jbk::Value::Signed(x) => Ok(RVal::S(x)),
        jbk::Value::Content(c) => Ok(RVal::C(c.pack_id.into_u16(), c.content_id.into_u32())),
        jbk::Value::Array(a) => Ok(RVal::A(a.to_vec())),
        _ => Err("word value from reader".into()),
    }
}

#[derive(Clone, Debug, PartialEq, Eq)]
pub struct ReadEntry {
    pub variant: Option<u8>,
    pub vals: BTreeMap<String, RVal>,
}

pub struct OpenDir {
    pub dir: Arc<jbk::reader::DirectoryPack>,
    pub values: Arc<jbk::reader::ValueStorage>,
    // `EntryStorage` is not nameable from outside the crate: keep it inside a closure
    get_store: Box<dyn Fn(&jbk::reader::Index) -> Result<jbk::reader::EntryStore, String>>,
}

pub fn open(bytes: Vec<u8>) -> Result<OpenDir, String> {
    let dir = jbk::reader::DirectoryPack::new(jbk::Reader::from(bytes)).map_err(|e| format!("{e}"))?;
    Ok(open_from(Arc::new(dir)))
}

pub fn open_from(dir: Arc<jbk::reader::DirectoryPack>) -> OpenDir {
    let values = dir.create_value_storage();
    let entries = dir.create_entry_storage();
    let get_store = Box::new(move |ix: &jbk::reader::Index| {
        ix.get_store(&entries).map_err(|e| format!("{e}"))
    });
    OpenDir { dir, values, get_store }
}

pub struct OpenIndex {
    pub index: jbk::reader::Index,
    pub builder: jbk::reader::builder::AnyBuilder,
    pub store: jbk::reader::EntryStore,
    pub values: Arc<jbk::reader::ValueStorage>,
}

impl OpenDir {
    pub fn index(&self, name: &str) -> Result<Option<OpenIndex>, String> {
        let index = match self.dir.get_index_from_name(name).map_err(|e| format!("{e}"))? {
            None => return Ok(None),
            Some(i) => i,
        };
        let store = (self.get_store)(&index)?;
        let builder = jbk::reader::builder::AnyBuilder::new(Arc::clone(&store), &*self.values)
            .map_err(|e| format!("{e}"))?;
        Ok(Some(OpenIndex { index, builder, store, values: Arc::clone(&self.values) }))
    }
}

/// A reader-side variant enum that knows the variant names whose bit is set in `MASK`.
#[derive(Clone, Copy, Debug, PartialEq)]
pub struct Known<const MASK: u32>(pub u8);
impl<'a, const MASK: u32> TryFrom<&'a str> for Known<MASK> {
    type Error = ();
    fn try_from(name: &'a str) -> Result<Self, ()> {
        match VNAMES.iter().position(|n| *n == name) {
            Some(k) if MASK >> k & 1 == 1 => Ok(Known(k as u8)),
            _ => Err(()),
        }
    }
}

impl OpenIndex {
    fn typed_variant<const MASK: u32>(&self, i: u32) -> Result<Option<u8>, String> {
        use jbk::reader::builder::PropertyBuilderTrait;
        use jbk::reader::Range;
        let b = self.store.layout().variant_id_builder::<Known<MASK>>().ok_or("store with variants has no variant id builder")?;
        let abs = self.index.offset() + jbk::EntryIdx::from(i);
        let reader = self.store.get_entry_reader(abs).ok_or("no entry reader")?;
        Ok(b.create(&reader).map_err(|e| format!("typed variant: {e}"))?.map(|k| k.0))
    }

    /// Read every property of entry `i` through the typed builders (`IntProperty`,
    /// `SignedProperty`, `ContentProperty`, `ArrayProperty`) and compare with `vals`.
    fn typed_values_agree(&self, i: u32, variant: Option<u8>, vals: &BTreeMap<String, RVal>) -> Result<(), String> {
        use jbk::reader::builder::{ArrayProperty, ContentProperty, IntProperty, PropertyBuilderTrait, SignedProperty};
        use jbk::reader::Range;
        let layout = self.store.layout();
        let abs = self.index.offset() + jbk::EntryIdx::from(i);
        let reader = match self.store.get_entry_reader(abs) {
            Some(r) => r,
            None => return Err("no entry reader".into()),
        };
        let r = crate::catch(|| -> Result<(), String> {
            for (name, want) in vals {
                let prop = match layout.common.iter().find(|(n, _)| n.as_str() == name.as_str()) {
                    Some((_, p)) => p.clone(),
                    None => {
                        let vp = layout.variant_part.as_ref().ok_or("property outside the common part but no variant part")?;
                        let v = variant.ok_or("variant property without a variant")? as usize;
                        match vp.variants.get(v).and_then(|ps| ps.iter().find(|(n, _)| n.as_str() == name.as_str())) {
                            Some((_, p)) => p.clone(),
                            None => return Err(format!("typed reader: property {name} not in the layout")),
                        }
                    }
                };
                let got = match want {
                    RVal::U(_) => prop.as_builder::<IntProperty, _>(&*self.values).map_err(|e| format!("{e}"))?.map(|b| b.create(&reader).map(RVal::U)),
                    RVal::S(_) => prop.as_builder::<SignedProperty, _>(&*self.values).map_err(|e| format!("{e}"))?.map(|b| b.create(&reader).map(RVal::S)),
                    RVal::C(..) => prop
                        .as_builder::<ContentProperty, _>(&*self.values)
                        .map_err(|e| format!("{e}"))?
                        .map(|b| b.create(&reader).map(|c| RVal::C(c.pack_id.into_u16(), c.content_id.into_u32()))),
                    RVal::A(_) => prop.as_builder::<ArrayProperty, _>(&*self.values).map_err(|e| format!("{e}"))?.map(|b| {
                        b.create(&reader).and_then(|a| {
                            let mut v = jbk::SmallBytes::new();
                            a.resolve_to_vec(&mut v)?;
                            Ok(RVal::A(v.to_vec()))
                        })
                    }),
                };
                match got {
                    None => return Err(format!("typed reader: no builder of the stored kind for property {name}")),
                    Some(Err(e)) => return Err(format!("typed reader: property {name}: {e}")),
                    Some(Ok(g)) if &g != want => return Err(format!("typed reader: property {name} reads {} where the generic reader gives {}", g.to_json(), want.to_json())),
                    _ => {}
                }
            }
            Ok(())
        });
        match r {
            Ok(x) => x,
            Err(p) => Err(format!("typed reader: panic {p}")),
        }
    }

    /// `raw` is the variant id the untyped reader returned for entry `i`.
    fn typed_variant_agrees(&self, i: u32, raw: u8) -> Result<(), String> {
        let nvar = self.store.layout().variant_len();
        if nvar == 0 || nvar > 4 {
            return Ok(());
        }
        let got: [(u32, Result<Option<u8>, String>); 6] = [
            (0b1111, crate::catch(|| self.typed_variant::<0b1111>(i)).unwrap_or_else(|p| Err(format!("panic {p}")))),
            (0b0001, crate::catch(|| self.typed_variant::<0b0001>(i)).unwrap_or_else(|p| Err(format!("panic {p}")))),
            (0b0010, crate::catch(|| self.typed_variant::<0b0010>(i)).unwrap_or_else(|p| Err(format!("panic {p}")))),
            (0b0101, crate::catch(|| self.typed_variant::<0b0101>(i)).unwrap_or_else(|p| Err(format!("panic {p}")))),
            (0b0110, crate::catch(|| self.typed_variant::<0b0110>(i)).unwrap_or_else(|p| Err(format!("panic {p}")))),
            (0b1100, crate::catch(|| self.typed_variant::<0b1100>(i)).unwrap_or_else(|p| Err(format!("panic {p}")))),
        ];
        for (mask, g) in got {
            let want = if mask >> raw & 1 == 1 { Some(raw) } else { None };
            match g {
                Ok(x) if x == want => {}
                Ok(x) => return Err(format!("typed variant reader knowing the variants {mask:04b} answers {x:?} for an entry of variant {raw}")),
                Err(e) => return Err(format!("typed variant reader knowing the variants {mask:04b}: {e}")),
            }
        }
        Ok(())
    }

    pub fn count(&self) -> u32 {
        self.index.count().into_u32()
    }
    /// Property names per variant (None = common), from the reader's layout.
    pub fn names(&self) -> (Vec<String>, Vec<Vec<String>>) {
        let layout = self.store.layout();
        let mut common: Vec<String> = layout.common.iter().map(|(n, _)| n.to_string()).collect();
        common.sort();
        let mut variants = vec![];
        if let Some(vp) = &layout.variant_part {
            for v in vp.variants.iter() {
                let mut names: Vec<String> = v.iter().map(|(n, _)| n.to_string()).collect();
                names.sort();
                variants.push(names);
            }
        }
        (common, variants)
    }
    /// Read entry `i` of the index (None past the window).
    pub fn entry(&self, i: u32) -> Result<Option<ReadEntry>, String> {
        let e = match self
            .index
            .get_entry(&self.builder, jbk::EntryIdx::from(i))
            .map_err(|e| format!("{e}"))?
        {
            None => return Ok(None),
            Some(e) => e,
        };
        let variant = e
            .get_variant_id()
            .map_err(|e| format!("variant: {e}"))?
            .map(|v| v.into_u8());
        // the typed way of reading the variant (a reader enum that knows only some of the
        // variant names): it must agree with the raw variant id for every subset of known names
        if let Some(v) = variant {
            self.typed_variant_agrees(i, v)?;
        }
        let (common, variants) = self.names();
        let mut vals = BTreeMap::new();
        let mut names = common;
        if let Some(v) = variant {
            if let Some(vn) = variants.get(v as usize) {
                names.extend(vn.iter().cloned());
            } else {
                return Err(format!("variant id {v} out of range"));
            }
        }
        for n in names {
            let raw = e
                .get_value(&n)
                .map_err(|e| format!("{n}: {e}"))?
                .ok_or_else(|| format!("{n}: no such property"))?;
            vals.insert(n, rval_of(&raw)?);
        }
        // the typed property builders (the other way of reading a property) must agree
        self.typed_values_agree(i, variant, &vals)?;
        Ok(Some(ReadEntry { variant, vals }))
    }
}

/// What the spec says entry `k` must read back as (References resolved through `final_pos`).
pub fn expected_entry(spec: &DirSpec, k: usize, final_pos: &dyn Fn(usize) -> u64) -> ReadEntry {
    use jbk::PropertyName;
    let s = &spec.schema;
    let e = &spec.entries[k];
    let mut vals = BTreeMap::new();
    for (i, v) in e.vals.iter().enumerate() {
        let name = if i < s.common.len() {
            s.common_name(i)
        } else {
            s.variant_name(e.variant.unwrap(), i - s.common.len())
        };
        let rv = match v {
            Val::U(x) | Val::UW(x) => RVal::U(*x),
            Val::S(x) | Val::SW(x) => RVal::S(*x),
            Val::C(p, c) => RVal::C(*p, *c),
            Val::A(a) => RVal::A(a.clone()),
            Val::Ref(t) => RVal::U(final_pos(*t)),
            Val::RefP1(t) => RVal::U(final_pos(*t) + 1),
            Val::SRef(t) => RVal::S(final_pos(*t) as i64),
            Val::SRel(t) => RVal::S(final_pos(*t) as i64 - final_pos(k) as i64),
        };
        vals.insert(name.as_str().to_string(), rv);
    }
    ReadEntry {
        variant: e.variant.map(|v| v as u8),
        vals,
    }
}

/// Is the value representable by the format? (arrays up to 2^24-1 bytes, prefix up to 31, ...)
pub fn representable(spec: &DirSpec) -> Result<(), String> {
    let s = &spec.schema;
    let check_prop = |p: &PropSpec| -> Result<(), String> {
        if let PropSpec::A { prefix, .. } = p {
            if *prefix > 31 {
                return Err("prefix>31".into());
            }
        }
        Ok(())
    };
    for p in s.common.iter().chain(s.variants.iter().flatten()) {
        check_prop(p)?;
    }
    for e in &spec.entries {
        for v in &e.vals {
            if let Val::A(a) = v {
                if a.len() > 0x00FF_FFFF {
                    return Err("array>2^24-1".into());
                }
            }
        }
    }
    Ok(())
}

/// Outcome of checking one directory spec against the real creator + reader.
pub enum Outcome {
    Ok,
    /// creation failed and the model agrees the spec is unrepresentable
    RejectedUnrepresentable(String),
    Violation { key: String, what: String },
}

fn kind_of(v: &RVal) -> &'static str {
    match v {
        RVal::U(_) => "uint",
        RVal::S(_) => "sint",
        RVal::C(..) => "content",
        RVal::A(_) => "array",
    }
}

fn class_of(v: &RVal) -> String {
    match v {
        RVal::U(x) => format!("uint/bytes={}", ((64 - x.leading_zeros() as usize) + 7) / 8),
        RVal::S(x) => {
            let mag = if *x < 0 { !(*x as u64) } else { *x as u64 };
            let bits = 64 - mag.leading_zeros() as usize + 1;
            format!("sint/{}/bytes={}", if *x < 0 { "neg" } else { "pos" }, (bits + 7) / 8)
        }
        RVal::C(p, c) => format!(
            "content/pack_bytes={}/id_bytes={}",
            if *p > 255 { 2 } else { 1 },
            ((32 - c.leading_zeros() as usize) + 7) / 8
        ),
        RVal::A(a) => format!(
            "array/len_bytes={}",
            ((usize::BITS as usize - a.len().leading_zeros() as usize) + 7) / 8
        ),
    }
}

/// Build `spec` with the real creator (entries added in `order`, default = spec order), read it
/// back with the real reader and compare with the reference model. `final_pos(k)` gives the
/// position at which entry k of the spec must be found (identity for unsorted stores).
/// `unrepresentable`: Some(reason) when the enumerator knows the format cannot hold the spec.
pub fn check_roundtrip(
    spec: &DirSpec,
    order: Option<&[usize]>,
    final_pos: &dyn Fn(usize) -> u64,
    unrepresentable: Option<String>,
) -> Outcome {
    let unrep = unrepresentable.or_else(|| representable(spec).err());
    let built = match build_with_order(spec, order) {
        Ok(b) => b,
        Err(e) => {
            return match unrep {
                Some(r) => Outcome::RejectedUnrepresentable(r),
                None => {
                    let (class, msg) = match e {
                        BuildErr::Err(m) => ("creation-error", m),
                        BuildErr::Panic(m) => ("creation-panic", m),
                    };
                    Outcome::Violation {
                        key: format!("{class} {}", crate::panic_site(&msg)),
                        what: format!("creation of a representable store failed: {msg}"),
                    }
                }
            }
        }
    };
    if let Some(r) = unrep {
        // creation "succeeded" although the model says the format cannot hold it: it must at least
        // not read back altered; fall through to the read-back, and report a failure there as
        // "stored altered/unreadable instead of creation failing".
        return match read_and_compare(spec, &built, final_pos) {
            Ok(()) => Outcome::Ok, // the model was too pessimistic: nothing wrong observable
            Err((k, w)) => Outcome::Violation {
                key: format!("unrepresentable-accepted {r} then {k}"),
                what: format!("creation succeeded for an unrepresentable spec ({r}) and the result does not read back: {w}"),
            },
        };
    }
    match read_and_compare(spec, &built, final_pos) {
        Ok(()) => Outcome::Ok,
        Err((key, what)) => Outcome::Violation { key, what },
    }
}

pub fn read_and_compare(
    spec: &DirSpec,
    built: &Built,
    final_pos: &dyn Fn(usize) -> u64,
) -> Result<(), (String, String)> {
    let r = crate::catch(|| -> Result<(), (String, String)> {
        let od = open(built.bytes.clone()).map_err(|e| ("unreadable pack".to_string(), e))?;
        // position -> spec entry
        let n = spec.entries.len();
        let mut at: Vec<Option<usize>> = vec![None; n];
        for k in 0..n {
            let p = final_pos(k) as usize;
            if p >= n || at[p].is_some() {
                return Err(("model".into(), format!("final_pos not a permutation at {k}")));
            }
            at[p] = Some(k);
        }
        if ANCHOR_INDEX.load(std::sync::atomic::Ordering::Relaxed) && !spec.entries.is_empty() {
            let oi = od
                .index("__anchor")
                .map_err(|e| (format!("unreadable index/store: {}", short(&e)), e))?
                .ok_or_else(|| ("index missing".to_string(), "__anchor".to_string()))?;
            let want_pos = final_pos(0);
            if oi.index.offset().into_u32() as u64 != want_pos || oi.count() != 1 {
                return Err((
                    "index anchored on an entry does not start at its final position".into(),
                    format!("the index given the handle of entry 0 starts at {} (count {}), the entry is at {want_pos}", oi.index.offset().into_u32(), oi.count()),
                ));
            }
            let got = oi.entry(0).map_err(|e| (format!("unreadable entry: {}", short(&e)), e))?.ok_or_else(|| ("entry missing".to_string(), "__anchor entry 0".to_string()))?;
            let want = expected_entry(spec, 0, final_pos);
            if got.variant != want.variant || got.vals != want.vals {
                return Err(("index anchored on an entry does not start at its final position".into(), "its first entry is not the entry whose handle was given".to_string()));
            }
        }
        for ix in &spec.indexes {
            let oi = od
                .index(&ix.name)
                .map_err(|e| (format!("unreadable index/store: {}", short(&e)), e))?
                .ok_or_else(|| ("index missing".to_string(), ix.name.clone()))?;
            if oi.count() != ix.count || oi.index.offset().into_u32() != ix.offset {
                return Err((
                    "index window".into(),
                    format!("index {} declares ({}, {}) instead of ({}, {})", ix.name, oi.index.offset().into_u32(), oi.count(), ix.offset, ix.count),
                ));
            }
            for i in 0..ix.count {
                let got = oi
                    .entry(i)
                    .map_err(|e| (format!("unreadable entry: {}", short(&e)), format!("index {} entry {i}: {e}", ix.name)))?
                    .ok_or_else(|| ("entry missing".to_string(), format!("index {} entry {i} is None inside the window", ix.name)))?;
                let k = at[(ix.offset + i) as usize].unwrap();
                let want = expected_entry(spec, k, final_pos);
                if got.variant != want.variant {
                    return Err((
                        "altered variant".into(),
                        format!("entry {i} of {}: variant {:?} read, {:?} written", ix.name, got.variant, want.variant),
                    ));
                }
                for (name, w) in &want.vals {
                    match got.vals.get(name) {
                        None => return Err(("property missing".into(), format!("{name} missing in entry {i}"))),
                        Some(g) if g != w => {
                            return Err((
                                format!("altered {} {}", kind_of(w), class_of(w)),
                                format!("entry {i} of {} property {name}: wrote {} read {}", ix.name, w.to_json(), g.to_json()),
                            ))
                        }
                        _ => {}
                    }
                }
                if got.vals.len() != want.vals.len() {
                    return Err(("extra property".into(), format!("entry {i}: {:?}", got.vals.keys())));
                }
            }
            // the same window as a plain range of entries (public conversion Index -> EntryRange)
            {
                use jbk::reader::Range;
                let r: jbk::EntryRange = (&oi.index).into();
                if r.count().into_u32() != ix.count || r.offset().into_u32() != ix.offset {
                    return Err((
                        "index window".into(),
                        format!("index {} converted to an EntryRange covers ({}, {}) instead of ({}, {})", ix.name, r.offset().into_u32(), r.count().into_u32(), ix.offset, ix.count),
                    ));
                }
                for i in [0u32, ix.count.saturating_sub(1), ix.count] {
                    let via_range = r.get_entry(&oi.builder, jbk::EntryIdx::from(i)).map_err(|e| ("unreadable entry: range".to_string(), format!("{e}")))?.is_some();
                    if via_range != (i < ix.count) {
                        return Err(("index window".into(), format!("index {} as an EntryRange: entry {i} present = {via_range}, window holds {} entries", ix.name, ix.count)));
                    }
                }
            }
            // nothing beyond the window
            for extra in [ix.count, ix.count + 1, u32::MAX - ix.offset] {
                match oi.entry(extra) {
                    Ok(None) => {}
                    Ok(Some(_)) => {
                        return Err((
                            "window exceeded".into(),
                            format!("index {} (count {}) returned an entry at {extra}", ix.name, ix.count),
                        ))
                    }
                    Err(e) => {
                        return Err((
                            "window error".into(),
                            format!("index {} (count {}) position {extra}: error {e} instead of None", ix.name, ix.count),
                        ))
                    }
                }
            }
        }
        Ok(())
    });
    match r {
        Ok(x) => x,
        Err(p) => Err((format!("reader-panic {}", crate::panic_site(&p)), p)),
    }
}

fn short(e: &str) -> String {
    // keep finding keys stable: first few words without numbers
    e.split_whitespace()
        .filter(|w| !w.chars().any(|c| c.is_ascii_digit()))
        .take(6)
        .collect::<Vec<_>>()
        .join(" ")
}
