//! Content-pack scenarios: an insertion sequence driven through the real creator (bare
//! ContentPackCreator or BasicCreator in its three packagings), the reference model (a list of
//! byte strings + the abstract creator state) and the read-back through the real reader.

use crate::gen::{payload, Entropy};
use jubako as jbk;
use jbk::creator::{CompHint, Compression, ConcatMode, ContentAdder, InputReader};
use jbk::reader::MayMissPack;
use serde_json::{json, Value as J};
use std::io::Read;
use std::path::{Path, PathBuf};
use std::rc::Rc;
use std::sync::{Arc, Mutex};

pub const CLUSTER_SIZE: u64 = 4 * 1024 * 1024;
pub const MAX_BLOBS: usize = 0xFFF;

#[derive(Clone, Copy, Debug, PartialEq, Eq)]
pub enum Comp {
    None,
    Lz4(u32),
    Lzma(u32),
    Zstd(i32),
}

impl Comp {
    pub fn to_jbk(self) -> Compression {
        match self {
            Comp::None => Compression::None,
            Comp::Lz4(l) => Compression::Lz4(jbk_ranged_u32::<0, 15>(l)),
            Comp::Lzma(l) => Compression::Lzma(jbk_ranged_u32::<0, 9>(l)),
            Comp::Zstd(l) => Compression::Zstd(jbk_ranged_i32::<-22, 22>(l)),
        }
    }
    pub fn nibble(self) -> u8 {
        match self {
            Comp::None => 0,
            Comp::Lz4(_) => 1,
            Comp::Lzma(_) => 2,
            Comp::Zstd(_) => 3,
        }
    }
    pub fn name(self) -> String {
        format!("{self:?}")
    }
    pub fn parse(s: &str) -> Comp {
        let (k, l) = match s.find('(') {
            Some(i) => (&s[..i], s[i + 1..s.len() - 1].parse::<i64>().unwrap()),
            None => (s, 0),
        };
        match k {
            "None" => Comp::None,
            "Lz4" => Comp::Lz4(l as u32),
            "Lzma" => Comp::Lzma(l as u32),
            "Zstd" => Comp::Zstd(l as i32),
            _ => panic!("bad compression {s}"),
        }
    }
}

// deranged is a dependency of jubako only; its ranged ints are built through the public
// `Compression` constructors' types by conversion from the base type.
fn jbk_ranged_u32<const A: u32, const B: u32>(v: u32) -> deranged_shim::RU32<A, B> {
    deranged_shim::RU32::<A, B>::new(v).expect("level in range")
}
fn jbk_ranged_i32<const A: i32, const B: i32>(v: i32) -> deranged_shim::RI32<A, B> {
    deranged_shim::RI32::<A, B>::new(v).expect("level in range")
}
mod deranged_shim {
    pub use deranged::RangedI32 as RI32;
    pub use deranged::RangedU32 as RU32;
}

#[derive(Clone, Copy, Debug, PartialEq, Eq)]
pub enum Hint {
    Yes,
    No,
    Detect,
}
impl Hint {
    pub fn to_jbk(self) -> CompHint {
        match self {
            Hint::Yes => CompHint::Yes,
            Hint::No => CompHint::No,
            Hint::Detect => CompHint::Detect,
        }
    }
}

#[derive(Clone, Copy, Debug, PartialEq, Eq)]
pub enum Src {
    Memory,
    FileWhole,
    /// a sub-range starting at a non-zero origin of a larger file
    FileRange,
}

#[derive(Clone, Debug)]
pub struct Item {
    pub len: usize,
    pub entropy: Entropy,
    pub hint: Hint,
    pub src: Src,
    /// payload tag; two items with equal (len, entropy, tag) are byte-identical
    pub tag: u64,
}

impl Item {
    pub fn bytes(&self) -> Vec<u8> {
        payload(self.len, self.entropy, self.tag)
    }
    pub fn json(&self) -> J {
        json!({"len": self.len, "entropy": format!("{:?}", self.entropy), "hint": format!("{:?}", self.hint), "src": format!("{:?}", self.src), "tag": self.tag})
    }
    pub fn from_json(j: &J) -> Item {
        Item {
            len: j["len"].as_u64().unwrap() as usize,
            entropy: if j["entropy"] == "Low" { Entropy::Low } else if j["entropy"] == "Tail" { Entropy::Tail } else if j["entropy"] == "LastByte" { Entropy::LastByte } else { Entropy::High },
            hint: match j["hint"].as_str().unwrap() {
                "Yes" => Hint::Yes,
                "No" => Hint::No,
                _ => Hint::Detect,
            },
            src: match j["src"].as_str().unwrap() {
                "Memory" => Src::Memory,
                "FileWhole" => Src::FileWhole,
                _ => Src::FileRange,
            },
            tag: j["tag"].as_u64().unwrap(),
        }
    }
}

#[derive(Clone, Copy, Debug, PartialEq, Eq)]
pub enum Packaging {
    /// ContentPackCreator::new on a file, read with ContentPack::new
    Bare,
    OneFile,
    TwoFiles,
    NoConcat,
}

#[derive(Clone, Debug)]
pub struct Pre {
    /// one-byte blobs put into the raw slot (hint No) before the sequence
    pub raw_blobs: usize,
    /// one-byte blobs put into the compressed slot (hint Yes)
    pub comp_blobs: usize,
    /// one low-entropy content of that many bytes into the compressed slot
    pub comp_bytes: usize,
    /// one content of that many bytes into the raw slot
    pub raw_bytes: usize,
}

impl Pre {
    pub fn none() -> Pre {
        Pre { raw_blobs: 0, comp_blobs: 0, comp_bytes: 0, raw_bytes: 0 }
    }
    pub fn json(&self) -> J {
        json!({"raw_blobs": self.raw_blobs, "comp_blobs": self.comp_blobs, "comp_bytes": self.comp_bytes, "raw_bytes": self.raw_bytes})
    }
    pub fn from_json(j: &J) -> Pre {
        Pre {
            raw_blobs: j["raw_blobs"].as_u64().unwrap() as usize,
            comp_blobs: j["comp_blobs"].as_u64().unwrap() as usize,
            comp_bytes: j["comp_bytes"].as_u64().unwrap() as usize,
            raw_bytes: j["raw_bytes"].as_u64().unwrap() as usize,
        }
    }
    pub fn items(&self) -> Vec<Item> {
        let mut v = vec![];
        if self.raw_bytes > 0 {
            v.push(Item { len: self.raw_bytes, entropy: Entropy::Low, hint: Hint::No, src: Src::Memory, tag: 9001 });
        }
        if self.comp_bytes > 0 {
            v.push(Item { len: self.comp_bytes, entropy: Entropy::Low, hint: Hint::Yes, src: Src::Memory, tag: 9002 });
        }
        for i in 0..self.raw_blobs {
            v.push(Item { len: 1, entropy: Entropy::Low, hint: Hint::No, src: Src::Memory, tag: 10_000 + i as u64 });
        }
        for i in 0..self.comp_blobs {
            v.push(Item { len: 1, entropy: Entropy::Low, hint: Hint::Yes, src: Src::Memory, tag: 20_000 + i as u64 });
        }
        v
    }
}

#[derive(Clone, Debug)]
pub struct Scenario {
    pub comp: Comp,
    pub cached: bool,
    pub packaging: Packaging,
    pub pre: Pre,
    pub items: Vec<Item>,
}

impl Scenario {
    pub fn json(&self) -> J {
        json!({"comp": self.comp.name(), "cached": self.cached, "packaging": format!("{:?}", self.packaging),
               "pre": self.pre.json(), "items": self.items.iter().map(|i| i.json()).collect::<Vec<_>>()})
    }
    pub fn from_json(j: &J) -> Scenario {
        Scenario {
            comp: Comp::parse(j["comp"].as_str().unwrap()),
            cached: j["cached"].as_bool().unwrap(),
            packaging: match j["packaging"].as_str().unwrap() {
                "Bare" => Packaging::Bare,
                "OneFile" => Packaging::OneFile,
                "TwoFiles" => Packaging::TwoFiles,
                _ => Packaging::NoConcat,
            },
            pre: Pre::from_json(&j["pre"]),
            items: j["items"].as_array().unwrap().iter().map(Item::from_json).collect(),
        }
    }
    pub fn all_items(&self) -> Vec<Item> {
        let mut v = self.pre.items();
        v.extend(self.items.iter().cloned());
        v
    }
}

// ------------------------------------------------------------------ the abstract creator model

fn shannon_entropy(data: &[u8]) -> f32 {
    let mut entropy = 0.0f32;
    let mut counts = [0usize; 256];
    for b in data {
        counts[*b as usize] += 1;
    }
    for &c in &counts {
        if c == 0 {
            continue;
        }
        let p = (c as f32) / (data.len() as f32);
        entropy -= p * p.log(2.0);
    }
    entropy
}

/// Does the creator put this content into the compressed slot? (`None` = the model does not
/// decide: Detect within 0.05 bit of the threshold.)
pub fn model_compress(comp: Comp, item: &Item, bytes: &[u8]) -> Option<bool> {
    if comp == Comp::None {
        return Some(false);
    }
    match item.hint {
        Hint::Yes => Some(true),
        Hint::No => Some(false),
        Hint::Detect => {
            let head = &bytes[..bytes.len().min(4096)];
            let e = shannon_entropy(head);
            if e.is_nan() {
                // empty content: 0/0; NaN <= 6.0 is false
                return Some(false);
            }
            if (e - 6.0).abs() < 0.05 {
                None
            } else {
                Some(e <= 6.0)
            }
        }
    }
}

#[derive(Clone, Debug, Default, PartialEq, Eq, Hash)]
pub struct Slot {
    pub open: bool,
    pub id: u32,
    pub count: usize,
    pub bytes: u64,
}

/// Abstract creator state: the two open-cluster slots, next cluster id, contents so far.
#[derive(Clone, Debug, Default, PartialEq, Eq, Hash)]
pub struct AbsState {
    pub raw: Slot,
    pub comp: Slot,
    pub next_cluster: u32,
    pub contents: u32,
    /// clusters handed to the writer so far: (id, compressed)
    pub closed: Vec<(u32, bool)>,
}

impl AbsState {
    /// Model of `ContentPackCreator::add_content`; returns (cluster id, blob idx) of the content.
    pub fn add(&mut self, size: u64, compressed: bool) -> (u32, usize) {
        let next = &mut self.next_cluster;
        let closed = &mut self.closed;
        let slot = if compressed { &mut self.comp } else { &mut self.raw };
        let full = slot.open
            && (slot.count == MAX_BLOBS
                || (compressed && slot.count > 0 && slot.bytes + size > CLUSTER_SIZE));
        if !slot.open || full {
            if slot.open {
                closed.push((slot.id, compressed));
            }
            *slot = Slot { open: true, id: *next, count: 0, bytes: 0 };
            *next += 1;
        }
        let r = (slot.id, slot.count);
        slot.count += 1;
        slot.bytes += size;
        self.contents += 1;
        r
    }
    pub fn finalize(&mut self) {
        if self.raw.open && self.raw.count > 0 {
            self.closed.push((self.raw.id, false));
        }
        if self.comp.open && self.comp.count > 0 {
            self.closed.push((self.comp.id, true));
        }
    }
    /// small key for state counting (slot fill classes rather than exact bytes)
    pub fn key(&self) -> String {
        format!(
            "r{}:{}:{} c{}:{}:{} n{} k{}",
            self.raw.open as u8, self.raw.count, self.raw.bytes, self.comp.open as u8, self.comp.count, self.comp.bytes,
            self.next_cluster, self.contents
        )
    }
}

// ------------------------------------------------------------------ progress recorder

#[derive(Default)]
pub struct Recorder {
    pub new_clusters: Mutex<Vec<(u32, bool)>>,
    pub written: Mutex<Vec<u32>>,
}
impl jbk::creator::Progress for Recorder {
    fn new_cluster(&self, idx: u32, compressed: bool) {
        self.new_clusters.lock().unwrap().push((idx, compressed));
    }
    fn handle_cluster_written(&self, idx: u32) {
        self.written.lock().unwrap().push(idx);
    }
}

struct NoEntries;
impl jbk::creator::EntryStoreTrait for NoEntries {
    fn finalize(self: Box<Self>, _directory_pack: &mut jbk::creator::DirectoryPackCreator) {}
}

/// An entry store listing every content address (so that OneFile/TwoFiles/NoConcat containers
/// also carry a directory with something in it).
pub struct AddrEntries(pub Vec<jbk::ContentAddress>);
impl jbk::creator::EntryStoreTrait for AddrEntries {
    fn finalize(self: Box<Self>, directory_pack: &mut jbk::creator::DirectoryPackCreator) {
        use jbk::creator::schema;
        let schema = schema::Schema::<&'static str, &'static str>::new(
            schema::CommonProperties::new(vec![
                schema::Property::new_content_address("content"),
                schema::Property::new_uint("n"),
            ]),
            vec![],
            None,
        );
        let mut store = Box::new(jbk::creator::EntryStore::new(schema, None));
        for (i, a) in self.0.iter().enumerate() {
            store.add_entry(jbk::creator::BasicEntry::new_from_schema(
                &store.schema,
                None,
                std::collections::HashMap::from([
                    ("content", jbk::Value::Content(*a)),
                    ("n", jbk::Value::Unsigned(i as u64)),
                ]),
            ));
        }
        let n = self.0.len() as u32;
        let id = directory_pack.add_entry_store(store);
        directory_pack.create_index("contents", Default::default(), 0.into(), id, n.into(), jbk::EntryIdx::from(0).into());
    }
}

pub const VENDOR: [u8; 4] = [0x6a, 0x6d, 0x63, 0x01];

fn make_reader(item: &Item, bytes: &[u8], dir: &Path, n: usize) -> std::io::Result<Box<dyn InputReader>> {
    Ok(match item.src {
        Src::Memory => Box::new(std::io::Cursor::new(bytes.to_vec())),
        Src::FileWhole => {
            let p = dir.join(format!("in{n}.bin"));
            std::fs::write(&p, bytes)?;
            Box::new(jbk::creator::InputFile::open(&p)?)
        }
        Src::FileRange => {
            let p = dir.join(format!("in{n}.bin"));
            let mut all = payload(37, Entropy::High, 77);
            all.extend_from_slice(bytes);
            all.extend_from_slice(&payload(53, Entropy::High, 78));
            std::fs::write(&p, &all)?;
            Box::new(jbk::creator::InputFile::new_range(std::fs::File::open(&p)?, 37, Some(bytes.len() as u64))?)
        }
    })
}

pub struct Created {
    /// entry-point file (bare content pack, or the container / manifest file)
    pub path: PathBuf,
    /// address returned per inserted item
    pub addrs: Vec<(u16, u32)>,
    /// new_cluster callbacks in order
    pub new_clusters: Vec<(u32, bool)>,
    /// handle_cluster_written callbacks in order
    pub written: Vec<u32>,
}

/// Drive the real creator with the scenario. Errors/panics are reported as Err(text).
pub fn create(sc: &Scenario, dir: &Path) -> Result<Created, String> {
    let rec = Arc::new(Recorder::default());
    let items = sc.all_items();
    let mut addrs = vec![];
    let r = crate::catch(|| -> Result<PathBuf, String> {
        let add_all = |adder: &mut dyn ContentAdder, addrs: &mut Vec<(u16, u32)>| -> Result<(), String> {
            for (n, it) in items.iter().enumerate() {
                let bytes = it.bytes();
                let reader = make_reader(it, &bytes, dir, n).map_err(|e| format!("input: {e}"))?;
                let a = adder
                    .add_content(reader, it.hint.to_jbk())
                    .map_err(|e| format!("add_content #{n}: {e}"))?;
                addrs.push((a.pack_id.into_u16(), a.content_id.into_u32()));
            }
            Ok(())
        };
        match sc.packaging {
            Packaging::Bare => {
                let path = dir.join("pack.jbkc");
                let p = camino::Utf8PathBuf::from_path_buf(path.clone()).unwrap();
                let creator = jbk::creator::ContentPackCreator::new_with_progress(
                    &p,
                    jbk::PackId::from(1),
                    jbk::VendorId::from(VENDOR),
                    Default::default(),
                    sc.comp.to_jbk(),
                    rec.clone(),
                )
                .map_err(|e| format!("creator: {e}"))?;
                let creator = if sc.cached {
                    let mut cached = jbk::creator::CachedContentAdder::new(creator, Rc::new(()));
                    add_all(&mut cached, &mut addrs)?;
                    cached.into_inner()
                } else {
                    let mut c = creator;
                    add_all(&mut c, &mut addrs)?;
                    c
                };
                creator.finalize().map_err(|e| format!("finalize: {e}"))?;
                Ok(path)
            }
            mode => {
                let path = dir.join("out.jbk");
                let p = camino::Utf8PathBuf::from_path_buf(path.clone()).unwrap();
                let cm = match mode {
                    Packaging::OneFile => ConcatMode::OneFile,
                    Packaging::TwoFiles => ConcatMode::TwoFiles,
                    _ => ConcatMode::NoConcat,
                };
                let creator = jbk::creator::BasicCreator::new(&p, cm, jbk::VendorId::from(VENDOR), sc.comp.to_jbk(), rec.clone())
                    .map_err(|e| format!("creator: {e}"))?;
                let creator = if sc.cached {
                    let mut cached = jbk::creator::CachedContentAdder::new(creator, Rc::new(()));
                    add_all(&mut cached, &mut addrs)?;
                    cached.into_inner()
                } else {
                    let mut c = creator;
                    add_all(&mut c, &mut addrs)?;
                    c
                };
                let entries = AddrEntries(
                    addrs
                        .iter()
                        .map(|(p, c)| jbk::ContentAddress::new(jbk::PackId::from(*p), jbk::ContentIdx::from(*c)))
                        .collect(),
                );
                creator.finalize(Box::new(entries), vec![]).map_err(|e| format!("finalize: {e}"))?;
                Ok(path)
            }
        }
    });
    let _ = NoEntries;
    let path = match r {
        Ok(Ok(p)) => p,
        Ok(Err(e)) => return Err(e),
        Err(p) => return Err(format!("panic {p}")),
    };
    let new_clusters = rec.new_clusters.lock().unwrap().clone();
    let written = rec.written.lock().unwrap().clone();
    Ok(Created { path, addrs, new_clusters, written })
}

/// Read everything of a ByteRegion through its stream.
pub fn read_region(r: &jbk::reader::ByteRegion) -> Result<Vec<u8>, String> {
    let mut v = Vec::with_capacity(r.size().into_u64() as usize);
    r.stream().read_to_end(&mut v).map_err(|e| format!("{e}"))?;
    Ok(v)
}

pub enum Opened {
    Bare(jbk::reader::ContentPack),
    Container(jbk::reader::Container),
}

pub fn open(path: &Path, packaging: Packaging) -> Result<Opened, String> {
    match packaging {
        Packaging::Bare => {
            let fs = jbk::FileSource::open(path).map_err(|e| format!("{e}"))?;
            Ok(Opened::Bare(
                jbk::reader::ContentPack::new(jbk::Reader::from(fs)).map_err(|e| format!("{e}"))?,
            ))
        }
        _ => Ok(Opened::Container(
            jbk::reader::Container::new(path).map_err(|e| format!("{e}"))?,
        )),
    }
}

pub enum Got {
    Bytes(Vec<u8>),
    NoSuchContent,
    NoSuchPack,
    Missing,
}

impl Opened {
    pub fn get(&self, pack: u16, content: u32) -> Result<Got, String> {
        match self {
            Opened::Bare(p) => {
                if pack != 1 {
                    return Ok(Got::NoSuchPack);
                }
                match p.get_content(jbk::ContentIdx::from(content)).map_err(|e| format!("{e}"))? {
                    None => Ok(Got::NoSuchContent),
                    Some(r) => Ok(Got::Bytes(read_region(&r)?)),
                }
            }
            Opened::Container(c) => {
                let a = jbk::ContentAddress::new(jbk::PackId::from(pack), jbk::ContentIdx::from(content));
                match c.get_bytes(a).map_err(|e| format!("{e}"))? {
                    None => Ok(Got::NoSuchPack),
                    Some(MayMissPack::MISSING(_)) => Ok(Got::Missing),
                    Some(MayMissPack::FOUND(None)) => Ok(Got::NoSuchContent),
                    Some(MayMissPack::FOUND(Some(r))) => Ok(Got::Bytes(read_region(&r)?)),
                }
            }
        }
    }
    pub fn content_count(&self) -> Result<u32, String> {
        match self {
            Opened::Bare(p) => Ok(p.get_content_count().into_u32()),
            Opened::Container(c) => match c.get_pack(jbk::PackId::from(1)).map_err(|e| format!("{e}"))? {
                Some(MayMissPack::FOUND(p)) => Ok(p.get_content_count().into_u32()),
                Some(MayMissPack::MISSING(_)) => Err("content pack MISSING".into()),
                None => Err("no pack 1".into()),
            },
        }
    }
    pub fn check(&self) -> Result<bool, String> {
        use jbk::Pack;
        match self {
            Opened::Bare(p) => p.check().map_err(|e| format!("{e}")),
            Opened::Container(c) => c.check().map_err(|e| format!("{e}")),
        }
    }
}
