//! viewmc — all views of a stored content agree (C13): every chain of nested cuts (depth <= 3),
//! every conversion path, every composition of the length into read sizes, on every source kind,
//! with the payload never at offset 0 of its source.

use jbkmc::gen::*;
use jbkmc::packs::*;
use jbkmc::{Args, Report};
use jubako as jbk;
use jbk::reader::ByteRegion;
use serde_json::{json, Value as J};
use std::io::Read;

#[derive(Clone, Copy, Debug, PartialEq)]
enum SourceKind {
    Vec,
    FileUncut,
    FileCutSmall,
    FileCutMmap,
    DecoderIdentity,
    DecoderZstd,
    /// hook-free: content number 2 of a raw cluster, through Container::get_bytes
    ContainerRaw,
    /// hook-free: content number 2 of a compressed cluster
    ContainerComp,
}

const KINDS: [SourceKind; 8] = [
    SourceKind::Vec,
    SourceKind::FileUncut,
    SourceKind::FileCutSmall,
    SourceKind::FileCutMmap,
    SourceKind::DecoderIdentity,
    SourceKind::DecoderZstd,
    SourceKind::ContainerRaw,
    SourceKind::ContainerComp,
];

fn payload_bytes(len: usize) -> Vec<u8> {
    (0..len).map(|i| (0x41 + (i * 7) % 50) as u8).collect()
}

/// Build a region whose bytes are `payload`, located at a non-zero offset of a source of `kind`.
fn make_region(kind: SourceKind, payload: &[u8], dir: &std::path::Path, at_end: bool) -> Result<ByteRegion, String> {
    let lead = jbkmc::gen::payload(11, Entropy::High, 1);
    // `at_end`: the payload is the last thing in its source (nothing follows it)
    let trail = if at_end { vec![] } else { jbkmc::gen::payload(9, Entropy::High, 2) };
    let mut all = lead.clone();
    all.extend_from_slice(payload);
    all.extend_from_slice(&trail);
    let k = lead.len() as u64;
    let l = payload.len() as u64;
    match kind {
        SourceKind::Vec => Ok(jbk::verif::region_in_vec(all, k, l)),
        SourceKind::FileUncut => {
            let p = dir.join("plain.bin");
            std::fs::write(&p, &all).map_err(|e| e.to_string())?;
            jbk::verif::region_in_file(&p, k, l).map_err(|e| e.to_string())
        }
        SourceKind::FileCutSmall => {
            let p = dir.join("small.bin");
            let mut f = vec![0xEEu8; 100];
            f.extend_from_slice(&all);
            if !at_end {
                f.extend_from_slice(&[0xDD; 50]);
            }
            std::fs::write(&p, &f).map_err(|e| e.to_string())?;
            jbk::verif::region_in_file_cut(&p, 100, all.len() as u64, k, l).map_err(|e| e.to_string())
        }
        SourceKind::FileCutMmap => {
            let p = dir.join("mmap.bin");
            let mut f = vec![0xEEu8; 100];
            let mut cut = vec![0xCCu8; 4500];
            cut.extend_from_slice(&all);
            if !at_end {
                cut.extend_from_slice(&[0xBB; 700]);
            }
            f.extend_from_slice(&cut);
            if !at_end {
                f.extend_from_slice(&[0xDD; 50]);
            }
            std::fs::write(&p, &f).map_err(|e| e.to_string())?;
            jbk::verif::region_in_file_cut(&p, 100, cut.len() as u64, 4500 + k, l).map_err(|e| e.to_string())
        }
        SourceKind::DecoderIdentity => {
            let total = all.len();
            Ok(jbk::verif::region_in_decoder(std::io::Cursor::new(all), total, k, l))
        }
        SourceKind::DecoderZstd => {
            let total = all.len();
            let compressed = zstd::encode_all(&all[..], 3).map_err(|e| e.to_string())?;
            let dec = zstd::Decoder::new(std::io::Cursor::new(compressed)).map_err(|e| e.to_string())?;
            Ok(jbk::verif::region_in_decoder(dec, total, k, l))
        }
        SourceKind::ContainerRaw | SourceKind::ContainerComp => {
            let comp = kind == SourceKind::ContainerComp;
            let hint = if comp { Hint::Yes } else { Hint::No };
            let p = dir.join(if comp { "c.jbkc" } else { "r.jbkc" });
            let up = camino::Utf8PathBuf::from_path_buf(p.clone()).unwrap();
            let mut c = jbk::creator::ContentPackCreator::new(&up, jbk::PackId::from(1), jbk::VendorId::from(VENDOR), Default::default(), Comp::Zstd(3).to_jbk())
                .map_err(|e| e.to_string())?;
            let mut blobs = vec![lead.clone(), payload.to_vec()];
            if !at_end {
                blobs.push(trail.clone());
            }
            for b in blobs {
                c.add_content(Box::new(std::io::Cursor::new(b)), hint.to_jbk()).map_err(|e| e.to_string())?;
            }
            c.finalize().map_err(|e| e.to_string())?;
            let pack = jbk::reader::ContentPack::new(jbk::Reader::from(jbk::FileSource::open(&p).map_err(|e| e.to_string())?)).map_err(|e| e.to_string())?;
            pack.get_content(jbk::ContentIdx::from(1)).map_err(|e| e.to_string())?.ok_or_else(|| "no content 1".to_string())
        }
    }
}

struct Fail {
    key: String,
    what: String,
}

fn check_stream(mut s: jbk::reader::ByteStream, want: &[u8], parts: &[usize], label: &str) -> Result<(), Fail> {
    let total = want.len() as u64;
    let f = |k: &str, w: String| Fail { key: format!("{label}: {k}"), what: w };
    if s.size() != total {
        return Err(f("stream size()", format!("size() = {} for a view of {total} bytes", s.size())));
    }
    let mut consumed = 0usize;
    // a read into an empty buffer returns 0 and moves nothing, wherever it is issued
    let empty_read = |s: &mut jbk::reader::ByteStream, consumed: usize| -> Result<(), Fail> {
        match s.read(&mut []) {
            Ok(0) => {}
            Ok(n) => return Err(f("zero-length read returns bytes", format!("{n} bytes into an empty buffer after {consumed} bytes"))),
            Err(e) => return Err(f("zero-length read fails", format!("{e} after {consumed} bytes"))),
        }
        if s.offset() != consumed as u64 || s.size_left() != total - consumed as u64 || s.size() != total {
            return Err(f(
                "zero-length read moves the stream",
                format!("after {consumed} bytes and an empty read: offset()={} size_left()={} size()={} (view of {total})", s.offset(), s.size_left(), s.size()),
            ));
        }
        Ok(())
    };
    for &p in parts {
        empty_read(&mut s, consumed)?;
        // ask for p bytes; a read may return less, continue until p bytes arrived
        let mut got = 0;
        let mut buf = vec![0u8; p];
        while got < p {
            let n = s.read(&mut buf[got..]).map_err(|e| f("stream read error", format!("{e} after {consumed} bytes")))?;
            if n == 0 {
                return Err(f("stream ends early", format!("read returned 0 after {} of {total} bytes", consumed + got)));
            }
            got += n;
            if s.offset() != (consumed + got) as u64 || s.size_left() != total - (consumed + got) as u64 || s.size() != total {
                return Err(f(
                    "stream offset()/size_left()/size() inconsistent",
                    format!("after {} bytes: offset()={} size_left()={} size()={} (view of {total})", consumed + got, s.offset(), s.size_left(), s.size()),
                ));
            }
        }
        if buf != want[consumed..consumed + p] {
            return Err(f("stream yields other bytes", format!("bytes [{consumed},{}) read {:02x?}, expected {:02x?}", consumed + p, &buf[..p.min(16)], &want[consumed..(consumed + p).min(consumed + 16)])));
        }
        consumed += p;
    }
    empty_read(&mut s, consumed)?;
    let _ = consumed;
    // over-long read at the end
    let mut extra = [0u8; 5];
    match s.read(&mut extra) {
        Ok(0) => {}
        Ok(n) => return Err(f("stream reads past the end of the view", format!("{n} more bytes after the {total} of the view: {:02x?}", &extra[..n]))),
        Err(e) => return Err(f("stream read error at the end", e.to_string())),
    }
    if s.offset() != total || s.size_left() != 0 {
        return Err(f("stream offset()/size_left() at the end", format!("offset()={} size_left()={}", s.offset(), s.size_left())));
    }
    Ok(())
}

/// The same walk through the other entry points of `Read`: every part but the last with
/// `read_exact`, the rest with `read_to_end`; then `read_exact` past the end must fail.
fn check_stream_exact(mut s: jbk::reader::ByteStream, want: &[u8], parts: &[usize], label: &str) -> Result<(), Fail> {
    let total = want.len() as u64;
    let f = |k: &str, w: String| Fail { key: format!("{label}: {k}"), what: w };
    let mut consumed = 0usize;
    let (last, head) = match parts.split_last() {
        Some(x) => x,
        None => return Ok(()),
    };
    for &p in head {
        let mut buf = vec![0u8; p];
        s.read_exact(&mut buf).map_err(|e| f("read_exact fails inside the view", format!("{e} at {consumed}+{p} of {total}")))?;
        if buf != want[consumed..consumed + p] {
            return Err(f("read_exact yields other bytes", format!("bytes [{consumed},{})", consumed + p)));
        }
        consumed += p;
        if s.offset() != consumed as u64 || s.size_left() != total - consumed as u64 {
            return Err(f("stream offset()/size_left() inconsistent after read_exact", format!("after {consumed} bytes: offset()={} size_left()={}", s.offset(), s.size_left())));
        }
    }
    let mut rest = vec![];
    let n = s.read_to_end(&mut rest).map_err(|e| f("read_to_end fails", format!("{e} after {consumed} of {total} bytes")))?;
    if n != rest.len() || n != *last || rest != want[consumed..] {
        return Err(f("read_to_end after earlier reads yields something else than the rest of the view", format!("after {consumed} bytes: returned {n} bytes, {} were left", total as usize - consumed)));
    }
    if s.offset() != total || s.size_left() != 0 {
        return Err(f("stream offset()/size_left() at the end (read_to_end)", format!("offset()={} size_left()={}", s.offset(), s.size_left())));
    }
    let mut one = [0u8; 1];
    if s.read_exact(&mut one).is_ok() {
        return Err(f("read_exact succeeds past the end of the view", format!("byte {:02x}", one[0])));
    }
    Ok(())
}

/// All checks on one view given as a ByteSlice-producing closure chain. `want` = model bytes.
fn check_view(region: &ByteRegion, chain: &[(usize, usize)], base: &[u8], comps_cap: usize) -> Result<u64, Fail> {
    let mut checks = 0u64;
    // model range
    let mut lo = 0usize;
    let mut len = base.len();
    for &(o, s) in chain {
        lo += o;
        len = s;
    }
    let want = &base[lo..lo + len];
    let label = format!("depth {}", chain.len());
    let fail = |k: &str, w: String| Fail { key: format!("{label}: {k}"), what: w };
    // build the view
    let slice0 = region.as_slice();
    let s1;
    let s2;
    let s3;
    let view: &jbk::reader::ByteSlice = match chain.len() {
        0 => &slice0,
        1 => {
            s1 = region.cut(jbk::Offset::new(chain[0].0 as u64), jbk::Size::new(chain[0].1 as u64));
            &s1
        }
        2 => {
            s1 = region.cut(jbk::Offset::new(chain[0].0 as u64), jbk::Size::new(chain[0].1 as u64));
            s2 = s1.cut(jbk::Offset::new(chain[1].0 as u64), jbk::Size::new(chain[1].1 as u64));
            &s2
        }
        _ => {
            s1 = region.cut(jbk::Offset::new(chain[0].0 as u64), jbk::Size::new(chain[0].1 as u64));
            s2 = s1.cut(jbk::Offset::new(chain[1].0 as u64), jbk::Size::new(chain[1].1 as u64));
            s3 = s2.cut(jbk::Offset::new(chain[2].0 as u64), jbk::Size::new(chain[2].1 as u64));
            &s3
        }
    };
    if view.size().into_u64() != len as u64 {
        return Err(fail("size()", format!("slice size() = {} expected {len}", view.size().into_u64())));
    }
    // every sub-range through get_slice on the slice and on the converted region
    let as_region: ByteRegion = view.clone().into();
    if as_region.size().into_u64() != len as u64 {
        return Err(fail("size() after conversion", format!("region size() = {}", as_region.size().into_u64())));
    }
    for o in 0..=len {
        for n in 0..=(len - o) {
            let a = view.get_slice(jbk::Offset::new(o as u64), n).map_err(|e| fail("get_slice error", format!("slice.get_slice({o},{n}): {e}")))?;
            if &a[..] != &want[o..o + n] {
                return Err(fail("get_slice yields other bytes", format!("slice.get_slice({o},{n}) = {:02x?} expected {:02x?}", &a[..], &want[o..o + n])));
            }
            let b = as_region.get_slice(jbk::Offset::new(o as u64), n).map_err(|e| fail("get_slice error", format!("region.get_slice({o},{n}): {e}")))?;
            if &b[..] != &want[o..o + n] {
                return Err(fail("get_slice (converted region) yields other bytes", format!("({o},{n}) = {:02x?}", &b[..])));
            }
            checks += 2;
        }
    }
    // streams through every conversion path x every composition of the length
    let comps = compositions(len);
    for (ci, parts) in comps.iter().enumerate() {
        if ci >= comps_cap {
            break;
        }
        check_stream(view.stream(), want, parts, &format!("{label} slice.stream()"))?;
        check_stream(as_region.stream(), want, parts, &format!("{label} region.stream()"))?;
        check_stream(jbk::reader::ByteStream::from(as_region.clone()), want, parts, &format!("{label} ByteStream::from(region)"))?;
        check_stream(as_region.as_slice().stream(), want, parts, &format!("{label} region.as_slice().stream()"))?;
        check_stream_exact(view.stream(), want, parts, &format!("{label} slice.stream()"))?;
        check_stream_exact(jbk::reader::ByteStream::from(as_region.clone()), want, parts, &format!("{label} ByteStream::from(region)"))?;
        checks += 6;
    }
    Ok(checks)
}

/// A scripted decoder: the first `fast` bytes come at once, every later `read` call first sleeps.
/// The environment answer "the decoder is slower than the reader", made deterministic.
struct SlowReader {
    data: std::io::Cursor<Vec<u8>>,
    fast: usize,
    delay: std::time::Duration,
}
impl Read for SlowReader {
    fn read(&mut self, buf: &mut [u8]) -> std::io::Result<usize> {
        let pos = self.data.position() as usize;
        if pos >= self.fast {
            std::thread::sleep(self.delay);
            let n = buf.len().min(1500);
            return self.data.read(&mut buf[..n]);
        }
        let n = buf.len().min(self.fast - pos);
        self.data.read(&mut buf[..n])
    }
}

/// Fresh background-decoded region over `lead + payload + trail` whose decoder stalls after 4096 bytes.
fn slow_decoder_region(payload: &[u8]) -> ByteRegion {
    let mut all = jbkmc::gen::payload(11, Entropy::High, 1);
    all.extend_from_slice(payload);
    all.extend_from_slice(&jbkmc::gen::payload(9, Entropy::High, 2));
    let total = all.len();
    let dec = SlowReader { data: std::io::Cursor::new(all), fast: 4096, delay: std::time::Duration::from_millis(25) };
    jbk::verif::region_in_decoder(dec, total, 11, payload.len() as u64)
}

/// A content that is alone in its compressed cluster: the whole decoded source is 1..9 bytes
/// (smaller than any chunk the background decoder works with), for the three codecs.
fn alone_tier(rep: &mut Report, dir: &std::path::Path, profile: &str) {
    for (cname, comp) in [("zstd", Comp::Zstd(3)), ("lz4", Comp::Lz4(3)), ("lzma", Comp::Lzma(1))] {
        for l in 1..=9usize {
            let payload = payload_bytes(l);
            let built = jbkmc::catch(|| -> Result<ByteRegion, String> {
                let p = dir.join(format!("alone-{cname}-{l}.jbkc"));
                let up = camino::Utf8PathBuf::from_path_buf(p.clone()).unwrap();
                let mut c = jbk::creator::ContentPackCreator::new(&up, jbk::PackId::from(1), jbk::VendorId::from(VENDOR), Default::default(), comp.to_jbk()).map_err(|e| e.to_string())?;
                c.add_content(Box::new(std::io::Cursor::new(payload.clone())), Hint::Yes.to_jbk()).map_err(|e| e.to_string())?;
                c.finalize().map_err(|e| e.to_string())?;
                let pack = jbk::reader::ContentPack::new(jbk::Reader::from(jbk::FileSource::open(&p).map_err(|e| e.to_string())?)).map_err(|e| e.to_string())?;
                pack.get_content(jbk::ContentIdx::from(0)).map_err(|e| e.to_string())?.ok_or_else(|| "no content 0".to_string())
            });
            let region = match built {
                Ok(Ok(r)) => r,
                Ok(Err(e)) => {
                    rep.violation(&format!("C13 a content alone in its compressed cluster cannot be obtained [{cname}]"), &format!("L={l}: {e}"), json!({"engine":"viewmc","source":"ContainerCompAlone","codec":cname,"L":l,"profile":profile}));
                    continue;
                }
                Err(p) => {
                    rep.violation(&format!("C13 panic {} [ContainerCompAlone]", jbkmc::panic_site(&p)), &p, json!({"engine":"viewmc","source":"ContainerCompAlone","codec":cname,"L":l,"profile":profile}));
                    continue;
                }
            };
            for chain in chains(l, 2) {
                let case = json!({"engine":"viewmc","source":"ContainerCompAlone","codec":cname,"L":l,"chain":chain,"profile":profile});
                let _g = jbkmc::watchdog::guard(|| case.to_string());
                let id = format!("ContainerCompAlone:{cname}:{l}:{chain:?}");
                match jbkmc::catch(|| check_view(&region, &chain, &payload, usize::MAX)) {
                    Ok(Ok(_)) => rep.case(Some(&id), "agree(alone in a compressed cluster)"),
                    Ok(Err(f)) => {
                        rep.case(Some(&id), "violation");
                        rep.violation(&format!("C13 {} [ContainerCompAlone]", f.key), &f.what, case);
                    }
                    Err(p) => {
                        rep.case(Some(&id), "panic");
                        rep.violation(&format!("C13 panic {} [ContainerCompAlone]", jbkmc::panic_site(&p)), &p, case);
                    }
                }
            }
        }
    }
}

/// A content far into its cluster: blob number 2050 and 4094 (the last possible one) of a raw and
/// of a compressed cluster whose other blobs hold one byte each.
fn deep_tier(rep: &mut Report, dir: &std::path::Path, profile: &str) {
    for (cname, hint) in [("raw", Hint::No), ("zstd", Hint::Yes)] {
        for at in [2050usize, 4094] {
            let l = 6usize;
            let payload = payload_bytes(l);
            let built = jbkmc::catch(|| -> Result<ByteRegion, String> {
                let p = dir.join(format!("deep-{cname}-{at}.jbkc"));
                let up = camino::Utf8PathBuf::from_path_buf(p.clone()).unwrap();
                let mut c = jbk::creator::ContentPackCreator::new(&up, jbk::PackId::from(1), jbk::VendorId::from(VENDOR), Default::default(), Comp::Zstd(3).to_jbk()).map_err(|e| e.to_string())?;
                for i in 0..4095usize {
                    let b = if i == at { payload.clone() } else { vec![(i % 251) as u8] };
                    c.add_content(Box::new(std::io::Cursor::new(b)), hint.to_jbk()).map_err(|e| e.to_string())?;
                }
                c.finalize().map_err(|e| e.to_string())?;
                let pack = jbk::reader::ContentPack::new(jbk::Reader::from(jbk::FileSource::open(&p).map_err(|e| e.to_string())?)).map_err(|e| e.to_string())?;
                pack.get_content(jbk::ContentIdx::from(at as u32)).map_err(|e| e.to_string())?.ok_or_else(|| "no such content".to_string())
            });
            let src = format!("ContainerDeep({cname}, blob {at})");
            let region = match built {
                Ok(Ok(r)) => r,
                Ok(Err(e)) => {
                    rep.violation(&format!("C13 a content far into its cluster cannot be obtained [{cname}]"), &format!("blob {at}: {e}"), json!({"engine":"viewmc","source":src,"profile":profile}));
                    continue;
                }
                Err(p) => {
                    rep.violation(&format!("C13 panic {} [ContainerDeep]", jbkmc::panic_site(&p)), &p, json!({"engine":"viewmc","source":src,"profile":profile}));
                    continue;
                }
            };
            for chain in chains(l, 2) {
                let case = json!({"engine":"viewmc","source":src,"L":l,"chain":chain,"profile":profile});
                let _g = jbkmc::watchdog::guard(|| case.to_string());
                let id = format!("{src}:{chain:?}");
                match jbkmc::catch(|| check_view(&region, &chain, &payload, usize::MAX)) {
                    Ok(Ok(_)) => rep.case(Some(&id), "agree(blob far into its cluster)"),
                    Ok(Err(f)) => {
                        rep.case(Some(&id), "violation");
                        rep.violation(&format!("C13 {} [ContainerDeep]", f.key), &f.what, case);
                    }
                    Err(p) => {
                        rep.case(Some(&id), "panic");
                        rep.violation(&format!("C13 panic {} [ContainerDeep]", jbkmc::panic_site(&p)), &p, case);
                    }
                }
            }
        }
    }
}

/// First access to a still-decoding source is a stream/slice deep in the data.
fn slow_decoder_tier(rep: &mut Report, profile: &str) {
    let l = 9000;
    let payload = payload_bytes(l);
    // (offset, size, first access)
    let views: Vec<(usize, usize, &str)> = vec![
        (4200, 300, "stream"),
        (4086, 20, "stream"),
        (8990, 10, "stream"),
        (0, 9000, "stream-small-reads"),
        (4200, 300, "get_slice"),
        (8191, 2, "get_slice"),
        (4100, 100, "from-region"),
    ];
    for (o, n, how) in views {
        let case = json!({"engine":"viewmc","source":"DecoderSlow","L":l,"chain":[[o,n]],"first_access":how,"profile":profile});
        let _g = jbkmc::watchdog::guard(|| case.to_string());
        let want = &payload[o..o + n];
        let r = jbkmc::catch(|| -> Result<(), Fail> {
            let region = slow_decoder_region(&payload);
            let view = region.cut(jbk::Offset::new(o as u64), jbk::Size::new(n as u64));
            match how {
                "stream" => check_stream(view.stream(), want, &[n], "slow decoder, stream first"),
                "stream-small-reads" => check_stream(view.stream(), want, &vec![600; n / 600], "slow decoder, small reads from the start"),
                "from-region" => {
                    let r: ByteRegion = view.into();
                    check_stream(jbk::reader::ByteStream::from(r), want, &[n / 2, n - n / 2], "slow decoder, ByteStream::from first")
                }
                _ => {
                    let a = view.get_slice(jbk::Offset::zero(), n).map_err(|e| Fail { key: "slow decoder: get_slice error".into(), what: e.to_string() })?;
                    if &a[..] != want {
                        return Err(Fail { key: "slow decoder: get_slice yields other bytes".into(), what: format!("({o},{n})") });
                    }
                    Ok(())
                }
            }
        });
        let id = format!("DecoderSlow:{o}:{n}:{how}");
        match r {
            Ok(Ok(())) => rep.case(Some(&id), "agree(slow decoder)"),
            Ok(Err(f)) => {
                rep.case(Some(&id), "violation");
                rep.violation(&format!("C13 {} [DecoderSlow]", f.key), &f.what, case);
            }
            Err(p) => {
                rep.case(Some(&id), "panic");
                rep.violation(&format!("C13 panic {} [DecoderSlow]", jbkmc::panic_site(&p)), &p, case);
            }
        }
    }
}

/// A decoder that delivers `good` bytes and then fails (an error, or a premature end of its
/// stream): whatever the views of the content answer must still agree — every view of a range
/// gives exactly the bytes of that range or an error, the same ranges are readable through every
/// view, and a stream that got an error has delivered (and counts) nothing for it.
struct FailReader {
    data: std::io::Cursor<Vec<u8>>,
    good: usize,
    eof: bool,
}

impl Read for FailReader {
    fn read(&mut self, buf: &mut [u8]) -> std::io::Result<usize> {
        let pos = self.data.position() as usize;
        if pos >= self.good {
            return if self.eof { Ok(0) } else { Err(std::io::Error::new(std::io::ErrorKind::InvalidData, "scripted decoder failure")) };
        }
        let n = buf.len().min(self.good - pos);
        self.data.read(&mut buf[..n])
    }
}

fn failing_decoder_tier(rep: &mut Report, profile: &str) {
    let l = 20_000usize;
    let payload = payload_bytes(l);
    let lead = 11usize;
    let ranges: Vec<(usize, usize)> = vec![(0, 10), (0, 4000), (4000, 200), (8000, 181), (8100, 200), (12_000, 1), (0, l), (l - 10, 10)];
    for good in [0usize, 5, 4096, 8192, 8192 + 2000, 16_384 + 5] {
        for eof in [false, true] {
            let case = json!({"engine":"viewmc","source":"DecoderFailing","L":l,"good_bytes":good,"ends":if eof {"early end of stream"} else {"error"},"profile":profile});
            let _g = jbkmc::watchdog::guard(|| case.to_string());
            let id = format!("DecoderFailing:{good}:{eof}");
            let r = jbkmc::catch(|| -> Result<usize, Fail> {
                let mut all = jbkmc::gen::payload(lead, Entropy::High, 1);
                all.extend_from_slice(&payload);
                all.extend_from_slice(&jbkmc::gen::payload(9, Entropy::High, 2));
                let total = all.len();
                let region = jbk::verif::region_in_decoder(FailReader { data: std::io::Cursor::new(all), good, eof }, total, lead as u64, l as u64);
                // wait for the decoder to give up: a read of the very last byte must fail
                let mut last = [0u8; 1];
                if region.cut(jbk::Offset::new(l as u64 - 1), jbk::Size::new(1)).stream().read_exact(&mut last).is_ok() {
                    return Err(Fail { key: "failing decoder: the last byte is delivered although the decoder never produced it".into(), what: format!("good={good}") });
                }
                let mut readable = 0usize;
                for (o, n) in &ranges {
                    let (o, n) = (*o, *n);
                    let want = &payload[o..o + n];
                    // view 1: slice of the region
                    let v1 = region.get_slice(jbk::Offset::new(o as u64), n).map(|c| c.to_vec()).map_err(|e| e.to_string());
                    // view 2: slice of a cut
                    let v2 = region.cut(jbk::Offset::new(o as u64), jbk::Size::new(n as u64)).get_slice(jbk::Offset::zero(), n).map(|c| c.to_vec()).map_err(|e| e.to_string());
                    // view 3: read_exact on the stream of the cut
                    let mut b3 = vec![0u8; n];
                    let v3 = region.cut(jbk::Offset::new(o as u64), jbk::Size::new(n as u64)).stream().read_exact(&mut b3).map(|_| b3).map_err(|e| e.to_string());
                    // view 4: stream of the region made from the cut, read to its end
                    let r4: ByteRegion = region.cut(jbk::Offset::new(o as u64), jbk::Size::new(n as u64)).into();
                    let mut b4 = vec![];
                    let v4 = jbk::reader::ByteStream::from(r4).read_to_end(&mut b4).map(|_| b4).map_err(|e| e.to_string());
                    let views = [("region.get_slice", &v1), ("cut.get_slice", &v2), ("cut.stream().read_exact", &v3), ("ByteStream::from(region).read_to_end", &v4)];
                    for (name, v) in &views {
                        if let Ok(bytes) = v {
                            if &bytes[..] != want {
                                return Err(Fail { key: format!("failing decoder: {name} answers Ok with something else than the bytes of the range"), what: format!("good={good} range ({o},{n}): {} bytes returned", bytes.len()) });
                            }
                        }
                    }
                    let oks = views.iter().filter(|(_, v)| v.is_ok()).count();
                    if oks != 0 && oks != views.len() {
                        let who: Vec<String> = views.iter().map(|(name, v)| format!("{name}: {}", if v.is_ok() { "Ok" } else { "Err" })).collect();
                        return Err(Fail { key: "failing decoder: the views of one range disagree on whether it can be read".into(), what: format!("good={good} range ({o},{n}): {}", who.join(", ")) });
                    }
                    if oks != 0 {
                        readable += 1;
                    }
                }
                // a stream that meets the failure: what it delivered before stays counted, the
                // failed read counts for nothing, and it can go on reading what is there
                let mut s = region.stream();
                let first = good.saturating_sub(lead).min(3000) / 2;
                let mut b = vec![0u8; first];
                if first > 0 {
                    s.read_exact(&mut b).map_err(|e| Fail { key: "failing decoder: bytes decoded before the failure cannot be streamed".into(), what: format!("good={good}: read_exact({first}): {e}") })?;
                    if b[..] != payload[..first] {
                        return Err(Fail { key: "failing decoder: stream yields other bytes".into(), what: format!("good={good} first {first} bytes") });
                    }
                }
                let mut rest = vec![0u8; l - first];
                let failed = s.read(&mut rest);
                match failed {
                    Err(_) => {
                        if s.offset() != first as u64 || s.size_left() != (l - first) as u64 {
                            return Err(Fail { key: "failing decoder: a failed read moves the stream".into(), what: format!("good={good}: after {first} bytes delivered and one failed read offset()={} size_left()={}", s.offset(), s.size_left()) });
                        }
                        if first > 0 {
                            // the bytes right after the delivered ones are there (first is half of what is)
                            let mut c = vec![0u8; first.min(10)];
                            s.read_exact(&mut c).map_err(|e| Fail { key: "failing decoder: the stream cannot go on after a failed read".into(), what: format!("good={good}: {e}") })?;
                            if c[..] != payload[first..first + c.len()] {
                                return Err(Fail { key: "failing decoder: stream yields other bytes after a failed read".into(), what: format!("good={good} at {first}") });
                            }
                        }
                    }
                    Ok(k) => {
                        if k == 0 || rest[..k] != payload[first..first + k] || s.offset() != (first + k) as u64 {
                            return Err(Fail { key: "failing decoder: a partial read yields other bytes or a wrong offset".into(), what: format!("good={good}: read returned {k}, offset()={}", s.offset()) });
                        }
                    }
                }
                Ok(readable)
            });
            match r {
                Ok(Ok(n)) => rep.case(Some(&id), if n > 1 { "agree(failing decoder, some ranges readable)" } else { "agree(failing decoder, nothing readable)" }),
                Ok(Err(f)) => {
                    rep.case(Some(&id), "violation");
                    rep.violation(&format!("C13 {} [DecoderFailing]", f.key), &f.what, case);
                }
                Err(p) => {
                    rep.case(Some(&id), "panic");
                    rep.violation(&format!("C13 panic {} [DecoderFailing]", jbkmc::panic_site(&p)), &p, case);
                }
            }
        }
    }
}

/// Two views of one file-backed source read alternately. Distances are taken around the
/// constants of the code (1024 = BufReader capacity, 4096 = chunk / mmap threshold).
fn interleave_tier(rep: &mut Report, dir: &std::path::Path, profile: &str, thorough: bool) {
    let l = 9000;
    let payload = payload_bytes(l);
    for kind in [SourceKind::FileUncut, SourceKind::ContainerRaw, SourceKind::ContainerComp, SourceKind::FileCutMmap, SourceKind::Vec] {
        let region = match jbkmc::catch(|| make_region(kind, &payload, dir, false)) {
            Ok(Ok(r)) => r,
            other => {
                rep.machinery_errors.push(format!("cannot build source {kind:?}: {:?}", other.map(|x| x.map(|_| ()))));
                continue;
            }
        };
        let ps: Vec<usize> = if thorough { vec![0, 1, 100, 1000] } else { vec![0, 100] };
        let ds: Vec<usize> = vec![0, 10, 1023, 1024, 1025, 2048, 4096];
        let rs: Vec<usize> = vec![1, 10, 1023, 1024];
        for &p in &ps {
            for &d in &ds {
                for &r1 in &rs {
                    for &r2 in &[1usize, 50, 1024] {
                        // all interleavings of two reads on A and two reads on B
                        for pattern in ["AABB", "ABAB", "ABBA", "BAAB", "BABA", "BBAA"] {
                            let case = json!({"engine":"viewmc","source":format!("{kind:?}"),"L":l,"interleave":{"p":p,"d":d,"r1":r1,"r2":r2,"pattern":pattern},"profile":profile});
                            let id = format!("{kind:?}:il:{p}:{d}:{r1}:{r2}:{pattern}");
                            let res = jbkmc::catch(|| -> Result<(), Fail> {
                                let a = region.cut(jbk::Offset::new(p as u64), jbk::Size::new(2 * r1 as u64));
                                let b = region.cut(jbk::Offset::new((p + d) as u64), jbk::Size::new(2 * r2 as u64));
                                let (mut sa, mut sb) = (a.stream(), b.stream());
                                let (mut ca, mut cb) = (0usize, 0usize);
                                for ch in pattern.chars() {
                                    let (s, c, base, r) = if ch == 'A' { (&mut sa, &mut ca, p, r1) } else { (&mut sb, &mut cb, p + d, r2) };
                                    let mut buf = vec![0u8; r];
                                    s.read_exact(&mut buf).map_err(|e| Fail { key: "interleaved views: read error".into(), what: e.to_string() })?;
                                    let want = &payload[base + *c..base + *c + r];
                                    if buf != want {
                                        let from = (0..l - r).find(|&i| payload[i..i + r] == buf[..]);
                                        return Err(Fail {
                                            key: "interleaved views: a stream yields bytes of another position".into(),
                                            what: format!("view {ch} at payload offset {} read {r} bytes that differ from the stored ones (they match payload offset {from:?})", base + *c),
                                        });
                                    }
                                    *c += r;
                                    if s.offset() != *c as u64 {
                                        return Err(Fail { key: "interleaved views: offset() inconsistent".into(), what: format!("offset()={} after {} bytes", s.offset(), *c) });
                                    }
                                }
                                Ok(())
                            });
                            match res {
                                Ok(Ok(())) => rep.case(Some(&id), "agree(interleaved)"),
                                Ok(Err(f)) => {
                                    rep.case(Some(&id), "violation");
                                    rep.violation(&format!("C13 {} [{kind:?}]", f.key), &f.what, case);
                                }
                                Err(pn) => {
                                    rep.case(Some(&id), "panic");
                                    rep.violation(&format!("C13 panic {} [{kind:?}]", jbkmc::panic_site(&pn)), &pn, case);
                                }
                            }
                        }
                    }
                }
            }
        }
    }
}

fn chains(l: usize, maxdepth: usize) -> Vec<Vec<(usize, usize)>> {
    let mut out = vec![vec![]];
    fn rec(cur: &mut Vec<(usize, usize)>, len: usize, depth: usize, maxdepth: usize, out: &mut Vec<Vec<(usize, usize)>>) {
        if depth == maxdepth {
            return;
        }
        for o in 0..=len {
            for s in 0..=(len - o) {
                cur.push((o, s));
                out.push(cur.clone());
                rec(cur, s, depth + 1, maxdepth, out);
                cur.pop();
            }
        }
    }
    rec(&mut vec![], l, 0, maxdepth, &mut out);
    out
}

fn main() {
    jbkmc::install_quiet_panic_hook();
    let args = Args::parse();
    let profile = if cfg!(debug_assertions) { "debug" } else { "release" };
    let mut rep = Report::new(
        "viewmc",
        "C13",
        "payloads of length L in 0..5 (quick) / 0..8 (thorough), never at offset 0 of their source, followed by other bytes or ending exactly at the end of the source, on 8 source kinds (Vec, file uncut, file cut <4 KiB, file cut >=4 KiB mmap, background decoder identity and zstd, content #2 of a raw and of a compressed cluster through the container API); every chain of nested cuts (o1,s1) >= (o2,s2) >= (o3,s3) up to depth 3; on every view: size(), get_slice of every sub-range on the slice and on the converted region, and 4 stream conversion paths x every composition of the length into read sizes with size()/offset()/size_left() after every read, a zero-length read before every read and at the end (returns 0, moves nothing) and an over-long read at the end, and the same walk with read_exact for every part but the last and read_to_end for the rest; plus one 5000-byte payload per source with a reduced cut set and one 70000-byte payload per source with slices and reads of 65535/65536/65537+ bytes on the region, a slice, a nested slice and the region made from it; one 6 MiB incompressible content stored compressed (stored cluster above 4 MiB) in a file-backed pack; contents of 1..9 bytes alone in a zstd/lz4/lzma cluster (cuts to depth 2); a 6-byte content as blob 2050 and 4094 of a raw and of a compressed cluster; a decoder scripted to stall after its first 4096 bytes with the first access deep in the data; a decoder scripted to fail (error / early end) after 0, 5, 4096, 8192, 10192 or 16389 bytes: every view of 8 ranges answers the bytes of the range or an error, all four views of a range agree on which, a failed stream read moves nothing and the stream goes on; two views of one source read alternately (all 6 interleavings of 2+2 reads) at distances {0,10,1023,1024,1025,2048,4096} x read sizes {1,10,1023,1024}; non-trivial = view of at least one byte; distinct by (source, L, chain)",
    );
    rep.extra.insert("profile".into(), json!(profile));
    let dir = jbkmc::scratch_dir("view");
    let t = args.thorough();
    let maxl = if t { 8 } else { 5 };
    let replay: Option<J> = args.replay.as_ref().map(|p| {
        let j: J = serde_json::from_str(&std::fs::read_to_string(p).expect("replay")).unwrap();
        if j.get("case").is_some() { j["case"].clone() } else { j }
    });
    let _wd_out = args.out.clone();
    jbkmc::watchdog::start("viewmc", "C13", "C13 a view does not terminate", std::time::Duration::from_secs(60), args.out.clone(), |c| json!({"engine":"viewmc","case":c}));
    for (kind, at_end) in KINDS.iter().flat_map(|k| [(*k, false), (*k, true)]) {
        for l in 0..=maxl {
            if let Some(r) = &replay {
                if r["source"] != json!(format!("{kind:?}")) || r["L"] != json!(l) || r["at_end"].as_bool().unwrap_or(false) != at_end {
                    continue;
                }
            }
            let payload = payload_bytes(l);
            let region = match jbkmc::catch(|| make_region(kind, &payload, dir.path(), at_end)) {
                Ok(Ok(r)) => r,
                Ok(Err(e)) => {
                    rep.machinery_errors.push(format!("cannot build source {kind:?}: {e}"));
                    continue;
                }
                Err(p) => {
                    rep.machinery_errors.push(format!("cannot build source {kind:?}: panic {p}"));
                    continue;
                }
            };
            for chain in chains(l, 3) {
                let case = json!({"engine": "viewmc", "source": format!("{kind:?}"), "at_end": at_end, "L": l, "chain": chain, "profile": profile});
                let _g = jbkmc::watchdog::guard(|| case.to_string());
                let last_len = chain.last().map(|c| c.1).unwrap_or(l);
                let r = jbkmc::catch(|| check_view(&region, &chain, &payload, usize::MAX));
                let id = format!("{kind:?}:{at_end}:{l}:{chain:?}");
                match r {
                    Ok(Ok(n)) => {
                        rep.case(if last_len > 0 { Some(&id) } else { None }, "agree");
                        rep.extra.insert("view_checks".into(), json!(rep.extra.get("view_checks").and_then(|x| x.as_u64()).unwrap_or(0) + n));
                    }
                    Ok(Err(f)) => {
                        rep.case(Some(&id), "violation");
                        rep.violation(&format!("C13 {} [{kind:?}]", f.key), &f.what, case.clone());
                    }
                    Err(p) => {
                        rep.case(Some(&id), "panic");
                        rep.violation(&format!("C13 panic {} [{kind:?}]", jbkmc::panic_site(&p)), &p, case.clone());
                    }
                }
                if rep.samples.len() < 4 && chain.len() == 3 && last_len >= 2 {
                    rep.sample(case);
                }
            }
        }
        // one payload above 64 KiB per source: slices and reads longer than 65535 bytes (16-bit size
        // limits anywhere on the way would show), on the region, on a slice and on a nested slice
        if replay.is_none() {
            let l = 70_000;
            let payload = payload_bytes(l);
            if let Ok(Ok(region)) = jbkmc::catch(|| make_region(kind, &payload, dir.path(), at_end)) {
                let r = jbkmc::catch(|| -> Result<u64, Fail> {
                    let mut n = 0u64;
                    let fail = |k: &str, w: String| Fail { key: format!("64 KiB+: {k}"), what: w };
                    let whole = region.as_slice();
                    let inner = region.cut(jbk::Offset::new(3), jbk::Size::new(l as u64 - 3));
                    let nested = inner.cut(jbk::Offset::new(2), jbk::Size::new(l as u64 - 10));
                    let as_region: ByteRegion = nested.clone().into();
                    for (o, len) in [(0usize, 65_535usize), (0, 65_536), (0, 65_537), (1, 65_536), (0, 69_990), (4_000, 66_000 - 10)] {
                        let views: Vec<(&str, usize, Result<std::borrow::Cow<[u8]>, jbk::Error>)> = vec![
                            ("region.get_slice", 0, region.get_slice(jbk::Offset::new(o as u64), len)),
                            ("slice.get_slice", 0, whole.get_slice(jbk::Offset::new(o as u64), len)),
                            ("cut.get_slice", 3, inner.get_slice(jbk::Offset::new(o as u64), len)),
                            ("cut.cut.get_slice", 5, nested.get_slice(jbk::Offset::new(o as u64), len)),
                            ("region-from-slice.get_slice", 5, as_region.get_slice(jbk::Offset::new(o as u64), len)),
                        ];
                        for (name, base, got) in views {
                            let got = got.map_err(|e| fail(&format!("{name} error"), format!("({o},{len}): {e}")))?;
                            let want = &payload[base + o..base + o + len];
                            if got.len() != len {
                                return Err(fail(&format!("{name} returns another length"), format!("({o},{len}) returned {} bytes", got.len())));
                            }
                            if &got[..] != want {
                                return Err(fail(&format!("{name} yields other bytes"), format!("({o},{len})")));
                            }
                            n += 1;
                        }
                    }
                    for parts in [vec![l], vec![65_535, 1, l - 65_536], vec![65_536, l - 65_536], vec![65_537, l - 65_537], vec![1, 69_999]] {
                        check_stream(region.stream(), &payload, &parts, "64 KiB+ region.stream()")?;
                        check_stream(whole.stream(), &payload, &parts, "64 KiB+ slice.stream()")?;
                        n += 2;
                    }
                    let parts = vec![65_536, l - 10 - 65_536];
                    check_stream(nested.stream(), &payload[5..l - 5], &parts, "64 KiB+ cut.cut.stream()")?;
                    check_stream(jbk::reader::ByteStream::from(as_region.clone()), &payload[5..l - 5], &parts, "64 KiB+ ByteStream::from(region)")?;
                    Ok(n + 2)
                });
                let case = json!({"engine": "viewmc", "source": format!("{kind:?}"), "at_end": at_end, "L": l, "tier": "64KiB", "profile": profile});
                let id = format!("{kind:?}:{at_end}:64k");
                match r {
                    Ok(Ok(n)) => {
                        rep.case(Some(&id), "agree(64 KiB+)");
                        rep.extra.insert("view_checks".into(), json!(rep.extra.get("view_checks").and_then(|x| x.as_u64()).unwrap_or(0) + n));
                    }
                    Ok(Err(f)) => {
                        rep.case(Some(&id), "violation");
                        rep.violation(&format!("C13 {} [{kind:?}]", f.key), &f.what, case);
                    }
                    Err(p) => {
                        rep.case(Some(&id), "panic");
                        rep.violation(&format!("C13 panic {} [{kind:?}]", jbkmc::panic_site(&p)), &p, case);
                    }
                }
            }
        }
        // one large payload per source (mmap and multi-chunk decoder paths), reduced cut set
        if replay.is_none() {
            let l = 5000;
            let payload = payload_bytes(l);
            if let Ok(Ok(region)) = jbkmc::catch(|| make_region(kind, &payload, dir.path(), at_end)) {
                let cuts: Vec<Vec<(usize, usize)>> = vec![
                    vec![(0, 17)],
                    vec![(4090, 12)],
                    vec![(4096, 904)],
                    vec![(1, 4999), (4094, 10), (1, 8)],
                    vec![(100, 4200), (3990, 20)],
                    vec![(4999, 1)],
                    vec![(5000, 0)],
                ];
                for chain in cuts {
                    let case = json!({"engine": "viewmc", "source": format!("{kind:?}"), "at_end": at_end, "L": l, "chain": chain, "profile": profile});
                    let _g = jbkmc::watchdog::guard(|| case.to_string());
                    let id = format!("{kind:?}:{at_end}:{l}:{chain:?}");
                    match jbkmc::catch(|| check_view(&region, &chain, &payload, 40)) {
                        Ok(Ok(_)) => rep.case(Some(&id), "agree(large)"),
                        Ok(Err(f)) => {
                            rep.case(Some(&id), "violation");
                            rep.violation(&format!("C13 {} [{kind:?}]", f.key), &f.what, case);
                        }
                        Err(p) => {
                            rep.case(Some(&id), "panic");
                            rep.violation(&format!("C13 panic {} [{kind:?}]", jbkmc::panic_site(&p)), &p, case);
                        }
                    }
                }
                // whole 5000 bytes streamed with several read sizes
                for parts in [vec![5000], vec![1; 50].into_iter().chain([4950]).collect::<Vec<_>>(), vec![4095, 1, 1, 903], vec![700; 7].into_iter().chain([100]).collect()] {
                    let case = json!({"engine": "viewmc", "source": format!("{kind:?}"), "at_end": at_end, "L": l, "whole_stream_parts": parts.len(), "profile": profile});
                    match jbkmc::catch(|| check_stream(region.stream(), &payload, &parts, "large whole stream")) {
                        Ok(Ok(())) => rep.case(Some(&format!("{kind:?}:{at_end}:whole:{}", parts.len())), "agree(large)"),
                        Ok(Err(f)) => rep.violation(&format!("C13 {} [{kind:?}]", f.key), &f.what, case),
                        Err(p) => rep.violation(&format!("C13 panic {} [{kind:?}]", jbkmc::panic_site(&p)), &p, case),
                    }
                }
            }
        }
    }
    // a content whose stored (compressed) form is above 4 MiB, in a file-backed pack
    if replay.is_none() {
        let case = json!({"engine":"viewmc","source":"ContainerCompBig","L":6 * 1024 * 1024 + 123,"profile":profile});
        let _g = jbkmc::watchdog::guard(|| case.to_string());
        let r = jbkmc::catch(|| -> Result<(), Fail> {
            let fail = |k: &str, w: String| Fail { key: format!("stored cluster above 4 MiB: {k}"), what: w };
            let big = jbkmc::gen::payload(6 * 1024 * 1024 + 123, Entropy::High, 9);
            let p = dir.path().join("bigc.jbkc");
            let up = camino::Utf8PathBuf::from_path_buf(p.clone()).unwrap();
            let mut c = jbk::creator::ContentPackCreator::new(&up, jbk::PackId::from(1), jbk::VendorId::from(VENDOR), Default::default(), Comp::Zstd(3).to_jbk()).map_err(|e| fail("creation", e.to_string()))?;
            for b in [jbkmc::gen::payload(3000, Entropy::Low, 1), big.clone(), jbkmc::gen::payload(5000, Entropy::Low, 2)] {
                c.add_content(Box::new(std::io::Cursor::new(b)), Hint::Yes.to_jbk()).map_err(|e| fail("creation", e.to_string()))?;
            }
            c.finalize().map_err(|e| fail("creation", e.to_string()))?;
            let pack = jbk::reader::ContentPack::new(jbk::Reader::from(jbk::FileSource::open(&p).map_err(|e| fail("open", e.to_string()))?)).map_err(|e| fail("open", e.to_string()))?;
            let region = pack.get_content(jbk::ContentIdx::from(1)).map_err(|e| fail("get_content", e.to_string()))?.ok_or_else(|| fail("get_content", "none".into()))?;
            if region.size().into_u64() != big.len() as u64 {
                return Err(fail("size()", format!("{}", region.size().into_u64())));
            }
            for (o, n) in [(0usize, 100usize), (4 * 1024 * 1024 - 5, 10), (big.len() - 123, 123), (1, 70_000)] {
                let a = region.get_slice(jbk::Offset::new(o as u64), n).map_err(|e| fail("get_slice error", format!("({o},{n}): {e}")))?;
                if &a[..] != &big[o..o + n] {
                    return Err(fail("get_slice yields other bytes", format!("({o},{n})")));
                }
            }
            check_stream(region.stream(), &big, &[4096, 4 * 1024 * 1024, big.len() - 4096 - 4 * 1024 * 1024], "stored cluster above 4 MiB: region.stream()")?;
            let cut = region.cut(jbk::Offset::new(4 * 1024 * 1024), jbk::Size::new(1000));
            check_stream(cut.stream(), &big[4 * 1024 * 1024..4 * 1024 * 1024 + 1000], &[1000], "stored cluster above 4 MiB: cut.stream()")
        });
        match r {
            Ok(Ok(())) => rep.case(Some("ContainerCompBig"), "agree(stored cluster above 4 MiB)"),
            Ok(Err(f)) => {
                rep.case(Some("ContainerCompBig"), "violation");
                rep.violation(&format!("C13 {} [ContainerCompBig]", f.key), &f.what, case);
            }
            Err(p) => {
                rep.case(Some("ContainerCompBig"), "panic");
                rep.violation(&format!("C13 panic {} [ContainerCompBig]", jbkmc::panic_site(&p)), &p, case);
            }
        }
    }
    if replay.is_none() {
        alone_tier(&mut rep, dir.path(), profile);
        deep_tier(&mut rep, dir.path(), profile);
        slow_decoder_tier(&mut rep, profile);
        failing_decoder_tier(&mut rep, profile);
        interleave_tier(&mut rep, dir.path(), profile, t);
    }
    rep.finish(&args)
}
