//! crashmc — creation is all-or-nothing at the destination path (C09).
//! Every prefix of the write history of a creation run (bytes + metadata operations on the
//! destination directory) is turned into a fault by the LD_PRELOAD shim shim/faultfs.so, in a
//! process-death variant and two error-return variants; after each faulty run the destination is
//! inspected.

use jbkmc::dump::*;
use jbkmc::packs::*;
use jbkmc::{Args, Report};
use rayon::prelude::*;
use serde_json::{json, Value as J};
use std::path::{Path, PathBuf};
use std::process::Command;

fn packaging_of(s: &str) -> Packaging {
    match s {
        "OneFile" => Packaging::OneFile,
        "TwoFiles" => Packaging::TwoFiles,
        _ => Packaging::NoConcat,
    }
}

/// The creation process (runs under the shim).
fn child(args: &Args) -> ! {
    let dir = PathBuf::from(args.opt("--dir").expect("--dir"));
    let l = shape(&args.opt("--shape").expect("--shape"));
    let comp = Comp::parse(&args.opt("--comp").expect("--comp"));
    let packaging = packaging_of(&args.opt("--packaging").expect("--packaging"));
    match create_logical(&l, comp, packaging, &dir, "out") {
        Ok(_) => std::process::exit(0),
        Err(e) if e.starts_with("panic") => {
            eprintln!("{e}");
            std::process::exit(101)
        }
        Err(e) => {
            eprintln!("{e}");
            std::process::exit(3)
        }
    }
}

#[derive(Clone, Debug)]
struct Config {
    shape: &'static str,
    old_shape: &'static str,
    comp: Comp,
    packaging: &'static str,
    preexisting: bool,
}

struct Recording {
    units: i64,
    /// (kind, units, name) per call
    calls: Vec<(String, i64, String)>,
    inos: Vec<(u64, i64)>,
}

fn shim_path() -> PathBuf {
    let v = std::env::var("VERIF_DIR").unwrap_or_else(|_| "/verif".into());
    PathBuf::from(v).join("shim").join("faultfs.so")
}

/// Rename faults: renames are raw syscalls the shim cannot see, so they are reached through
/// strace's syscall tampering: the `at`-th rename of a tracee fails with EIO / ENOENT, or the
/// process is killed when it enters it.
fn run_child_strace(cfg: &Config, dir: &Path, at: i64, mode: &str, log: Option<&Path>) -> (i32, String) {
    let exe = std::env::current_exe().unwrap();
    let mut cmd = Command::new("strace");
    cmd.args(["-f", "-qq", "-e", "trace=rename,renameat,renameat2"]);
    match log {
        Some(l) => {
            cmd.arg("-o").arg(l);
        }
        None => {
            cmd.args(["-o", "/dev/null"]);
        }
    }
    if at > 0 {
        let what = match mode {
            "rename-eio" => "error=EIO",
            "rename-enoent" => "error=ENOENT",
            _ => "signal=KILL",
        };
        cmd.arg("-e").arg(format!("inject=rename,renameat,renameat2:{what}:when={at}"));
    }
    cmd.arg(exe)
        .arg("child")
        .arg("--dir").arg(dir)
        .arg("--shape").arg(cfg.shape)
        .arg("--comp").arg(cfg.comp.name())
        .arg("--packaging").arg(cfg.packaging)
        .env("RAYON_NUM_THREADS", "2");
    let out = cmd.output().expect("spawn strace");
    use std::os::unix::process::ExitStatusExt;
    let code = out.status.code().unwrap_or_else(|| 1000 + out.status.signal().unwrap_or(0));
    (code, String::from_utf8_lossy(&out.stderr).chars().take(300).collect())
}

fn run_child(cfg: &Config, dir: &Path, at: i64, mode: &str, log: Option<&Path>) -> (i32, String) {
    if mode.starts_with("rename-") {
        return run_child_strace(cfg, dir, at, mode, log);
    }
    let exe = std::env::current_exe().unwrap();
    let mut cmd = Command::new(exe);
    cmd.arg("child")
        .arg("--dir").arg(dir)
        .arg("--shape").arg(cfg.shape)
        .arg("--comp").arg(cfg.comp.name())
        .arg("--packaging").arg(cfg.packaging)
        .env("LD_PRELOAD", shim_path())
        .env("FAULTFS_DIR", dir)
        .env("FAULTFS_AT", at.to_string())
        .env("FAULTFS_MODE", mode)
        .env("RAYON_NUM_THREADS", "2");
    if let Some(l) = log {
        cmd.env("FAULTFS_LOG", l);
    }
    let out = cmd.output().expect("spawn child");
    use std::os::unix::process::ExitStatusExt;
    let code = out.status.code().unwrap_or_else(|| 1000 + out.status.signal().unwrap_or(0));
    (code, String::from_utf8_lossy(&out.stderr).chars().take(300).collect())
}

fn parse_log(p: &Path) -> Option<Recording> {
    let t = std::fs::read_to_string(p).ok()?;
    let mut r = Recording { units: 0, calls: vec![], inos: vec![] };
    for line in t.lines() {
        let mut it = line.splitn(3, ' ');
        let k = it.next()?;
        let a = it.next().unwrap_or("0");
        let b = it.next().unwrap_or("");
        if k == "units" {
            r.units = a.parse().ok()?;
        } else if k == "ino" {
            r.inos.push((a.parse().ok()?, b.trim().parse().ok()?));
        } else {
            r.calls.push((k.to_string(), a.parse().unwrap_or(0), b.to_string()));
        }
    }
    Some(r)
}

/// Prepare the destination directory: empty, or holding an older complete container.
fn prepare(cfg: &Config, dir: &Path) -> Result<Vec<(String, Vec<u8>)>, String> {
    std::fs::create_dir_all(dir).map_err(|e| e.to_string())?;
    if !cfg.preexisting {
        return Ok(vec![]);
    }
    let old = shape(cfg.old_shape);
    let c = create_logical(&old, Comp::None, packaging_of(cfg.packaging), dir, "out")?;
    let mut files = vec![];
    for f in &c.files {
        files.push((f.file_name().unwrap().to_string_lossy().to_string(), std::fs::read(f).map_err(|e| e.to_string())?));
    }
    Ok(files)
}

fn restore(dir: &Path, files: &[(String, Vec<u8>)]) {
    let _ = std::fs::remove_dir_all(dir);
    std::fs::create_dir_all(dir).unwrap();
    for (n, b) in files {
        std::fs::write(dir.join(n), b).unwrap();
    }
}

struct Verdict {
    outcome: String,
    violation: Option<(String, String)>,
}

fn inspect(cfg: &Config, dir: &Path, pre: &[(String, Vec<u8>)], code: i32, mode: &str) -> Verdict {
    let dest = dir.join("out.jbk");
    let new = shape(cfg.shape);
    let ok = |o: &str| Verdict { outcome: o.to_string(), violation: None };
    let bad = |k: &str, w: String| Verdict { outcome: "violation".into(), violation: Some((k.to_string(), w)) };
    let bytes = match std::fs::read(&dest) {
        Ok(b) => Some(b),
        Err(e) if e.kind() == std::io::ErrorKind::NotFound => None,
        Err(e) => return bad("destination unreadable", e.to_string()),
    };
    let creator_ok = code == 0;
    match bytes {
        None => {
            if cfg.preexisting {
                return bad("the previous complete file vanished from the destination", format!("exit code {code}"));
            }
            if creator_ok {
                return bad("creator reported success but the destination does not exist", String::new());
            }
            ok("absent")
        }
        Some(b) => {
            if let Some((_, oldb)) = pre.iter().find(|(n, _)| n == "out.jbk") {
                if &b == oldb {
                    if creator_ok {
                        return bad("creator reported success but the destination still holds the previous file", String::new());
                    }
                    // are the old container's other files still the old ones?
                    let replaced = pre.iter().any(|(n, ob)| n != "out.jbk" && std::fs::read(dir.join(n)).map(|x| &x != ob).unwrap_or(true));
                    return ok(if replaced { "previous entry file kept (its pack files were already replaced)" } else { "previous container kept" });
                }
            }
            // must be a complete new container
            let dump = match jbkmc::catch(|| dump_container(&dest, &opts_for(&new))) {
                Ok(d) => d,
                Err(p) => return bad("destination holds a file that makes the reader panic", p),
            };
            if dump["open"] != json!("ok") {
                return bad(
                    &format!("destination holds an incomplete container ({} mode)", if mode.contains("kill") { "process death" } else { "I/O error" }),
                    format!("size {} does not open: {}", b.len(), dump["open"]),
                );
            }
            let text = dump.to_string();
            if text.contains("\"missing\"") {
                return bad("the entry-point file appeared before the pack files it refers to", "a pack is reported MISSING".into());
            }
            let diffs = compare_with_model(&model_dump(&new), &dump);
            if let Some(d) = diffs.first() {
                return bad("destination holds a container that does not read as what was created", format!("{}: {} vs {}", d.path, d.altered, d.pristine));
            }
            ok(if creator_ok { "complete new container" } else { "complete new container (creator reported an error)" })
        }
    }
}

fn main() {
    jbkmc::install_quiet_panic_hook();
    let args = Args::parse();
    if args.sub == "child" {
        child(&args);
    }
    let mut rep = Report::new(
        "crashmc",
        "C09",
        "for every configuration (packaging {OneFile,TwoFiles,NoConcat} x destination {absent, holding an older complete container} x compression {none,zstd}, plus a container with a stored cluster above the 8 KiB writer buffer and an extra content pack file): a fault-free recording run gives the write history (N units: bytes written + metadata operations on the destination directory, through an LD_PRELOAD shim); then a fault at unit n for n in the quick grid (every metadata unit, every 16th byte, 6 bytes around every write-call boundary) or every n in [0,N] (thorough) x {process death, EIO, ENOSPC, one transient EIO (a short write, one failing call, then everything works again), one short write with no error at all}; plus process death right after every metadata operation the shim sees, and every rename (raw syscalls, reached through strace's syscall tampering) failing with EIO / ENOENT or killing the process; plus creations one of whose sources (the first or the last compressed content) cannot be read; after each run the destination is absent / byte-identical to the previous file / a complete new container that opens, dumps to the model with no pack missing and verifies; non-trivial = a fault that fired (n < N)",
    );
    if !shim_path().exists() {
        rep.machinery_errors.push(format!("{} not built", shim_path().display()));
        rep.finish(&args);
    }
    let t = args.thorough();
    let mut configs = vec![];
    for packaging in ["OneFile", "TwoFiles", "NoConcat"] {
        for preexisting in [false, true] {
            for comp in [Comp::None, Comp::Zstd(5)] {
                if !t && comp == Comp::Zstd(5) && preexisting {
                    continue;
                }
                configs.push(Config { shape: "multi", old_shape: "small", comp, packaging, preexisting });
                // a stored cluster above the writer's buffer size and an extra pack file
                if comp == Comp::Zstd(5) && !preexisting && (t || packaging != "TwoFiles") {
                    configs.push(Config { shape: "mid", old_shape: "small", comp, packaging, preexisting });
                }
            }
        }
    }
    // ---- which syscalls touch the destination directory? (one strace listing of a fault-free run)
    if args.replay.is_none() {
        let d = jbkmc::scratch_dir("strace");
        let dest = d.path().join("dest");
        std::fs::create_dir_all(&dest).unwrap();
        let log = d.path().join("st.log");
        let st = Command::new("strace")
            .args(["-f", "-e", "trace=write,pwrite64,writev,pwritev,pwritev2,copy_file_range,sendfile,splice,ftruncate,fallocate,rename,renameat,renameat2,link,linkat,unlink,unlinkat,io_uring_enter", "-o"])
            .arg(&log)
            .arg(std::env::current_exe().unwrap())
            .args(["child", "--dir"]).arg(&dest)
            .args(["--shape", "multi", "--comp", "Zstd(5)", "--packaging", "TwoFiles"])
            .output();
        match st {
            Ok(o) if o.status.success() => {
                let text = String::from_utf8_lossy(&std::fs::read(&log).unwrap_or_default()).to_string();
                rep.extra.insert("strace_lines".into(), json!(text.lines().count()));
                let mut counts: std::collections::BTreeMap<String, u64> = Default::default();
                for line in text.lines() {
                    let rest = line.trim_start().split_once(' ').map(|x| x.1.trim_start()).unwrap_or("");
                    if let Some(name) = rest.split('(').next() {
                        if name.chars().all(|c| c.is_ascii_alphanumeric() || c == '_') && !name.is_empty() && !rest.contains("= -1") {
                            *counts.entry(name.to_string()).or_insert(0) += 1;
                        }
                    }
                }
                for bad in ["pwritev", "pwritev2", "copy_file_range", "sendfile", "splice", "fallocate", "io_uring_enter"] {
                    if counts.get(bad).copied().unwrap_or(0) > 0 {
                        rep.machinery_errors.push(format!("the creator uses {bad}, which the shim does not turn into counted writes"));
                    }
                }
                rep.extra.insert("strace_syscalls_of_a_fault_free_run".into(), json!(counts));
                rep.note("renames are raw syscalls (rustix) and invisible to the LD_PRELOAD shim: they are atomic, and the directory states on both sides of each rename are reached by the faults in the adjacent writes");
            }
            other => rep.note(&format!("strace listing unavailable ({:?}); the per-inode byte accounting is the only guard", other.map(|o| o.status))),
        }
    }
    let replay: Option<J> = args.replay.as_ref().map(|p| {
        let j: J = serde_json::from_str(&std::fs::read_to_string(p).expect("replay")).unwrap();
        if j.get("case").is_some() { j["case"].clone() } else { j }
    });
    let base = jbkmc::scratch_dir("crash");
    for (ci, cfg) in configs.iter().enumerate() {
        let cfg_json = json!({"packaging": cfg.packaging, "preexisting": cfg.preexisting, "comp": cfg.comp.name(), "shape": cfg.shape});
        if let Some(r) = &replay {
            if r["config"] != cfg_json {
                continue;
            }
        }
        let proto = base.path().join(format!("proto{ci}"));
        let pre = match prepare(cfg, &proto) {
            Ok(p) => p,
            Err(e) => {
                rep.machinery_errors.push(format!("prepare {cfg:?}: {e}"));
                continue;
            }
        };
        // ---- recording runs (twice: the history must be deterministic)
        let mut recs = vec![];
        for k in 0..2 {
            let d = base.path().join(format!("rec{ci}_{k}")).join("dest");
            restore(&d, &pre);
            let log = base.path().join(format!("rec{ci}_{k}.log"));
            let (code, err) = run_child(cfg, &d, -1, "kill", Some(&log));
            if code != 0 {
                rep.machinery_errors.push(format!("fault-free creation failed ({code}): {err}"));
                continue;
            }
            let v = inspect(cfg, &d, &pre, 0, "none");
            if let Some((k, w)) = v.violation {
                rep.violation(&format!("C09 fault-free run: {k}"), &w, json!({"engine":"crashmc","config":cfg_json,"n":-1}));
            }
            match parse_log(&log) {
                Some(r) => {
                    // guard: every byte of every final file went through the shim
                    use std::os::unix::fs::MetadataExt;
                    for e in std::fs::read_dir(&d).unwrap().flatten() {
                        let md = e.metadata().unwrap();
                        if !md.is_file() {
                            continue;
                        }
                        let seen = r.inos.iter().find(|(i, _)| *i == md.ino()).map(|x| x.1).unwrap_or(0);
                        let preexisting_unchanged = pre.iter().any(|(n, b)| *n == e.file_name().to_string_lossy() && b.len() as u64 == md.len() && std::fs::read(e.path()).map(|x| &x == b).unwrap_or(false));
                        if (seen as u64) < md.len() && !preexisting_unchanged {
                            rep.machinery_errors.push(format!("{}: {} bytes on disk but the shim saw only {seen}: a write path is not intercepted", e.path().display(), md.len()));
                        }
                    }
                    recs.push(r);
                }
                None => rep.machinery_errors.push("no shim log from the recording run".into()),
            }
        }
        if recs.len() < 2 {
            continue;
        }
        let same = recs[0].units == recs[1].units && recs[0].calls.iter().map(|c| (&c.0, c.1)).eq(recs[1].calls.iter().map(|c| (&c.0, c.1)));
        if !same {
            rep.machinery_errors.push(format!("{cfg:?}: two fault-free runs have different write histories ({} vs {} units): nondeterminism not owned", recs[0].units, recs[1].units));
            continue;
        }
        let rec = &recs[0];
        let n_units = rec.units;
        rep.extra.insert(format!("history[{}]", cfg_json), json!({"units": n_units, "calls": rec.calls.len(), "metadata_ops": rec.calls.iter().filter(|c| c.0 != "write" && c.0 != "pwrite").count()}));
        // ---- fault points
        let mut points: Vec<i64> = vec![];
        if t {
            points = (0..=n_units).collect();
        } else {
            let mut pos = 0i64;
            for (kind, u, _) in &rec.calls {
                if kind == "write" || kind == "pwrite" {
                    for d in -3i64..=3 {
                        points.push(pos + d);
                    }
                    let mut g = pos;
                    while g < pos + u {
                        points.push(g);
                        g += 16;
                    }
                } else {
                    points.push(pos);
                    points.push(pos + 1);
                }
                pos += u;
            }
            points.push(n_units);
            points.retain(|p| *p >= 0 && *p <= n_units);
            points.sort();
            points.dedup();
        }
        if let Some(r) = &replay {
            points = vec![r["n"].as_i64().unwrap()];
        }
        const MODES: [&str; 9] = ["kill", "eio", "enospc", "eio-once", "short-once", "killafter", "rename-eio", "rename-enoent", "rename-kill"];
        let modes: Vec<&str> = match &replay {
            Some(r) => vec![MODES.iter().copied().find(|m| r["mode"] == json!(m)).unwrap_or("kill")],
            None => vec!["kill", "eio", "enospc", "eio-once", "short-once"],
        };
        let mut jobs: Vec<(i64, &str)> = vec![];
        for &m in &modes {
            if m == "kill" || m == "eio" || m == "enospc" || m == "eio-once" || m == "short-once" {
                for &p in &points {
                    jobs.push((p, m));
                }
            }
        }
        // the process dies right after each visible metadata operation (before whatever follows
        // it, visible to the shim or not)
        let mut meta_points = vec![];
        {
            let mut pos = 0i64;
            for (kind, u, _) in &rec.calls {
                if kind != "write" && kind != "pwrite" {
                    meta_points.push(pos);
                }
                pos += u;
            }
        }
        // renames (raw syscalls): count them in a fault-free traced run, then fault each one
        let mut n_renames = 0i64;
        if replay.is_none() || replay.as_ref().map(|r| r["mode"].as_str().unwrap_or("").starts_with("rename-")).unwrap_or(false) {
            let d = base.path().join(format!("ren{ci}")).join("dest");
            restore(&d, &pre);
            let log = base.path().join(format!("ren{ci}.log"));
            let (code, err) = run_child_strace(cfg, &d, 0, "rename-count", Some(&log));
            if code != 0 {
                rep.machinery_errors.push(format!("traced fault-free creation failed ({code}): {err}"));
            } else {
                let text = std::fs::read_to_string(&log).unwrap_or_default();
                let mut per_pid: std::collections::BTreeMap<String, i64> = Default::default();
                for line in text.lines() {
                    if line.contains("rename") && line.contains(" = 0") {
                        let pid = line.trim_start().split_whitespace().next().unwrap_or("").to_string();
                        *per_pid.entry(pid).or_insert(0) += 1;
                    }
                }
                if per_pid.len() > 1 {
                    rep.note("renames are issued by more than one thread: the k-th rename of every thread is faulted");
                }
                n_renames = per_pid.values().copied().max().unwrap_or(0);
                if n_renames == 0 {
                    rep.machinery_errors.push("no rename seen by strace in a fault-free creation: the rename fault tier would be vacuous".into());
                }
            }
            let _ = std::fs::remove_dir_all(d.parent().unwrap());
        }
        rep.extra.insert(format!("renames[{}]", cfg_json), json!(n_renames));
        match &replay {
            None => {
                for &p in &meta_points {
                    jobs.push((p, "killafter"));
                }
                for k in 1..=n_renames {
                    for m in ["rename-eio", "rename-enoent", "rename-kill"] {
                        jobs.push((k, m));
                    }
                }
            }
            Some(r) => {
                let m = modes[0];
                if m == "killafter" || m.starts_with("rename-") {
                    jobs = vec![(r["n"].as_i64().unwrap(), m)];
                }
            }
        }
        let results: Vec<(i64, &str, i32, Verdict)> = jobs
            .par_iter()
            .map(|(n, mode)| {
                let d = base.path().join(format!("run{ci}_{}_{n}_{mode}", rayon::current_thread_index().unwrap_or(0))).join("dest");
                restore(&d, &pre);
                let (code, _err) = run_child(cfg, &d, *n, mode, None);
                let v = inspect(cfg, &d, &pre, code, mode);
                let _ = std::fs::remove_dir_all(d.parent().unwrap());
                (*n, *mode, code, v)
            })
            .collect();
        for (n, mode, code, v) in results {
            let case = json!({"engine":"crashmc","config":cfg_json,"n":n,"mode":mode,"of":n_units});
            let is_rename = mode.starts_with("rename-");
            let fired = if is_rename { true } else { n < n_units };
            let exit = match code {
                0 => "creator ok",
                3 => "creator err",
                101 => "creator panic",
                137 => "killed",
                _ => "other exit",
            };
            let case_id = case.to_string();
            rep.case(if fired { Some(&case_id) } else { None }, &format!("{mode}: {} [{exit}]", v.outcome));
            if (mode == "kill" || mode == "killafter") && fired && code != 137 {
                rep.machinery_errors.push(format!("fault at unit {n}/{n_units} did not fire in kill mode (exit {code}): history differs from the recording"));
            }
            if code == 101 {
                rep.note("the creator panicked on an injected I/O error (destination state is still checked)");
            }
            if let Some((k, w)) = v.violation {
                rep.violation(&format!("C09 {k} [{}{}]", cfg.packaging, if cfg.preexisting { ", destination pre-existing" } else { "" }), &format!("fault at unit {n} of {n_units} ({mode}), exit {code}: {w}"), case.clone());
            }
            if rep.samples.len() < 4 && fired && n > 100 {
                rep.sample(case);
            }
        }
    }
    // ---- an input that cannot be read (an I/O error on the reading side, no output fault):
    // the creation must fail and leave the destination as it was
    if replay.is_none() {
        for packaging in ["OneFile", "TwoFiles", "NoConcat"] {
            for shape_name in ["multi-badfirst", "multi-badlast", "badhigh"] {
                for preexisting in [false, true] {
                    let cfg = Config { shape: shape_name, old_shape: "small", comp: Comp::Zstd(5), packaging, preexisting };
                    let cfg_json = json!({"packaging": cfg.packaging, "preexisting": cfg.preexisting, "comp": cfg.comp.name(), "shape": cfg.shape});
                    let d = base.path().join(format!("bad_{packaging}_{shape_name}_{preexisting}")).join("dest");
                    let pre = match prepare(&cfg, &d) {
                        Ok(p) => p,
                        Err(e) => {
                            rep.machinery_errors.push(format!("prepare {cfg:?}: {e}"));
                            continue;
                        }
                    };
                    let (code, err) = run_child(&cfg, &d, -1, "kill", None);
                    let case = json!({"engine":"crashmc","config":cfg_json,"n":-1,"mode":"unreadable-source"});
                    let id = case.to_string();
                    if code == 0 {
                        rep.case(Some(&id), "unreadable source: creator ok");
                        rep.violation(
                            &format!("C09 the creator reports success although one of its sources could not be read [{packaging}]"),
                            &format!("{shape_name}: exit 0 {err}"),
                            case,
                        );
                        continue;
                    }
                    let v = inspect(&cfg, &d, &pre, code, "eio");
                    rep.case(Some(&id), &format!("unreadable source: {} [exit {code}]", v.outcome));
                    if let Some((k, w)) = v.violation {
                        rep.violation(&format!("C09 {k} [{packaging}, unreadable source]"), &format!("{shape_name}, exit {code}: {w}"), case);
                    }
                }
            }
        }
    }
    rep.finish(&args)
}
