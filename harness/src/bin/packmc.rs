//! packmc — the same logical container under every packaging (C10) and with every subset of its
//! content packs made unavailable in every way (C11). Exhaustive over finite configuration sets.

use jbkmc::dirmodel::{populate, DirSpec, EntrySpec, IndexSpec, PropSpec, SchemaSpec, Val};
use jbkmc::dump::*;
use jbkmc::gen::*;
use jbkmc::packs::*;
use jbkmc::{Args, Report};
use jubako as jbk;
use rayon::prelude::*;
use serde_json::{json, Value as J};
use std::path::{Path, PathBuf};

fn concat(files: &[PathBuf], out: &Path) -> Result<(), String> {
    let up = camino::Utf8PathBuf::from_path_buf(out.to_path_buf()).unwrap();
    jbkmc::catch(|| jbk::tools::concat(files, &up).map_err(|e| format!("concat: {e}")))
        .unwrap_or_else(|p| Err(format!("concat panic {p}")))
}

fn dump_vs_model(l: &Logical, path: &Path) -> Result<J, (String, String)> {
    let opts = opts_for(l);
    let dump = jbkmc::catch(|| dump_container(path, &opts)).map_err(|p| (format!("panic {}", jbkmc::panic_site(&p)), p))?;
    if dump["open"] != json!("ok") {
        return Err(("does not open".into(), format!("{}", dump["open"])));
    }
    let diffs = compare_with_model(&model_dump(l), &dump);
    if let Some(d) = diffs.first() {
        let class: String = d.path.split('/').filter(|x| !x.is_empty()).take(1).collect();
        return Err((format!("reads differently ({class})"), format!("{}: read {} expected {}", d.path, d.altered, d.pristine)));
    }
    Ok(dump)
}

fn prefix_bytes(kind: usize, len: usize, seed: u64, other_pack: &[u8]) -> Vec<u8> {
    match kind {
        0 => vec![0u8; len],
        1 => vec![0xffu8; len],
        2 => payload(len, Entropy::High, seed ^ 4242),
        3 => {
            let mut v = b"\x7fELF\x02\x01\x01\x00".to_vec();
            v.resize(len.max(8), 0x90);
            v.truncate(len);
            v
        }
        _ => {
            // starts like a jubako pack (magic, vendor, version) but is not a valid header block
            let mut v = other_pack[..other_pack.len().min(len)].to_vec();
            if v.len() > 20 {
                v[20] ^= 0x55; // breaks the header CRC
            }
            v.resize(len, 0x11);
            v
        }
    }
}

struct CaseOut {
    id: String,
    outcome: String,
    violation: Option<(String, String, J)>,
}

fn c10_for(lname: &str, comp: Comp, thorough: bool, seed: u64) -> Vec<CaseOut> {
    let l = shape(lname);
    let base = jbkmc::scratch_dir("pack");
    let mut out: Vec<CaseOut> = vec![];
    let tag = format!("{lname}/{}", comp.name());
    let mut record = |what: String, r: Result<(), (String, String)>, case: J| {
        let id = format!("{tag}:{what}");
        match r {
            Ok(()) => out.push(CaseOut { id, outcome: format!("same:{}", what.split(':').next().unwrap_or("")), violation: None }),
            Err((k, w)) => out.push(CaseOut {
                id,
                outcome: "violation".into(),
                violation: Some((format!("C10 {} {k}", what.split(':').next().unwrap_or("")), format!("{tag} {what}: {w}"), case)),
            }),
        }
    };
    let case = |what: &str| json!({"engine": "packmc", "sub": "c10", "logical": lname, "comp": comp.name(), "packaging": what});
    // a. the three BasicCreator packagings
    let mut created = std::collections::BTreeMap::new();
    for (name, p) in [("OneFile", Packaging::OneFile), ("TwoFiles", Packaging::TwoFiles), ("NoConcat", Packaging::NoConcat)] {
        let d = base.path().join(name);
        std::fs::create_dir_all(&d).unwrap();
        match create_logical(&l, comp, p, &d, "c") {
            Ok(c) => {
                let r = dump_vs_model(&l, &c.path).map(|_| ());
                record(format!("basic:{name}"), r, case(name));
                created.insert(name, c);
            }
            Err(e) => record(format!("basic:{name}"), Err(("creation failed".into(), e)), case(name)),
        }
    }
    // a0. the extra packs handed over in reverse order (the manifest lists id 3 before id 2)
    if l.extra_packs.len() >= 2 {
        for (name, p) in [("OneFile", Packaging::OneFile), ("TwoFiles", Packaging::TwoFiles), ("NoConcat", Packaging::NoConcat)] {
            let d = base.path().join(format!("rev-{name}"));
            std::fs::create_dir_all(&d).unwrap();
            REVERSE_EXTRAS.with(|r| r.set(true));
            let c = create_logical(&l, comp, p, &d, "c");
            REVERSE_EXTRAS.with(|r| r.set(false));
            match c {
                Ok(c) => record(format!("basic(extras in reverse order):{name}"), dump_vs_model(&l, &c.path).map(|_| ()), case(name)),
                Err(e) => record(format!("basic(extras in reverse order):{name}"), Err(("creation failed".into(), e)), case(name)),
            }
        }
    }
    // a'. extra packs written somewhere else than next to the entry-point file: read in place,
    // then again after the whole tree has been moved (recorded locations are relative to the
    // entry-point file, so the set of files can be handled as a whole)
    if !l.extra_packs.is_empty() {
        for (pname, p) in [("OneFile", Packaging::OneFile), ("TwoFiles", Packaging::TwoFiles), ("NoConcat", Packaging::NoConcat)] {
            // "../<dir>/c.extra2.jbkc" is 17 bytes longer than <dir>: recorded locations of exactly 212
            // and 213 bytes (the longest the format can hold)
            let long212 = "x".repeat(212 - 17);
            let long213 = "y".repeat(213 - 17);
            for (where_, rel) in [("same", "main"), ("below", "main/sub/deeper"), ("sibling", "extras"), ("parent", "."), ("cousin", "other/place"), ("location-of-212-bytes", long212.as_str()), ("location-of-213-bytes", long213.as_str())] {
                let root = base.path().join(format!("place-{pname}-{where_}"));
                let tree = root.join("tree");
                let main = tree.join("main");
                let ed = tree.join(rel);
                std::fs::create_dir_all(&main).unwrap();
                std::fs::create_dir_all(&ed).unwrap();
                let what = format!("placed:{pname}:{where_}");
                let cj = json!({"engine":"packmc","sub":"c10","logical":lname,"comp":comp.name(),"packaging":format!("placed-{pname}-{where_}")});
                match create_logical_ext(&l, comp, p, &main, "c", &ed) {
                    Ok(c) => {
                        let r = dump_vs_model(&l, &c.path).map(|_| ());
                        record(format!("{what}:in-place"), r, cj.clone());
                        let moved = root.join("moved-elsewhere");
                        match std::fs::rename(&tree, &moved) {
                            Ok(()) => {
                                let r = dump_vs_model(&l, &moved.join("main").join("c.jbk")).map(|_| ());
                                record(format!("{what}:tree-moved"), r, cj);
                            }
                            Err(e) => record(format!("{what}:tree-moved"), Err(("MACHINERY rename failed".into(), e.to_string())), cj),
                        }
                    }
                    Err(e) => record(format!("{what}:in-place"), Err(("creation failed".into(), e)), cj),
                }
            }
        }
    }
    // a''. recorded locations that are not plain ASCII file names next to the entry point:
    // multi-byte file names, and pack files reached through symbolic links
    for (pname, p) in [("TwoFiles", Packaging::TwoFiles), ("NoConcat", Packaging::NoConcat)] {
        let d = base.path().join(format!("names-{pname}"));
        std::fs::create_dir_all(&d).unwrap();
        let cj = |what: &str| json!({"engine":"packmc","sub":"c10","logical":lname,"comp":comp.name(),"packaging":format!("{what}-{pname}")});
        match create_logical(&l, comp, p, &d, "donn\u{e9}es-\u{20ac}-\u{65e5}\u{672c}") {
            Ok(c) => record(format!("multibyte-name:{pname}"), dump_vs_model(&l, &c.path).map(|_| ()), cj("multibyte-name")),
            Err(e) => record(format!("multibyte-name:{pname}"), Err(("creation failed".into(), e)), cj("multibyte-name")),
        }
        let d = base.path().join(format!("links-{pname}"));
        let store = d.join("store");
        std::fs::create_dir_all(&store).unwrap();
        match create_logical(&l, comp, p, &d, "c") {
            Ok(c) => {
                // every pack file but the entry point moves to store/ and is replaced by a symlink
                let mut ok = true;
                for f in c.files.iter().filter(|f| **f != c.path) {
                    let to = store.join(f.file_name().unwrap());
                    ok &= std::fs::rename(f, &to).is_ok() && std::os::unix::fs::symlink(&to, f).is_ok();
                }
                if ok {
                    record(format!("symlinked-packs:{pname}"), dump_vs_model(&l, &c.path).map(|_| ()), cj("symlinked-packs"));
                } else {
                    record(format!("symlinked-packs:{pname}"), Err(("MACHINERY cannot create symlinks".into(), String::new())), cj("symlinked-packs"));
                }
            }
            Err(e) => record(format!("symlinked-packs:{pname}"), Err(("creation failed".into(), e)), cj("symlinked-packs")),
        }
    }
    // a3. destination file names: the names of the pack files are derived from the destination
    // (extension replaced), so the destination's own extension matters. Whatever the name, creation
    // gives a container that reads like the one-file packaging; only when a derived pack path IS the
    // destination path may creation refuse instead (nothing can be stored there twice).
    for (pname, p) in [("OneFile", Packaging::OneFile), ("TwoFiles", Packaging::TwoFiles), ("NoConcat", Packaging::NoConcat)] {
        // stems of 207..209 and 250 bytes: the derived file names ("<stem>.jbkc", "<stem>..jbkd") are
        // recorded as locations, which hold at most 213 bytes
        let long: Vec<String> = [207usize, 208, 209, 250].iter().map(|n| format!("{}.jbk", "s".repeat(*n))).collect();
        let mut names: Vec<&str> = vec!["c", "c.", ".c", "c.tar.jbk", "c.JBKC", "c.jbkm", "c.jbkd", "c..jbkd", "c.jbkc", "d.e/c.jbkc"];
        names.extend(long.iter().map(|s| s.as_str()));
        for name in names {
            let d = base.path().join(format!("destname-{pname}-{}-{}", name.len(), name.chars().take(20).collect::<String>().replace(['.', '/'], "_")));
            let dd = d.join(Path::new(name).parent().unwrap_or(Path::new("")));
            std::fs::create_dir_all(&dd).unwrap();
            let up = camino::Utf8PathBuf::from_path_buf(d.join(name)).unwrap();
            let mut derived = vec![];
            if !matches!(p, Packaging::OneFile) {
                derived.push(up.with_extension("jbkc"));
            }
            if matches!(p, Packaging::NoConcat) {
                let mut x = up.clone();
                x.set_extension(".jbkd");
                derived.push(x);
            }
            let collides = derived.contains(&up);
            let too_long = derived.iter().any(|x| x.file_name().map_or(0, |f| f.len()) > 213);
            let shown = if name.len() > 40 { format!("{}-byte stem", name.len() - 4) } else { name.to_string() };
            let name_id = shown.clone();
            let what = format!("destination-name:{pname}:{name_id}");
            let cj = json!({"engine":"packmc","sub":"c10","logical":lname,"comp":comp.name(),"packaging":format!("destname-{pname}"),"name":shown});
            match create_logical_named(&l, comp, p, &d, name, "c", &dd) {
                Ok(c) => record(what, dump_vs_model(&l, &c.path).map(|_| ()), cj),
                Err(e) if (collides && !e.starts_with("panic")) || too_long => {
                    // refused: nothing may have been left at the destination
                    if d.join(name).exists() {
                        record(what, Err(("creation refused but the destination exists".into(), e)), cj)
                    } else if too_long {
                        record(format!("destination-name(refused, a pack file name does not fit a location):{pname}:{name_id}"), Ok(()), cj);
                    } else {
                        record(format!("destination-name(refused, a pack file would take the destination's path):{pname}:{name_id}"), Ok(()), cj);
                    }
                }
                Err(e) => record(what, Err(("creation failed".into(), e)), cj),
            }
        }
    }
    // b. concat of the separate files in every order
    if let Some(sep) = created.get("NoConcat") {
        let files = sep.files.clone();
        let perms = permutations(files.len());
        let perms: Vec<Vec<usize>> = if thorough || files.len() <= 5 { perms } else { perms.into_iter().step_by(5).collect() };
        let mut first_cat: Option<PathBuf> = None;
        for (k, perm) in perms.iter().enumerate() {
            let d = base.path().join(format!("cat{k}"));
            std::fs::create_dir_all(&d).unwrap();
            let outp = d.join("cat.jbk");
            let ordered: Vec<PathBuf> = perm.iter().map(|&i| files[i].clone()).collect();
            let what = format!("concat:{perm:?}");
            match concat(&ordered, &outp) {
                Ok(()) => {
                    let r = dump_vs_model(&l, &outp).map(|_| ());
                    record(what, r, json!({"engine":"packmc","sub":"c10","logical":lname,"comp":comp.name(),"packaging":"concat","order":perm}));
                    if first_cat.is_none() {
                        first_cat = Some(outp);
                    }
                }
                Err(e) => record(what, Err(("concat failed".into(), e)), case("concat")),
            }
        }
        // c. concat of a concat output with a further pack
        if files.len() >= 3 {
            let d = base.path().join("catcat");
            std::fs::create_dir_all(&d).unwrap();
            let part = d.join("part.jbk");
            let full = d.join("sub").join("full.jbk");
            std::fs::create_dir_all(full.parent().unwrap()).unwrap();
            let r = concat(&files[..2], &part).and_then(|_| {
                let mut rest = vec![part.clone()];
                rest.extend(files[2..].iter().cloned());
                concat(&rest, &full)
            });
            match r {
                Ok(()) => record("concat-of-concat".into(), dump_vs_model(&l, &full).map(|_| ()), case("concat-of-concat")),
                Err(e) => record("concat-of-concat".into(), Err(("concat failed".into(), e)), case("concat-of-concat")),
            }
            // a history of concats: a pack handed over twice, the result concatenated again with the
            // rest, and that result concatenated once more on its own into an empty directory
            {
                let d = base.path().join("cathist");
                let far = d.join("far").join("away");
                std::fs::create_dir_all(&far).unwrap();
                let (s1, s2, s3) = (d.join("s1.jbk"), d.join("s2.jbk"), far.join("s3.jbk"));
                let r = concat(&[files[0].clone(), files[1].clone()], &s1)
                    .and_then(|_| {
                        let mut v = vec![s1.clone(), files[1].clone()];
                        v.extend(files[2..].iter().cloned());
                        concat(&v, &s2)
                    })
                    .and_then(|_| concat(&[s2.clone()], &s3));
                match r {
                    Ok(()) => record("concat-history(duplicate input)".into(), dump_vs_model(&l, &s3).map(|_| ()), case("concat-history")),
                    Err(e) => record("concat-history(duplicate input)".into(), Err(("concat failed".into(), e)), case("concat-history")),
                }
            }
            // partial concat (manifest + directory inside, content packs found through their location)
            let d = base.path().join("partial");
            std::fs::create_dir_all(&d).unwrap();
            for f in &files[1..] {
                std::fs::copy(f, d.join(f.file_name().unwrap())).unwrap();
            }
            let content_files: Vec<&PathBuf> = files.iter().filter(|f| f.extension().map(|e| e == "jbkc").unwrap_or(false)).collect();
            let inner: Vec<PathBuf> = files.iter().filter(|f| !content_files.contains(f)).cloned().collect();
            let p = d.join("partial.jbk");
            match concat(&inner, &p) {
                Ok(()) => record("partial-concat(location used)".into(), dump_vs_model(&l, &p).map(|_| ()), case("partial-concat")),
                Err(e) => record("partial-concat(location used)".into(), Err(("concat failed".into(), e)), case("partial-concat")),
            }
        }
        // e. precedence: pack inside the file AND a decoy at its recorded location -> the inner one wins
        if let Some(cat) = &first_cat {
            let d = base.path().join("decoy");
            std::fs::create_dir_all(&d).unwrap();
            let other = shape(if lname == "small" { "multi" } else { "small" });
            let od = d.join("other");
            std::fs::create_dir_all(&od).unwrap();
            if let Ok(oc) = create_logical(&other, comp, Packaging::NoConcat, &od, "c") {
                // the decoys take the names recorded in our manifest
                for f in &oc.files[1..] {
                    let _ = std::fs::copy(f, d.join(f.file_name().unwrap()));
                }
                let target = d.join("cat.jbk");
                std::fs::copy(cat, &target).unwrap();
                record("decoy-at-location(inner wins)".into(), dump_vs_model(&l, &target).map(|_| ()), case("decoy-at-location"));
            }
        }
    }
    // TwoFiles: concat of its two container files, both orders
    if let Some(two) = created.get("TwoFiles") {
        for (k, order) in [[0usize, 1], [1, 0]].iter().enumerate() {
            if two.files.len() < 2 {
                continue;
            }
            let d = base.path().join(format!("two{k}"));
            std::fs::create_dir_all(&d).unwrap();
            let outp = d.join("cat.jbk");
            let mut ordered: Vec<PathBuf> = order.iter().map(|&i| two.files[[0, two.files.len() - 1][i]].clone()).collect();
            // extra packs (if any) go last
            for f in &two.files[1..two.files.len() - 1] {
                ordered.push(f.clone());
            }
            match concat(&ordered, &outp) {
                Ok(()) => record(format!("concat-twofiles:{order:?}"), dump_vs_model(&l, &outp).map(|_| ()), case("concat-twofiles")),
                Err(e) => record(format!("concat-twofiles:{order:?}"), Err(("concat failed".into(), e)), case("concat-twofiles")),
            }
        }
    }
    // d. prefixes prepended to a one-file container
    if let Some(one) = created.get("OneFile") {
        if l.extra_packs.is_empty() {
            let bytes = std::fs::read(&one.path).unwrap();
            let lens: Vec<usize> = if thorough { vec![1, 59, 60, 63, 64, 65, 100, 4095, 4096, 4097, 70_000] } else { vec![1, 63, 64, 65, 4096] };
            for &len in &lens {
                for kind in 0..5 {
                    let d = base.path().join(format!("pre{len}_{kind}"));
                    std::fs::create_dir_all(&d).unwrap();
                    let mut v = prefix_bytes(kind, len, seed, &bytes);
                    v.extend_from_slice(&bytes);
                    let p = d.join("embedded.bin");
                    std::fs::write(&p, &v).unwrap();
                    record(
                        format!("prefix:{len}:{kind}"),
                        dump_vs_model(&l, &p).map(|_| ()),
                        json!({"engine":"packmc","sub":"c10","logical":lname,"comp":comp.name(),"packaging":"prefix","len":len,"kind":kind}),
                    );
                    let _ = std::fs::remove_dir_all(&d);
                }
            }
        }
    }
    out
}

fn c10(args: &Args) -> ! {
    let mut rep = Report::new(
        "packmc",
        "C10",
        "each logical container (shapes small / multi / multi2 with two extra content packs / big with 400 entries) x compression is created as OneFile, TwoFiles, NoConcat; with its extra packs written next to / below / beside / above the entry-point file, read in place and after moving the whole tree; with multi-byte file names and with pack files reached through symbolic links; its separate files are concatenated in every order (all permutations), a concat output is concatenated again, a history of three concats with one pack handed over twice ends in an empty directory, manifest+directory only (content through the recorded location), a decoy pack sits at the recorded location while the real one is inside, TwoFiles' files concatenated in both orders, and the one-file container is embedded after prefixes (lengths x 5 kinds); every packaging's full dump must equal the reference model's; non-trivial = every case; distinct by (logical, compression, packaging, order/prefix)",
    );
    let t = args.thorough();
    let mut configs: Vec<(&str, Comp)> = vec![];
    let comps: Vec<Comp> = vec![Comp::None, Comp::Zstd(5), Comp::Lz4(3), Comp::Lzma(1)];
    for c in &comps {
        configs.push(("multi", *c));
    }
    configs.push(("small", Comp::Zstd(5)));
    configs.push(("multi2", Comp::Zstd(5)));
    configs.push(("small", Comp::None));
    configs.push(("multi2", Comp::None));
    configs.push(("small", Comp::Lz4(3)));
    configs.push(("small", Comp::Lzma(1)));
    configs.push(("multi2", Comp::Lz4(3)));
    configs.push(("multi2", Comp::Lzma(1)));
    // 400 entries: a directory pack above 4 KiB (read through a mapping when it is alone in its file)
    configs.push(("big", Comp::None));
    if t {
        configs.push(("big", Comp::Zstd(5)));
        configs.push(("big", Comp::Lz4(3)));
        configs.push(("big", Comp::Lzma(1)));
        // 12 contents of 48 KiB in one cluster / a 160 KiB content and an extra pack
        configs.push(("wide", Comp::Zstd(5)));
        configs.push(("mid", Comp::Zstd(5)));
        configs.push(("mid", Comp::None));
    }
    if let Some(p) = &args.replay {
        let j: J = serde_json::from_str(&std::fs::read_to_string(p).expect("replay file")).unwrap();
        let case = if j.get("case").is_some() { &j["case"] } else { &j };
        let lname = case["logical"].as_str().unwrap().to_string();
        let comp = Comp::parse(case["comp"].as_str().unwrap());
        let leaked: &'static str = Box::leak(lname.into_boxed_str());
        configs = vec![(leaked, comp)];
    }
    let seed = args.seed;
    let results: Vec<Vec<CaseOut>> = configs
        .par_iter()
        .map(|(l, c)| match jbkmc::catch(|| c10_for(l, *c, t, seed)) {
            Ok(v) => v,
            Err(p) => {
                // a panic outside the per-case guards: the library's when it comes from its sources
                let key = if !p.starts_with('/') { format!("MACHINERY harness panic {}", jbkmc::panic_site(&p)) } else { format!("C10 panic {}", jbkmc::panic_site(&p)) };
                vec![CaseOut {
                    id: format!("{l}/{}:panic", c.name()),
                    outcome: "violation".into(),
                    violation: Some((key, format!("{l}/{}: {p}", c.name()), json!({"engine":"packmc","sub":"c10","logical":l,"comp":c.name()}))),
                }]
            }
        })
        .collect();
    for r in results.into_iter().flatten() {
        rep.case(Some(&r.id), &r.outcome);
        if rep.samples.len() < 5 && (r.id.contains("concat:") || r.id.contains("prefix")) {
            rep.sample(json!(r.id));
        }
        if let Some((k, w, c)) = r.violation {
            if k.contains("MACHINERY") {
                rep.machinery_errors.push(w);
            } else {
                rep.violation(&k, &w, c);
            }
        }
    }
    rep.note("a prefix that is itself a CRC-valid pack header is not enumerated: the reader documents that a valid header at offset 0 wins");
    rep.finish(args)
}

// ======================================================================== C11

#[derive(Clone, Copy, Debug, PartialEq)]
enum Unavail {
    Removed,
    Directory,
    OtherPack,
}

type Template = (tempfile::TempDir, Result<CreatedLogical, String>);
static TEMPLATES: std::sync::Mutex<std::collections::BTreeMap<String, std::sync::Arc<Template>>> = std::sync::Mutex::new(std::collections::BTreeMap::new());

fn logical_n(n: usize) -> Logical {
    let mut l = shape("multi2");
    while l.extra_packs.len() < n - 1 {
        let k = l.extra_packs.len() as u64;
        l.extra_packs.push(vec![
            Item { len: 200 + 10 * k as usize, entropy: Entropy::Low, hint: Hint::Yes, src: Src::Memory, tag: 40 + k },
            Item { len: 50, entropy: Entropy::High, hint: Hint::No, src: Src::Memory, tag: 50 + k },
        ]);
    }
    l.extra_packs.truncate(n - 1);
    // entries must only reference existing packs
    for (i, e) in l.dir.entries.iter_mut().enumerate() {
        if e.variant == Some(0) {
            let last = e.vals.len() - 1;
            e.vals[last] = jbkmc::dirmodel::Val::C((1 + i % n) as u16, (i % 2) as u32);
        }
    }
    l
}

/// `inside[k]`: content pack k+1 is also embedded in the entry-point file (a concat of manifest,
/// directory and those packs); what `assign[k]` then does to the file at its recorded location
/// must not matter: the pack is available by identity inside the file at hand.
fn c11_case(n: usize, lowlevel: bool, order: &[usize], inside: &[bool], comp: Comp, assign: &[Option<Unavail>]) -> CaseOut {
    let l = logical_n(n);
    let base = jbkmc::scratch_dir("miss");
    let d = base.path().join("c");
    std::fs::create_dir_all(&d).unwrap();
    let id = format!("n={n} lowlevel={lowlevel} order={order:?} inside={inside:?} comp={} {:?}", comp.name(), assign);
    let is_inside = |k: usize| inside.get(k).copied().unwrap_or(false);
    let case = json!({"engine":"packmc","sub":"c11","n":n,"lowlevel":lowlevel,"order":order,"inside":inside,"comp":comp.name(),
        "unavailable": assign.iter().map(|a| a.map(|x| format!("{x:?}"))).collect::<Vec<_>>()});
    let fail = |k: &str, w: String| CaseOut { id: id.clone(), outcome: "violation".into(), violation: Some((format!("C11 {k}"), w, case.clone())) };
    // the packs are the same for every case of one construction: create them once, copy per case
    let created = {
        let key = format!("{n}/{lowlevel}/{order:?}/{}", comp.name());
        let tpl = {
            let mut map = TEMPLATES.lock().unwrap();
            if !map.contains_key(&key) {
                let td = jbkmc::scratch_dir("misstpl");
                let c = if lowlevel { create_lowlevel(&l, comp, td.path(), order) } else { create_logical(&l, comp, Packaging::NoConcat, td.path(), "c") };
                map.insert(key.clone(), std::sync::Arc::new((td, c)));
            }
            map.get(&key).unwrap().clone()
        };
        match &tpl.1 {
            Err(e) => return fail("creation failed", e.clone()),
            Ok(c) => {
                let mut files = vec![];
                for f in &c.files {
                    let to = d.join(f.file_name().unwrap());
                    std::fs::copy(f, &to).unwrap();
                    files.push(to);
                }
                CreatedLogical { path: d.join(c.path.file_name().unwrap()), files }
            }
        }
    };
    // which file holds content pack id k (1-based)?
    let pack_file = |id: usize| -> PathBuf {
        if lowlevel {
            d.join(format!("pack{id}.jbkc"))
        } else if id == 1 {
            created.path.with_extension("jbkc")
        } else {
            d.join(format!("c.extra{id}.jbkc"))
        }
    };
    // pristine manifest view (what MISSING must report)
    let pristine_manifest = dump_manifest(&created.path);
    // entry point: the manifest file, or a concat of manifest + directory + the packs held inside
    let entry: PathBuf = if inside.iter().any(|x| *x) {
        assert!(lowlevel);
        let mut files = vec![created.path.clone(), d.join("dir.jbkd")];
        for k in 0..n {
            if is_inside(k) {
                files.push(pack_file(k + 1));
            }
        }
        let e = d.join("entry.jbk");
        if let Err(e) = concat(&files, &e) {
            return fail("concat failed", e);
        }
        e
    } else {
        created.path.clone()
    };
    // a different valid content pack with the same number of contents (for OtherPack)
    let decoy_dir = base.path().join("decoy");
    std::fs::create_dir_all(&decoy_dir).unwrap();
    for (k, a) in assign.iter().enumerate() {
        let id = k + 1;
        let f = pack_file(id);
        match a {
            None => {}
            Some(Unavail::Removed) => std::fs::remove_file(&f).unwrap(),
            Some(Unavail::Directory) => {
                std::fs::remove_file(&f).unwrap();
                std::fs::create_dir_all(&f).unwrap();
            }
            Some(Unavail::OtherPack) => {
                let items = if id == 1 { l.contents.clone() } else { l.extra_packs[id - 2].clone() };
                let p = decoy_dir.join(format!("decoy{id}.jbkc"));
                let up = camino::Utf8PathBuf::from_path_buf(p.clone()).unwrap();
                let r = jbkmc::catch(|| -> Result<(), String> {
                    let mut c = jbk::creator::ContentPackCreator::new(&up, jbk::PackId::from(id as u16), jbk::VendorId::from(VENDOR), Default::default(), comp.to_jbk()).map_err(|e| e.to_string())?;
                    for (j, it) in items.iter().enumerate() {
                        let mut it = it.clone();
                        it.tag += 777 + j as u64; // other bytes, same count
                        c.add_content(Box::new(std::io::Cursor::new(it.bytes())), it.hint.to_jbk()).map_err(|e| e.to_string())?;
                    }
                    c.finalize().map_err(|e| e.to_string())?;
                    Ok(())
                });
                if !matches!(r, Ok(Ok(()))) {
                    return fail("MACHINERY decoy creation failed", format!("{r:?}"));
                }
                std::fs::copy(&p, &f).unwrap();
            }
        }
    }
    // ---- read
    let opts = opts_for(&l);
    let dump = match jbkmc::catch(|| dump_container(&entry, &opts)) {
        Ok(d) => d,
        Err(p) => return fail(&format!("panic {}", jbkmc::panic_site(&p)), p),
    };
    if dump["open"] != json!("ok") {
        return fail("container does not open with unavailable content packs", format!("{}", dump["open"]));
    }
    let model = model_dump(&l);
    // entries and values read as in the model
    let diffs = compare_with_model(&model["indexes"], &dump["indexes"]);
    if let Some(df) = diffs.first() {
        return fail("entries read differently with unavailable content packs", format!("{}: {} vs {}", df.path, df.altered, df.pristine));
    }
    let all_items: Vec<(usize, usize)> = std::iter::once((1, l.contents.len())).chain(l.extra_packs.iter().enumerate().map(|(k, e)| (k + 2, e.len()))).collect();
    for (id, count) in all_items {
        let unavailable = assign[id - 1].is_some() && !is_inside(id - 1);
        let recorded = pristine_manifest["packs"].as_array().and_then(|a| a.iter().find(|p| p["id"] == json!(id))).cloned().unwrap_or(J::Null);
        for i in 0..count {
            let node = &dump["contents"][format!("{id}/{i}")];
            if unavailable && i > 0 {
                continue; // only content 0 is probed for a missing pack by the dump
            }
            if !unavailable {
                if node != &model["contents"][format!("{id}/{i}")] {
                    return fail("content of an available pack reads differently", format!("{id}/{i}: {node}"));
                }
            } else {
                match node.get("missing") {
                    Some(m) => {
                        if m["pack_id"] != json!(id) || m["uuid"] != recorded["uuid"] || m["location"] != recorded["location"] {
                            return fail("MISSING carries a wrong pack description", format!("{id}/{i}: {m} but the manifest recorded {recorded}"));
                        }
                    }
                    None => {
                        let how = format!("{:?}", assign[id - 1].unwrap());
                        let kind = if node.get("err").is_some() { "an error" } else if node.get("size").is_some() { "bytes" } else { "something else" };
                        return fail(&format!("content of an unavailable pack ({how}) yields {kind} instead of MISSING"), format!("{id}/{i}: {node}"));
                    }
                }
            }
        }
    }
    if dump["contents"]["99/0"] != json!("no such pack") && dump["packs"]["99"] != json!("no such pack") {
        return fail("unknown pack id is not answered 'no such pack'", format!("{}", dump["packs"]["99"]));
    }
    if dump["check"] != json!(true) {
        return fail("check() of the container with unavailable packs is not Ok(true)", format!("{}", dump["check"]));
    }
    // "The container check covers the packs that are present": damage one stored byte of each
    // available content pack in turn; check() must then not answer true.
    for (k, a) in assign.iter().enumerate() {
        if a.is_some() || is_inside(k) {
            continue;
        }
        let f = pack_file(k + 1);
        let orig = std::fs::read(&f).unwrap();
        // a byte of stored content: the first cluster's data starts right after the two headers
        // (bare pack: 128; pack inside a container file: 128 + 128)
        let pos = if lowlevel { 130 } else { 258 };
        if orig.len() <= pos {
            continue;
        }
        let mut b = orig.clone();
        b[pos] ^= 0x40;
        std::fs::write(&f, &b).unwrap();
        let chk = jbkmc::catch(|| jbk::reader::Container::new(&entry).and_then(|c| c.check()));
        std::fs::write(&f, &orig).unwrap();
        if let Ok(Ok(true)) = chk {
            return fail(
                "check() passes although a present content pack is damaged (other packs unavailable)",
                format!("pack {} damaged at byte {pos}, unavailable: {:?}", k + 1, assign),
            );
        }
    }
    CaseOut { id, outcome: format!("ok:unavailable={}", assign.iter().filter(|a| a.is_some()).count()), violation: None }
}

/// Every content pack recorded with the SAME location string: packs held inside the entry-point
/// file are found by their identity whatever the (now stale) location says, the others are
/// unavailable (their files are removed) and must be MISSING with the rewritten description —
/// in particular when the missing pack is asked before an available one of the same location.
fn sameloc_case(n: usize, inside: &[bool], comp: Comp) -> CaseOut {
    let l = logical_n(n);
    let base = jbkmc::scratch_dir("sameloc");
    let d = base.path().join("c");
    std::fs::create_dir_all(&d).unwrap();
    let id = format!("same-location n={n} inside={inside:?} comp={}", comp.name());
    let case = json!({"engine":"packmc","sub":"c11","sameloc":true,"n":n,"inside":inside,"comp":comp.name()});
    let fail = |k: &str, w: String| CaseOut { id: id.clone(), outcome: "violation".into(), violation: Some((format!("C11 {k}"), w, case.clone())) };
    let created = match create_lowlevel(&l, comp, &d, &[]) {
        Ok(c) => c,
        Err(e) => return fail("creation failed", e),
    };
    let pristine_manifest = dump_manifest(&created.path);
    let mut files = vec![created.path.clone(), d.join("dir.jbkd")];
    for k in 0..n {
        if inside[k] {
            files.push(d.join(format!("pack{}.jbkc", k + 1)));
        }
    }
    let entry = d.join("entry.jbk");
    if let Err(e) = concat(&files, &entry) {
        return fail("concat failed", e);
    }
    const LOC: &str = "packs.jbkc";
    for k in 0..n {
        let rec = pristine_manifest["packs"].as_array().and_then(|a| a.iter().find(|p| p["id"] == json!(k + 1))).cloned().unwrap_or(J::Null);
        let Some(u) = rec["uuid"].as_str().and_then(|u| uuid::Uuid::parse_str(u).ok()) else {
            return fail("MACHINERY manifest dump without uuid", format!("{rec}"));
        };
        match jbkmc::catch(|| jbk::tools::set_location(&entry, u, jbk::SmallString::from(LOC))) {
            Ok(Ok(Some(_))) => {}
            other => return fail("set_location on the entry-point file fails", format!("pack {}: {other:?}", k + 1)),
        }
        let _ = std::fs::remove_file(d.join(format!("pack{}.jbkc", k + 1)));
    }
    let opts = opts_for(&l);
    let dump = match jbkmc::catch(|| dump_container(&entry, &opts)) {
        Ok(d) => d,
        Err(p) => return fail(&format!("panic {}", jbkmc::panic_site(&p)), p),
    };
    if dump["open"] != json!("ok") {
        return fail("container does not open with unavailable content packs", format!("{}", dump["open"]));
    }
    let model = model_dump(&l);
    let all_items: Vec<(usize, usize)> = std::iter::once((1, l.contents.len())).chain(l.extra_packs.iter().enumerate().map(|(k, e)| (k + 2, e.len()))).collect();
    for (pid, count) in all_items {
        let rec = pristine_manifest["packs"].as_array().and_then(|a| a.iter().find(|p| p["id"] == json!(pid))).cloned().unwrap_or(J::Null);
        for i in 0..count {
            let node = &dump["contents"][format!("{pid}/{i}")];
            if inside[pid - 1] {
                if node != &model["contents"][format!("{pid}/{i}")] {
                    return fail("content of an available pack reads differently (packs sharing one location string)", format!("{pid}/{i}: {node}"));
                }
            } else if i == 0 {
                match node.get("missing") {
                    Some(m) if m["pack_id"] == json!(pid) && m["uuid"] == rec["uuid"] && m["location"] == json!(LOC) => {}
                    Some(m) => return fail("MISSING carries a wrong pack description", format!("{pid}/{i}: {m}")),
                    None => return fail("content of an unavailable pack (Removed) yields something else instead of MISSING", format!("{pid}/{i}: {node}")),
                }
            }
        }
    }
    if dump["check"] != json!(true) {
        return fail("check() of the container with unavailable packs is not Ok(true)", format!("{}", dump["check"]));
    }
    // the check covers every pack that is present: damage one stored byte of each pack held inside
    let orig = std::fs::read(&entry).unwrap();
    for k in 0..n {
        if !inside[k] {
            continue;
        }
        let rec = pristine_manifest["packs"].as_array().and_then(|a| a.iter().find(|p| p["id"] == json!(k + 1))).cloned().unwrap_or(J::Null);
        let Some(u) = rec["uuid"].as_str().and_then(|u| uuid::Uuid::parse_str(u).ok()) else { continue };
        // the pack's header (magic 'jbk' + kind 'c', uuid at +10) inside the entry-point file
        let Some(at) = orig.windows(26).position(|w| &w[0..4] == b"jbkc" && &w[10..26] == u.as_bytes()) else { continue };
        let pos = at + 130;
        if pos >= orig.len() {
            continue;
        }
        let mut b = orig.clone();
        b[pos] ^= 0x40;
        std::fs::write(&entry, &b).unwrap();
        let chk = jbkmc::catch(|| jbk::reader::Container::new(&entry).and_then(|c| c.check()));
        std::fs::write(&entry, &orig).unwrap();
        if let Ok(Ok(true)) = chk {
            return fail("check() passes although a present content pack is damaged (packs sharing one location string)", format!("pack {} damaged at byte {pos} of the entry-point file", k + 1));
        }
    }
    CaseOut { id, outcome: format!("ok:same-location unavailable={}", inside.iter().filter(|x| !**x).count()), violation: None }
}

/// Content packs whose ids are not 1..n: containers built with the low-level creators, ids taken
/// from `ids` (in that listing order). Every address (id, i) must resolve, ids not listed must be
/// unknown, and removing one pack file must turn exactly that pack's contents into MISSING.
fn sparse_ids_case(ids: &[u16], comp: Comp) -> CaseOut {
    let id = format!("sparse-ids {ids:?} {}", comp.name());
    let case = json!({"engine":"packmc","sub":"c11","sparse_ids":ids,"comp":comp.name()});
    let fail = |k: &str, w: String| CaseOut { id: id.clone(), outcome: "violation".into(), violation: Some((format!("C11 {k}"), w, case.clone())) };
    let base = jbkmc::scratch_dir("sparse");
    let d = base.path().to_path_buf();
    let vendor = jbk::VendorId::from(VENDOR);
    let content = |pid: u16, i: u32| -> Vec<u8> { format!("content {i} of pack {pid} {}", "x".repeat((pid % 7) as usize + i as usize)).into_bytes() };
    let built = jbkmc::catch(|| -> Result<(), String> {
        let mut m = jbk::creator::ManifestPackCreator::new(vendor, Default::default());
        let mut dc = jbk::creator::DirectoryPackCreator::new(jbk::PackId::from(0), vendor, Default::default());
        // one entry per content, holding its address
        let spec = DirSpec {
            schema: SchemaSpec { stores: vec![], common: vec![PropSpec::U, PropSpec::C], variants: vec![], sort: None },
            entries: ids.iter().flat_map(|pid| (0..2u32).map(move |i| EntrySpec { variant: None, vals: vec![Val::U(*pid as u64 * 10 + i as u64), Val::C(*pid, i)] })).collect(),
            indexes: vec![IndexSpec { name: "all".into(), offset: 0, count: ids.len() as u32 * 2 }],
        };
        populate(&spec, None, &mut dc);
        let mut df = std::fs::OpenOptions::new().read(true).write(true).create(true).truncate(true).open(d.join("dir.jbkd")).map_err(|e| e.to_string())?;
        let dinfo = dc.finalize().map_err(|e| e.to_string())?.write(&mut df).map_err(|e| e.to_string())?;
        m.add_pack(dinfo, "dir.jbkd");
        for pid in ids {
            let p = d.join(format!("pack{pid}.jbkc"));
            let up = camino::Utf8PathBuf::from_path_buf(p).unwrap();
            let mut c = jbk::creator::ContentPackCreator::new(&up, jbk::PackId::from(*pid), vendor, Default::default(), comp.to_jbk()).map_err(|e| e.to_string())?;
            for i in 0..2u32 {
                c.add_content(Box::new(std::io::Cursor::new(content(*pid, i))), if i == 0 { jbk::creator::CompHint::Yes } else { jbk::creator::CompHint::No }).map_err(|e| e.to_string())?;
            }
            let (_f, info) = c.finalize().map_err(|e| e.to_string())?;
            m.add_pack(info, format!("pack{pid}.jbkc"));
        }
        let mut mf = std::fs::OpenOptions::new().read(true).write(true).create(true).truncate(true).open(d.join("main.jbkm")).map_err(|e| e.to_string())?;
        m.finalize(&mut mf).map_err(|e| e.to_string())?;
        Ok(())
    });
    match built {
        Ok(Ok(())) => {}
        Ok(Err(e)) => return fail("creation failed (sparse pack ids)", e),
        Err(p) => return fail(&format!("creation failed (sparse pack ids) {}", jbkmc::panic_site(&p)), p),
    }
    let entry = d.join("main.jbkm");
    let probe = |removed: Option<u16>| -> Result<(), (String, String)> {
        let o = open(&entry, Packaging::NoConcat).map_err(|e| ("container with sparse pack ids does not open".to_string(), e))?;
        for pid in ids {
            for i in 0..2u32 {
                let got = o.get(*pid, i).map_err(|e| ("content of a pack with a sparse id: read error".to_string(), format!("{pid}/{i}: {e}")))?;
                match (got, removed == Some(*pid)) {
                    (Got::Bytes(b), false) if b == content(*pid, i) => {}
                    (Got::Missing, true) => {}
                    (Got::Bytes(_), false) => return Err(("content of an available pack reads differently".into(), format!("{pid}/{i} (sparse ids {ids:?})"))),
                    (Got::NoSuchPack, _) => return Err(("a pack listed in the manifest is answered 'no such pack'".into(), format!("pack id {pid} of {ids:?}, removed: {removed:?}"))),
                    (Got::Missing, false) => return Err(("an available pack is reported missing".into(), format!("pack id {pid} of {ids:?}, removed: {removed:?}"))),
                    (other, avail) => return Err(("wrong answer for a content address".into(), format!("{pid}/{i}: {} (removed {removed:?}, available {})", match other { Got::Bytes(_) => "bytes", Got::NoSuchContent => "no such content", Got::NoSuchPack => "no such pack", Got::Missing => "missing" }, !avail))),
                }
            }
            match o.get(*pid, 2) {
                Ok(Got::NoSuchContent) => {}
                Ok(Got::Missing) if removed == Some(*pid) => {}
                other => return Err(("address past the content count: wrong answer".into(), format!("{pid}/2: {:?}", other.map(|_| "something else")))),
            }
        }
        let max = *ids.iter().max().unwrap();
        for unknown in [max.saturating_add(1), 0u16.max(ids.iter().min().unwrap().saturating_sub(1)), 99] {
            if ids.contains(&unknown) || unknown == 0 {
                continue;
            }
            match o.get(unknown, 0) {
                Ok(Got::NoSuchPack) => {}
                other => return Err(("unknown pack id: wrong answer".into(), format!("pack {unknown}: {:?}", other.map(|_| "not 'no such pack'")))),
            }
        }
        match o.check() {
            Ok(true) => Ok(()),
            other => Err(("check() of the container is not Ok(true)".into(), format!("{other:?} (removed {removed:?})"))),
        }
    };
    let run = |removed: Option<u16>| jbkmc::catch(|| probe(removed));
    match run(None) {
        Ok(Ok(())) => {}
        Ok(Err((k, w))) => return fail(&k, w),
        Err(p) => return fail(&format!("panic {}", jbkmc::panic_site(&p)), p),
    }
    for pid in ids {
        let f = d.join(format!("pack{pid}.jbkc"));
        let keep = std::fs::read(&f).unwrap();
        std::fs::remove_file(&f).unwrap();
        let r = run(Some(*pid));
        std::fs::write(&f, keep).unwrap();
        match r {
            Ok(Ok(())) => {}
            Ok(Err((k, w))) => return fail(&k, w),
            Err(p) => return fail(&format!("panic {}", jbkmc::panic_site(&p)), p),
        }
    }
    // the container check covers every pack that is present, whatever its id: one stored byte of
    // each pack damaged in turn (bare pack file: the first cluster's data starts at byte 128)
    for pid in ids {
        let f = d.join(format!("pack{pid}.jbkc"));
        let keep = std::fs::read(&f).unwrap();
        if keep.len() <= 130 {
            continue;
        }
        let mut b = keep.clone();
        b[130] ^= 0x40;
        std::fs::write(&f, &b).unwrap();
        let chk = jbkmc::catch(|| jbk::reader::Container::new(&entry).and_then(|c| c.check()));
        std::fs::write(&f, keep).unwrap();
        if let Ok(Ok(true)) = chk {
            return fail("check() passes although a present content pack is damaged (pack ids that are not 1..n)", format!("pack {pid} damaged at byte 130"));
        }
    }
    CaseOut { id, outcome: "ok:sparse pack ids".into(), violation: None }
}

fn c11(args: &Args) -> ! {
    let mut rep = Report::new(
        "packmc",
        "C11",
        "containers with n in {1,2,3} (thorough: 4) content packs in separate files, built by BasicCreator NoConcat+extras and by the low-level creators with the manifest listing the directory and the content packs in every order (n<=2, thorough n<=3) or in identity/reversed/rotated orders; every subset of the content packs x every way {removed, replaced by a directory, replaced by a different valid content pack with the same content count} per member (full product); the same with every non-empty subset of the packs also held inside the entry-point file (concat), where the file at the recorded location must not matter; plus containers whose content packs carry ids that are not 1..n ({5}, {1,5}, {5,1}, {2,3}, {300}, {1,300,2}, {256,255}, {65535,1}), each pack removed in turn and each pack damaged in turn (check() must not pass); plus containers (n = 2, 3) whose content packs are all recorded with one and the same location string (tools::set_location), every subset held inside the entry-point file and the others removed: packs inside read, the others are MISSING with the rewritten description, check() true and false once a pack inside is damaged; oracle: opens, every entry as the model, available contents read, unavailable ones MISSING with the recorded uuid/id/location, check() true, unknown pack id -> none; non-trivial = at least one pack unavailable",
    );
    let t = args.thorough();
    let ways = [None, Some(Unavail::Removed), Some(Unavail::Directory), Some(Unavail::OtherPack)];
    let mut cases: Vec<(usize, bool, Vec<usize>, Vec<bool>, Comp, Vec<Option<Unavail>>)> = vec![];
    let maxn = if t { 4 } else { 3 };
    for n in 1..=maxn {
        // constructions: BasicCreator, and the low-level creators with the manifest listing
        // [directory, pack 1..n] in every order (n<=2; n=3 in thorough) or in a spread of orders
        // (identity, reversed = descending ids with the directory last, rotations)
        let mut constructions: Vec<(bool, Vec<usize>)> = vec![(false, vec![])];
        let perms = permutations(n + 1);
        if n <= 2 || (t && n == 3) {
            constructions.extend(perms.into_iter().map(|p| (true, p)));
        } else {
            let id: Vec<usize> = (0..=n).collect();
            let mut rev = id.clone();
            rev.reverse();
            let mut picks = vec![id.clone(), rev.clone()];
            for r in 1..=n {
                let mut a = id.clone();
                a.rotate_left(r);
                picks.push(a);
                let mut b = rev.clone();
                b.rotate_left(r);
                picks.push(b);
            }
            picks.sort();
            picks.dedup();
            constructions.extend(picks.into_iter().map(|p| (true, p)));
        }
        for (lowlevel, order) in constructions {
            let comps: Vec<Comp> = if t { vec![Comp::None, Comp::Zstd(5), Comp::Lz4(3), Comp::Lzma(1)] } else { vec![Comp::None, Comp::Zstd(5)] };
            for comp in comps {
                for sel in sequences(4, n) {
                    cases.push((n, lowlevel, order.clone(), vec![], comp, sel.iter().map(|&i| ways[i]).collect()));
                }
            }
        }
        // some packs held by the entry-point file itself (every non-empty subset), the file at
        // their recorded location kept / removed / a directory / a different valid pack
        for mask in 1u32..(1 << n) {
            let inside: Vec<bool> = (0..n).map(|k| mask >> k & 1 == 1).collect();
            for comp in [Comp::None, Comp::Zstd(5)] {
                for sel in sequences(4, n) {
                    cases.push((n, true, vec![], inside.clone(), comp, sel.iter().map(|&i| ways[i]).collect()));
                }
            }
        }
    }
    if let Some(p) = &args.replay {
        let j: J = serde_json::from_str(&std::fs::read_to_string(p).expect("replay file")).unwrap();
        let case = if j.get("case").is_some() { &j["case"] } else { &j };
        let assign: Vec<Option<Unavail>> = case["unavailable"].as_array().cloned().unwrap_or_default().iter().map(|x| match x.as_str() {
            Some("Removed") => Some(Unavail::Removed),
            Some("Directory") => Some(Unavail::Directory),
            Some("OtherPack") => Some(Unavail::OtherPack),
            _ => None,
        }).collect();
        let order: Vec<usize> = case["order"].as_array().map(|a| a.iter().map(|x| x.as_u64().unwrap() as usize).collect()).unwrap_or_default();
        let inside: Vec<bool> = case["inside"].as_array().map(|a| a.iter().map(|x| x.as_bool().unwrap()).collect()).unwrap_or_default();
        cases = if case.get("sameloc").is_some() { vec![] } else { vec![(case["n"].as_u64().unwrap() as usize, case["lowlevel"].as_bool().unwrap(), order, inside, Comp::parse(case["comp"].as_str().unwrap()), assign)] };
    }
    let results: Vec<CaseOut> = cases.par_iter().map(|(n, ll, o, i, c, a)| c11_case(*n, *ll, o, i, *c, a)).collect();
    for (r, (_, _, _, _, _, a)) in results.into_iter().zip(cases.iter()) {
        let nontrivial = a.iter().any(|x| x.is_some());
        rep.case(if nontrivial { Some(&r.id) } else { None }, &r.outcome);
        if rep.samples.len() < 5 && nontrivial {
            rep.sample(json!(r.id));
        }
        if let Some((k, w, c)) = r.violation {
            if k.contains("MACHINERY") {
                rep.machinery_errors.push(w);
            } else {
                rep.violation(&k, &w, c);
            }
        }
    }
    // every content pack recorded with the same location string
    {
        let mut sl: Vec<(usize, Vec<bool>, Comp)> = vec![];
        for n in 2..=3usize {
            for mask in 0u32..(1 << n) {
                for comp in [Comp::None, Comp::Zstd(5)] {
                    sl.push((n, (0..n).map(|k| mask >> k & 1 == 1).collect(), comp));
                }
            }
        }
        if let Some(p) = &args.replay {
            let j: J = serde_json::from_str(&std::fs::read_to_string(p).expect("replay file")).unwrap();
            let case = if j.get("case").is_some() { &j["case"] } else { &j };
            sl.retain(|(n, i, c)| case.get("sameloc").is_some() && case["n"] == json!(n) && case["inside"] == json!(i) && case["comp"] == json!(c.name()));
        }
        let out: Vec<CaseOut> = sl.par_iter().map(|(n, i, c)| sameloc_case(*n, i, *c)).collect();
        for r in out {
            rep.case(Some(&r.id), &r.outcome);
            if let Some((k, w, c)) = r.violation {
                if k.contains("MACHINERY") {
                    rep.machinery_errors.push(w);
                } else {
                    rep.violation(&k, &w, c);
                }
            }
        }
    }
    // pack ids that are not 1..n
    if args.replay.is_none() {
        let sets: Vec<Vec<u16>> = vec![vec![5], vec![1, 5], vec![5, 1], vec![2, 3], vec![300], vec![1, 300, 2], vec![256, 255], vec![65_535, 1]];
        let sparse: Vec<CaseOut> = sets.par_iter().flat_map(|ids| [Comp::None, Comp::Zstd(5)].into_iter().map(|c| sparse_ids_case(ids, c)).collect::<Vec<_>>()).collect();
        for r in sparse {
            rep.case(Some(&r.id), &r.outcome);
            if let Some((k, w, c)) = r.violation {
                rep.violation(&k, &w, c);
            }
        }
    }
    TEMPLATES.lock().unwrap().clear();
    rep.finish(args)
}

fn main() {
    jbkmc::install_quiet_panic_hook();
    let args = Args::parse();
    match args.sub.as_str() {
        "c10" => c10(&args),
        "c11" => c11(&args),
        other => {
            eprintln!("unknown subcommand {other}");
            std::process::exit(2)
        }
    }
}
