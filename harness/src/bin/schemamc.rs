//! schemamc — bounded-exhaustive schemas/entry sets on the real DirectoryPackCreator + reader.
//! Subcommands: c02 (values read back), c03 (sorted stores + lookup), c15 (references).

use jbkmc::dirmodel::*;
use jbkmc::gen::*;
use jbkmc::{Args, Report};
use rayon::prelude::*;
use serde_json::{json, Value as J};

struct CaseResult {
    id: String,
    nontrivial: bool,
    outcome: String,
    violation: Option<(String, String, J)>,
    sample: J,
}

fn run_cases<D: Sync>(rep: &mut Report, descs: &[D], f: impl Fn(&D) -> CaseResult + Sync) {
    for chunk in descs.chunks(4096) {
        let results: Vec<CaseResult> = chunk.par_iter().map(&f).collect();
        for (i, r) in results.into_iter().enumerate() {
            rep.case(if r.nontrivial { Some(&r.id) } else { None }, &r.outcome);
            if i == 0 || (r.nontrivial && rep.samples.len() < 4) {
                rep.sample(r.sample.clone());
            }
            if let Some((k, w, c)) = r.violation {
                rep.violation(&k, &w, c);
            }
        }
    }
}

fn ident(k: usize) -> u64 {
    k as u64
}

fn simple_index(n: usize) -> Vec<IndexSpec> {
    vec![IndexSpec {
        name: "all".into(),
        offset: 0,
        count: n as u32,
    }]
}

fn eval(tier: &str, spec: &DirSpec, unrep: Option<String>) -> CaseResult {
    let out = check_roundtrip(spec, None, &ident, unrep);
    let id = format!("{tier}:{}", spec.to_json());
    let (outcome, violation, nontrivial) = match out {
        Outcome::Ok => ("ok".to_string(), None, !spec.entries.is_empty()),
        Outcome::RejectedUnrepresentable(r) => (format!("rejected:{r}"), None, true),
        Outcome::Violation { key, what } => (
            format!("violation:{key}"),
            Some((
                format!("C02 {key}"),
                what,
                json!({"engine": "schemamc", "sub": "c02", "tier": tier, "spec": spec.to_json()}),
            )),
            true,
        ),
    };
    CaseResult {
        id,
        nontrivial,
        outcome,
        violation,
        sample: json!({"tier": tier, "spec": spec.brief()}),
    }
}

fn uint_alphabet() -> Vec<u64> {
    vec![
        0,
        1,
        255,
        256,
        65_535,
        65_536,
        (1 << 24) - 1,
        1 << 24,
        (1u64 << 32) - 1,
        1u64 << 32,
        (1u64 << 56) - 1,
        1u64 << 56,
        u64::MAX,
    ]
}

fn sint_alphabet() -> Vec<i64> {
    vec![
        0,
        1,
        -1,
        127,
        128,
        -128,
        -129,
        32_767,
        32_768,
        -32_768,
        -32_769,
        (1 << 31) - 1,
        1 << 31,
        -(1 << 31),
        -(1 << 31) - 1,
        i64::MAX,
        i64::MIN,
    ]
}

fn content_alphabet() -> Vec<(u16, u32)> {
    let mut v = vec![];
    for p in [0u16, 1, 255, 256, 65_535] {
        for c in [0u32, 255, 256, 65_535, 65_536, (1 << 24) - 1, 1 << 24, u32::MAX] {
            v.push((p, c));
        }
    }
    v
}

fn one_col(p: PropSpec, stores: Vec<StoreKind>, vals: Vec<Val>) -> DirSpec {
    let n = vals.len();
    DirSpec {
        schema: SchemaSpec {
            stores,
            common: vec![p],
            variants: vec![],
            sort: None,
        },
        entries: vals
            .into_iter()
            .map(|v| EntrySpec {
                variant: None,
                vals: vec![v],
            })
            .collect(),
        indexes: simple_index(n),
    }
}

// ---------------------------------------------------------------- tier A
fn tier_a(rep: &mut Report, thorough: bool) {
    let maxk = if thorough { 3 } else { 2 };
    // integers, plain and as Word
    let ua = uint_alphabet();
    let sa = sint_alphabet();
    let ca = content_alphabet();
    #[derive(Clone)]
    enum D {
        U(Vec<usize>, bool),
        S(Vec<usize>, bool),
        C(Vec<usize>),
    }
    let mut descs = vec![];
    for k in 0..=maxk {
        for m in multisets(ua.len(), k) {
            descs.push(D::U(m.clone(), false));
            if k > 0 {
                descs.push(D::U(m, true));
            }
        }
        for m in multisets(sa.len(), k) {
            descs.push(D::S(m.clone(), false));
            if k > 0 {
                descs.push(D::S(m, true));
            }
        }
    }
    for k in 0..=maxk {
        for m in multisets(ca.len(), k) {
            descs.push(D::C(m));
        }
    }
    run_cases(rep, &descs, |d| {
        let spec = match d {
            D::U(m, w) => one_col(
                PropSpec::U,
                vec![],
                m.iter()
                    .map(|&i| if *w { Val::UW(ua[i]) } else { Val::U(ua[i]) })
                    .collect(),
            ),
            D::S(m, w) => one_col(
                PropSpec::S,
                vec![],
                m.iter()
                    .map(|&i| if *w { Val::SW(sa[i]) } else { Val::S(sa[i]) })
                    .collect(),
            ),
            D::C(m) => one_col(
                PropSpec::C,
                vec![],
                m.iter().map(|&i| Val::C(ca[i].0, ca[i].1)).collect(),
            ),
        };
        eval("A-int", &spec, None)
    });

    // arrays
    struct AD {
        prefix: usize,
        store: StoreKind,
        vals: Vec<(usize, u8)>,
    }
    let mut adescs = vec![];
    for prefix in [0usize, 1, 2, 3, 31] {
        for store in [StoreKind::Plain, StoreKind::Indexed] {
            let mut lens: Vec<usize> = vec![0, 1, prefix.saturating_sub(1), prefix, prefix + 1, 255, 256];
            if thorough {
                lens.extend([65_535, 65_536]);
            }
            lens.sort();
            lens.dedup();
            let mut alphabet: Vec<(usize, u8)> = vec![];
            for &l in &lens {
                if l == 0 {
                    alphabet.push((0, 0));
                } else {
                    for f in [0x00u8, b'a', 0xff] {
                        alphabet.push((l, f));
                    }
                }
            }
            for k in 0..=maxk {
                for m in multisets(alphabet.len(), k) {
                    // size-3 multisets only over the short values (keeps 64 KiB triples out)
                    if k == 3 && m.iter().any(|&i| alphabet[i].0 > prefix + 1 && alphabet[i].0 > 3) {
                        continue;
                    }
                    adescs.push(AD {
                        prefix,
                        store,
                        vals: m.iter().map(|&i| alphabet[i]).collect(),
                    });
                }
            }
        }
    }
    // the same value three times and more (the stores merge duplicates), alone and interleaved
    for prefix in [0usize, 1, 3] {
        for store in [StoreKind::Plain, StoreKind::Indexed] {
            for l in [1usize, prefix + 2, 300] {
                let (v, w) = ((l, b'a'), (l + 1, b'b'));
                for pat in ["VVV", "VVVV", "VWVVV", "WVVVWW", "VVVVVWWW", "WWWV"] {
                    adescs.push(AD { prefix, store, vals: pat.chars().map(|c| if c == 'V' { v } else { w }).collect() });
                }
            }
        }
    }
    run_cases(rep, &adescs, |d| {
        let spec = one_col(
            PropSpec::A {
                prefix: d.prefix,
                store: 0,
            },
            vec![d.store],
            d.vals.iter().map(|&(l, f)| Val::A(vec![f; l])).collect(),
        );
        eval("A-array", &spec, None)
    });

    // unrepresentable: array of 2^24 bytes, prefix 32
    if thorough {
        let big = one_col(
            PropSpec::A { prefix: 1, store: 0 },
            vec![StoreKind::Plain],
            vec![Val::A(vec![b'x'; 1 << 24]), Val::A(vec![b'y'; 3])],
        );
        let r = eval("A-unrep", &big, None);
        rep.case(Some(&r.id.chars().take(200).collect::<String>()), &r.outcome);
        if let Some((k, w, _)) = r.violation {
            rep.violation(&k, &w, json!({"engine":"schemamc","sub":"c02","tier":"A-unrep","builtin":"array 2^24"}));
        }
        let maxok = one_col(
            PropSpec::A { prefix: 1, store: 0 },
            vec![StoreKind::Plain],
            vec![Val::A(vec![b'x'; (1 << 24) - 1]), Val::A(vec![b'y'; 3])],
        );
        let r = eval("A-max", &maxok, None);
        rep.case(Some(&r.id.chars().take(200).collect::<String>()), &r.outcome);
        if let Some((k, w, _)) = r.violation {
            rep.violation(&k, &w, json!({"engine":"schemamc","sub":"c02","tier":"A-max","builtin":"array 2^24-1"}));
        }
    }
    // prefix 32 is outside the property's domain (inline prefix 0..31): not enumerated.
    rep.note("inline prefix > 31 is outside C02's domain and is not enumerated");
}

// ---------------------------------------------------------------- tier B
fn kind_menu() -> Vec<(PropSpec, [Val; 2])> {
    vec![
        (PropSpec::U, [Val::U(3), Val::U(70_000)]),
        (PropSpec::S, [Val::S(-2), Val::S(40_000)]),
        (PropSpec::C, [Val::C(0, 5), Val::C(300, 70_000)]),
        (
            PropSpec::A { prefix: 0, store: 0 },
            [Val::A(b"".to_vec()), Val::A(b"hello".to_vec())],
        ),
        (
            PropSpec::A { prefix: 2, store: 0 },
            [Val::A(b"ab".to_vec()), Val::A(b"abc".to_vec())],
        ),
        (
            PropSpec::A { prefix: 0, store: 1 },
            [Val::A(b"k".to_vec()), Val::A(vec![0xff; 300])],
        ),
        (
            PropSpec::A { prefix: 1, store: 1 },
            [Val::A(b"".to_vec()), Val::A(b"zz".to_vec())],
        ),
    ]
}

fn tier_b(rep: &mut Report, thorough: bool) {
    let menu = kind_menu();
    let mut descs: Vec<(Vec<usize>, usize)> = vec![];
    for ncol in 2..=3 {
        if ncol == 3 && !thorough {
            // quick: triples only over the first 5 kinds
            for cols in sequences(5, 3) {
                for mask in 0..(1usize << ncol) {
                    descs.push((cols.clone(), mask));
                }
            }
            continue;
        }
        for cols in sequences(menu.len(), ncol) {
            for mask in 0..(1usize << ncol) {
                descs.push((cols.clone(), mask));
            }
        }
    }
    run_cases(rep, &descs, |(cols, mask)| {
        // mask bit c set: column c varies between the two entries; else constant
        let schema = SchemaSpec {
            stores: vec![StoreKind::Plain, StoreKind::Indexed],
            common: cols.iter().map(|&c| menu[c].0.clone()).collect(),
            variants: vec![],
            sort: None,
        };
        let e = |row: usize| EntrySpec {
            variant: None,
            vals: cols
                .iter()
                .enumerate()
                .map(|(c, &k)| {
                    if mask & (1 << c) != 0 {
                        menu[k].1[row].clone()
                    } else {
                        menu[k].1[1].clone()
                    }
                })
                .collect(),
        };
        let spec = DirSpec {
            schema,
            entries: vec![e(0), e(1), e(0)],
            indexes: simple_index(3),
        };
        eval("B", &spec, None)
    });
}

// ---------------------------------------------------------------- tier C (variants)
#[derive(Clone)]
struct VarItem {
    /// (property, varying?) ; varying needs >= 2 entries of that variant
    props: Vec<(PropSpec, u8)>, // u8: 0 = constant, 1 = varying 1 byte, 2 = varying 2 bytes, 8 = varying 8 bytes, 33 = array
}

fn var_menu() -> Vec<VarItem> {
    let u = |w: u8| (PropSpec::U, w);
    vec![
        VarItem { props: vec![] },
        VarItem { props: vec![u(1)] },
        VarItem { props: vec![u(0)] },
        VarItem { props: vec![u(8)] },
        VarItem { props: vec![u(0), u(1)] },
        VarItem { props: vec![u(1), u(0)] },
        VarItem {
            props: vec![(PropSpec::A { prefix: 31, store: 0 }, 33)],
        },
        VarItem { props: vec![u(1), u(0), u(2)] },
        VarItem { props: vec![u(8), u(8), u(1)] },
    ]
}

fn var_value(w: u8, row: usize, salt: u64) -> Val {
    match w {
        0 => Val::U(7 + salt),
        1 => Val::U([3, 200][row % 2]),
        2 => Val::U([300, 60_000][row % 2]),
        8 => Val::U([1u64 << 60, 5][row % 2]),
        _ => Val::A(if row % 2 == 0 {
            vec![b'q'; 40]
        } else {
            b"short".to_vec()
        }),
    }
}

fn tier_c(rep: &mut Report, thorough: bool) {
    let menu = var_menu();
    let commons: Vec<Vec<(PropSpec, u8)>> = vec![
        vec![],
        vec![(PropSpec::U, 1)],
        vec![(PropSpec::U, 0)],
        vec![(PropSpec::U, 2), (PropSpec::A { prefix: 1, store: 0 }, 33)],
    ];
    // a variant choice = (menu item, number of entries 0..2)
    let mut choices: Vec<(usize, usize)> = vec![];
    for m in 0..menu.len() {
        for n in 0..=2 {
            choices.push((m, n));
        }
    }
    let reduced: Vec<(usize, usize)> = choices
        .iter()
        .cloned()
        .filter(|(m, n)| [0usize, 1, 2, 4, 5, 6].contains(m) && *n >= 1)
        .collect();
    let mut descs: Vec<(usize, Vec<(usize, usize)>, usize)> = vec![];
    for c in 0..commons.len() {
        for nv in 1..=3usize {
            let pool = if nv == 3 { &reduced } else { &choices };
            if nv == 3 && !thorough {
                continue;
            }
            for pick in sequences(pool.len(), nv) {
                let vs: Vec<(usize, usize)> = pick.iter().map(|&i| pool[i]).collect();
                for order in 0..2 {
                    descs.push((c, vs.clone(), order));
                }
            }
        }
    }
    run_cases(rep, &descs, |(c, vs, order)| {
        let schema = SchemaSpec {
            stores: vec![StoreKind::Plain],
            common: commons[*c].iter().map(|p| p.0.clone()).collect(),
            variants: vs
                .iter()
                .map(|(m, _)| menu[*m].props.iter().map(|p| p.0.clone()).collect())
                .collect(),
            sort: None,
        };
        let mut entries = vec![];
        let mut row_global = 0;
        for (v, (m, n)) in vs.iter().enumerate() {
            for row in 0..*n {
                let mut vals: Vec<Val> = commons[*c]
                    .iter()
                    .map(|(_, w)| var_value(*w, row_global, 0))
                    .collect();
                for (_, w) in &menu[*m].props {
                    vals.push(var_value(*w, row, v as u64));
                }
                entries.push(EntrySpec {
                    variant: Some(v),
                    vals,
                });
                row_global += 1;
            }
        }
        if *order == 1 {
            entries.reverse();
        }
        let n = entries.len();
        let spec = DirSpec {
            schema,
            entries,
            indexes: simple_index(n),
        };
        eval("C", &spec, None)
    });
}

// ---------------------------------------------------------------- tier D (stores)
fn indexed_tail_size(count: usize, data_size: usize) -> usize {
    let n = {
        let mut v = data_size;
        let mut b = 0;
        while v > 0 {
            v >>= 8;
            b += 1;
        }
        b.max(1)
    };
    1 + 8 + 1 + n + count.saturating_sub(1) * n
}

fn tier_d(rep: &mut Report, thorough: bool) {
    // shared vs separate stores, overlapping values
    let mut descs: Vec<(StoreKind, StoreKind, bool, usize, usize)> = vec![];
    for k0 in [StoreKind::Plain, StoreKind::Indexed] {
        for k1 in [StoreKind::Plain, StoreKind::Indexed] {
            for shared in [true, false] {
                for p0 in [0usize, 1, 3] {
                    for p1 in [0usize, 2] {
                        descs.push((k0, k1, shared, p0, p1));
                    }
                }
            }
        }
    }
    run_cases(rep, &descs, |(k0, k1, shared, p0, p1)| {
        let words: Vec<&[u8]> = vec![b"", b"a", b"ab", b"abc", b"abcd", b"b", b"\x00", b"\x00\x00", b"abc"];
        let schema = SchemaSpec {
            stores: if *shared { vec![*k0] } else { vec![*k0, *k1] },
            common: vec![
                PropSpec::A { prefix: *p0, store: 0 },
                PropSpec::A { prefix: *p1, store: if *shared { 0 } else { 1 } },
            ],
            variants: vec![],
            sort: None,
        };
        let entries: Vec<EntrySpec> = (0..words.len())
            .map(|i| EntrySpec {
                variant: None,
                vals: vec![
                    Val::A(words[i].to_vec()),
                    Val::A(words[(i * 2 + 1) % words.len()].to_vec()),
                ],
            })
            .collect();
        let n = entries.len();
        eval(
            "D-shared",
            &DirSpec {
                schema,
                entries,
                indexes: simple_index(n),
            },
            None,
        )
    });

    // key-width boundaries
    let mut kd: Vec<(StoreKind, usize, usize)> = vec![]; // (kind, number of distinct values, value len)
    for n in [255usize, 256, 257] {
        kd.push((StoreKind::Indexed, n, 2));
    }
    for total in [255usize, 256, 257] {
        kd.push((StoreKind::Plain, total, 1)); // total bytes = n values of 1 byte? at most 256 distinct
    }
    if thorough {
        for n in [65_535usize, 65_536, 65_537] {
            kd.push((StoreKind::Plain, n / 3, 3));
            kd.push((StoreKind::Plain, n / 3 + 1, 3));
        }
        kd.push((StoreKind::Indexed, 65_535 / 3, 2));
    }
    run_cases(rep, &kd, |(kind, n, len)| {
        let schema = SchemaSpec {
            stores: vec![*kind],
            common: vec![PropSpec::A { prefix: 0, store: 0 }, PropSpec::U],
            variants: vec![],
            sort: None,
        };
        let entries: Vec<EntrySpec> = (0..*n)
            .map(|i| {
                let mut a = vec![];
                let mut x = i;
                for _ in 0..*len {
                    a.push((x % 251) as u8 + 1);
                    x /= 251;
                }
                EntrySpec {
                    variant: None,
                    vals: vec![Val::A(a), Val::U(i as u64)],
                }
            })
            .collect();
        let spec = DirSpec {
            schema,
            entries,
            indexes: simple_index(*n),
        };
        let mut r = eval("D-keywidth", &spec, None);
        r.id = format!("D-keywidth:{kind:?}:{n}:{len}");
        r.sample = json!({"tier":"D-keywidth","kind":format!("{kind:?}"),"values":n,"value_len":len});
        if let Some(v) = &mut r.violation {
            v.2 = json!({"engine":"schemamc","sub":"c02","tier":"D-keywidth","kind":format!("{kind:?}"),"values":n,"value_len":len});
        }
        r
    });

    // width of the array length field: the longest array of a column has 255 / 256 / 65535 /
    // 65536 / 70000 bytes (length field of 1, 2 or 3 bytes), next to short arrays and an integer
    let mut al: Vec<(StoreKind, usize, usize)> = vec![];
    for kind in [StoreKind::Plain, StoreKind::Indexed] {
        for prefix in [0usize, 2, 31] {
            for long in [255usize, 256, 65_535, 65_536, 70_000] {
                al.push((kind, prefix, long));
            }
        }
    }
    run_cases(rep, &al, |(kind, prefix, long)| arraylen_case(*kind, *prefix, *long));

    // tails around 65535 bytes (indexed value store, 2-byte values => offsets of 2 bytes)
    let counts: Vec<usize> = if thorough {
        vec![32_000, 32_760, 32_761, 32_762, 32_763, 32_764, 32_767]
    } else {
        vec![32_762, 32_763]
    };
    run_cases(rep, &counts, |count| tail_case(*count));
}

fn arraylen_case(kind: StoreKind, prefix: usize, long: usize) -> CaseResult {
    let schema = SchemaSpec {
        stores: vec![kind],
        common: vec![PropSpec::A { prefix, store: 0 }, PropSpec::U],
        variants: vec![],
        sort: None,
    };
    let long_value: Vec<u8> = (0..long).map(|i| (i % 251) as u8 ^ (i / 251) as u8).collect();
    let values: Vec<Vec<u8>> = vec![b"ab".to_vec(), long_value, vec![], b"abcdefgh".to_vec(), vec![7u8; 40]];
    let entries: Vec<EntrySpec> = values.into_iter().enumerate().map(|(i, a)| EntrySpec { variant: None, vals: vec![Val::A(a), Val::U(1000 + i as u64)] }).collect();
    let n = entries.len();
    let spec = DirSpec { schema, entries, indexes: simple_index(n) };
    let mut r = eval("D-arraylen", &spec, None);
    r.id = format!("D-arraylen:{kind:?}:{prefix}:{long}");
    r.sample = json!({"tier":"D-arraylen","kind":format!("{kind:?}"),"prefix":prefix,"longest_array":long});
    if let Some(v) = &mut r.violation {
        v.2 = json!({"engine":"schemamc","sub":"c02","tier":"D-arraylen","kind":format!("{kind:?}"),"prefix":prefix,"longest_array":long});
    }
    r
}

fn tail_spec(count: usize) -> (DirSpec, usize) {
    let schema = SchemaSpec {
        stores: vec![StoreKind::Indexed],
        common: vec![PropSpec::A { prefix: 0, store: 0 }],
        variants: vec![],
        sort: None,
    };
    let entries: Vec<EntrySpec> = (0..count)
        .map(|i| EntrySpec {
            variant: None,
            vals: vec![Val::A(vec![(i >> 8) as u8, (i & 0xff) as u8])],
        })
        .collect();
    // only a window of the entries is compared value by value (the rest costs time, not insight)
    let spec = DirSpec {
        schema,
        entries,
        indexes: vec![
            IndexSpec { name: "head".into(), offset: 0, count: 300.min(count as u32) },
            IndexSpec { name: "tail".into(), offset: count as u32 - 300.min(count as u32), count: 300.min(count as u32) },
        ],
    };
    (spec, indexed_tail_size(count, count * 2))
}

fn tail_case(count: usize) -> CaseResult {
    let (spec, tail) = tail_spec(count);
    let unrep = if tail > 65_535 {
        Some("tail>65535".to_string())
    } else {
        None
    };
    let mut r = eval("D-tail", &spec, unrep);
    r.id = format!("D-tail:{count}");
    r.sample = json!({"tier":"D-tail","indexed_values":count,"tail_bytes":tail});
    if let Some(v) = &mut r.violation {
        v.2 = json!({"engine":"schemamc","sub":"c02","tier":"D-tail","count":count,"tail_bytes":tail});
    }
    r
}

// ---------------------------------------------------------------- tier E (index windows)
fn tier_e(rep: &mut Report, _thorough: bool) {
    let mut descs: Vec<(usize, u32, u32, u32, u32)> = vec![];
    for n in 0..=4usize {
        for o1 in 0..=n as u32 {
            for c1 in 0..=(n as u32 - o1) {
                for o2 in 0..=n as u32 {
                    for c2 in 0..=(n as u32 - o2) {
                        descs.push((n, o1, c1, o2, c2));
                    }
                }
            }
        }
    }
    run_cases(rep, &descs, |(n, o1, c1, o2, c2)| {
        let schema = SchemaSpec {
            stores: vec![StoreKind::Plain],
            common: vec![PropSpec::U, PropSpec::A { prefix: 1, store: 0 }],
            variants: vec![],
            sort: None,
        };
        let entries: Vec<EntrySpec> = (0..*n)
            .map(|i| EntrySpec {
                variant: None,
                vals: vec![Val::U(10 + 300 * i as u64), Val::A(vec![b'a' + i as u8; i + 1])],
            })
            .collect();
        let spec = DirSpec {
            schema,
            entries,
            indexes: vec![
                IndexSpec { name: "w1".into(), offset: *o1, count: *c1 },
                IndexSpec { name: "w2".into(), offset: *o2, count: *c2 },
            ],
        };
        let mut r = eval("E", &spec, None);
        r.nontrivial = *n > 0 && (*c1 > 0 || *c2 > 0);
        r
    });
}

// ---------------------------------------------------------------- large structured stores
fn tier_large(rep: &mut Report, thorough: bool) {
    let sizes: Vec<usize> = if thorough { vec![300, 5_000, 70_000] } else { vec![300, 3_000] };
    run_cases(rep, &sizes, |n| {
        let schema = SchemaSpec {
            stores: vec![StoreKind::Plain, StoreKind::Indexed],
            common: vec![
                PropSpec::U,
                PropSpec::S,
                PropSpec::A { prefix: 2, store: 0 },
                PropSpec::A { prefix: 0, store: 1 },
                PropSpec::C,
            ],
            variants: vec![vec![PropSpec::U], vec![PropSpec::S, PropSpec::U]],
            sort: None,
        };
        let entries: Vec<EntrySpec> = (0..*n)
            .map(|i| {
                let v = i % 2;
                let mut vals = vec![
                    Val::U((i as u64) * 257),
                    Val::S((i as i64 - (*n as i64) / 2) * 129),
                    Val::A(format!("k{:05}", i).into_bytes()),
                    Val::A(format!("v{}", i % 1500).into_bytes()), // >1024 distinct values, then duplicates
                    Val::C((i % 3) as u16, (i * 7) as u32),
                ];
                if v == 0 {
                    vals.push(Val::U(i as u64));
                } else {
                    vals.push(Val::S(-(i as i64)));
                    vals.push(Val::U(9));
                }
                EntrySpec { variant: Some(v), vals }
            })
            .collect();
        let spec = DirSpec {
            schema,
            entries,
            indexes: vec![
                IndexSpec { name: "all".into(), offset: 0, count: *n as u32 },
                IndexSpec { name: "mid".into(), offset: (*n / 3) as u32, count: (*n / 3) as u32 },
            ],
        };
        let mut r = eval("large", &spec, None);
        r.id = format!("large:{n}");
        r.sample = json!({"tier":"large","entries":n});
        if let Some(v) = &mut r.violation {
            v.2 = json!({"engine":"schemamc","sub":"c02","tier":"large","entries":n});
        }
        r
    });
}

fn c02(args: &Args) -> ! {
    let mut rep = Report::new(
        "schemamc",
        "C02",
        "every schema/entry-set of tiers A (one column, all multisets of boundary values, values repeated 3..5 times), B (all ordered pairs/triples of property kinds x constant/varying), C (variants: common x 1..3 variants from a menu incl. zero-width/empty/33-byte ones x 0..2 entries each x 2 orders), D (shared stores, key-width and 64 KiB tail boundaries, longest array of a column of 255 / 256 / 65535 / 65536 / 70000 bytes x 3 prefixes x 2 store kinds), E (all index windows on <=4 entries, two indexes), large structured stores; a case is non-trivial when it holds at least one entry; distinct by canonical spec",
    );
    if let Some(p) = &args.replay {
        let j: J = serde_json::from_str(&std::fs::read_to_string(p).expect("replay file")).unwrap();
        let case = if j.get("case").is_some() { &j["case"] } else { &j };
        let r = match case["tier"].as_str() {
            Some("D-tail") => tail_case(case["count"].as_u64().unwrap() as usize),
            Some("D-arraylen") => arraylen_case(
                if case["kind"] == json!("Indexed") { StoreKind::Indexed } else { StoreKind::Plain },
                case["prefix"].as_u64().unwrap() as usize,
                case["longest_array"].as_u64().unwrap() as usize,
            ),
            _ if case.get("spec").is_some() => eval("replay", &DirSpec::from_json(&case["spec"]), None),
            _ => {
                eprintln!("this replay names a built-in case; run the tier instead");
                std::process::exit(2);
            }
        };
        println!("replay outcome: {}", r.outcome);
        rep.case(Some(&r.id), &r.outcome);
        if let Some((k, w, c)) = r.violation {
            println!("  {k}: {w}");
            rep.violation(&k, &w, c);
        }
        rep.finish(args);
    }
    let t = args.thorough();
    let only = args.opt("--only");
    let want = |x: &str| only.as_deref().map(|o| o == x).unwrap_or(true);
    if want("A") {
        tier_a(&mut rep, t);
    }
    if want("B") {
        tier_b(&mut rep, t);
    }
    if want("C") {
        tier_c(&mut rep, t);
    }
    if want("D") {
        tier_d(&mut rep, t);
    }
    if want("E") {
        tier_e(&mut rep, t);
    }
    if want("large") {
        tier_large(&mut rep, t);
    }
    rep.finish(args)
}


// ======================================================================== C03
use jubako as jbk;
use jbk::reader::{CompareTrait, Range};

struct Ordered<C: CompareTrait>(C, bool);
impl<C: CompareTrait> CompareTrait for Ordered<C> {
    fn ordered(&self) -> bool {
        self.1
    }
    fn compare_entry(&self, idx: jbk::EntryIdx) -> jbk::Result<std::cmp::Ordering> {
        self.0.compare_entry(idx)
    }
}

#[derive(Clone, Debug, PartialEq, Eq, PartialOrd, Ord)]
enum Key {
    A(Vec<u8>),
    U(u64),
    S(i64),
    AU(Vec<u8>, u64),
}

impl Key {
    fn vals(&self) -> Vec<Val> {
        match self {
            Key::A(a) => vec![Val::A(a.clone())],
            Key::U(u) => vec![Val::U(*u)],
            Key::S(s) => vec![Val::S(*s)],
            Key::AU(a, u) => vec![Val::A(a.clone()), Val::U(*u)],
        }
    }
    fn probe(&self) -> (Vec<String>, Vec<jbk::Value>) {
        match self {
            Key::A(a) => (vec!["p0".into()], vec![jbk::Value::Array(a.as_slice().into())]),
            Key::U(u) => (vec!["p0".into()], vec![jbk::Value::Unsigned(*u)]),
            Key::S(s) => (vec!["p0".into()], vec![jbk::Value::Signed(*s)]),
            Key::AU(a, u) => (
                vec!["p0".into(), "p1".into()],
                vec![jbk::Value::Array(a.as_slice().into()), jbk::Value::Unsigned(*u)],
            ),
        }
    }
    fn json(&self) -> J {
        match self {
            Key::A(a) => json!({"a": jbkmc::hex(a)}),
            Key::U(u) => json!({"u": u.to_string()}),
            Key::S(s) => json!({"s": s.to_string()}),
            Key::AU(a, u) => json!({"a": jbkmc::hex(a), "u": u.to_string()}),
        }
    }
    fn from_json(j: &J) -> Key {
        let a = j.get("a").map(|x| jbkmc::unhex(x.as_str().unwrap()));
        let u = j.get("u").map(|x| x.as_str().unwrap().parse::<u64>().unwrap());
        let s = j.get("s").map(|x| x.as_str().unwrap().parse::<i64>().unwrap());
        match (a, u, s) {
            (Some(a), Some(u), _) => Key::AU(a, u),
            (Some(a), None, _) => Key::A(a),
            (None, Some(u), _) => Key::U(u),
            (None, None, Some(s)) => Key::S(s),
            _ => panic!("bad key json"),
        }
    }
}

#[derive(Clone)]
struct SortCase {
    /// keys in insertion order
    keys: Vec<Key>,
    prefix: usize,
    store: StoreKind,
    /// probes (present and absent)
    probes: Vec<Key>,
    /// windows to check; None = all windows
    windows: Option<Vec<(u32, u32)>>,
}

impl SortCase {
    fn json(&self) -> J {
        json!({"engine":"schemamc","sub":"c03","keys": self.keys.iter().map(|k| k.json()).collect::<Vec<_>>(),
               "prefix": self.prefix, "store": format!("{:?}", self.store),
               "probes": self.probes.iter().map(|k| k.json()).collect::<Vec<_>>(),
               "windows": self.windows})
    }
    fn brief(&self) -> J {
        if self.keys.len() <= 8 { self.json() } else {
            json!({"keys": format!("{} structured keys, first {:?}", self.keys.len(), self.keys[0]), "prefix": self.prefix, "store": format!("{:?}", self.store)})
        }
    }
    fn from_json(j: &J) -> SortCase {
        SortCase {
            keys: j["keys"].as_array().unwrap().iter().map(Key::from_json).collect(),
            prefix: j["prefix"].as_u64().unwrap() as usize,
            store: if j["store"] == "Plain" { StoreKind::Plain } else { StoreKind::Indexed },
            probes: j["probes"].as_array().unwrap().iter().map(Key::from_json).collect(),
            windows: j["windows"].as_array().map(|a| a.iter().map(|w| (w[0].as_u64().unwrap() as u32, w[1].as_u64().unwrap() as u32)).collect()),
        }
    }
}

/// Returns (outcome, violation key/what)
fn check_sorted(case: &SortCase) -> (String, Option<(String, String)>) {
    let n = case.keys.len();
    let schema = SchemaSpec {
        stores: vec![case.store],
        common: match &case.keys[0] {
            Key::A(_) => vec![PropSpec::A { prefix: case.prefix, store: 0 }, PropSpec::U],
            Key::U(_) => vec![PropSpec::U, PropSpec::U],
            Key::S(_) => vec![PropSpec::S, PropSpec::U],
            Key::AU(..) => vec![PropSpec::A { prefix: case.prefix, store: 0 }, PropSpec::U, PropSpec::U],
        },
        variants: vec![],
        sort: Some(match &case.keys[0] {
            Key::AU(..) => vec![0, 1],
            _ => vec![0],
        }),
    };
    let mut sorted: Vec<(Key, usize)> = case.keys.iter().cloned().zip(0..).collect();
    sorted.sort();
    let dup = sorted.windows(2).any(|w| w[0].0 == w[1].0);
    let mut rank = vec![0u64; n];
    for (r, (_, k)) in sorted.iter().enumerate() {
        rank[*k] = r as u64;
    }
    let windows: Vec<(u32, u32)> = match &case.windows {
        Some(w) => w.clone(),
        None => {
            let mut w = vec![];
            for o in 0..=n as u32 {
                for c in 0..=(n as u32 - o) {
                    w.push((o, c));
                }
            }
            w
        }
    };
    let spec = DirSpec {
        schema,
        entries: case
            .keys
            .iter()
            .enumerate()
            .map(|(i, k)| {
                let mut vals = k.vals();
                vals.push(Val::U(i as u64)); // identifies the spec entry
                EntrySpec { variant: None, vals }
            })
            .collect(),
        indexes: windows
            .iter()
            .map(|(o, c)| IndexSpec { name: format!("w{o}_{c}"), offset: *o, count: *c })
            .collect(),
    };
    let built = match build(&spec) {
        Ok(b) => b,
        Err(e) => {
            let msg = match &e { BuildErr::Err(m) | BuildErr::Panic(m) => m.clone() };
            if dup {
                return ("creation-fails:duplicate-sort-keys".into(), None);
            }
            return (
                "violation".into(),
                Some((format!("C03 creation failed {}", jbkmc::panic_site(&msg)), format!("creation of a sorted store with distinct keys failed: {msg}"))),
            );
        }
    };
    if dup {
        return ("created-with-duplicate-keys".into(), None);
    }
    let fp = |k: usize| rank[k];
    // (1) plain byte/numeric order + every value as written
    if let Err((k, w)) = read_and_compare(&spec, &built, &fp) {
        return ("violation".into(), Some((format!("C03 order/readback: {k}"), w)));
    }
    // handles
    for k in 0..n {
        if built.bounds[k] as u64 != rank[k] {
            return ("violation".into(), Some(("C03 handle position".into(), format!("handle of entry {k} reports {} but the entry is at {}", built.bounds[k], rank[k]))));
        }
    }
    let r = jbkmc::catch(|| -> Result<(), (String, String)> {
        let od = open(built.bytes.clone()).map_err(|e| ("unreadable".to_string(), e))?;
        for (o, c) in &windows {
            let oi = od.index(&format!("w{o}_{c}")).map_err(|e| ("unreadable".to_string(), e))?.unwrap();
            // (1b) the reader's own comparison between neighbours
            for i in 0..c.saturating_sub(1) {
                let next = &sorted[(*o + i + 1) as usize].0;
                let (names, values) = next.probe();
                let cmp = oi.builder.new_multiple_property_compare(names, values);
                let ord = cmp
                    .compare_entry(jbk::EntryIdx::from(*o + i))
                    .map_err(|e| ("compare error".to_string(), format!("{e}")))?;
                if ord != std::cmp::Ordering::Less {
                    return Err(("not ordered for the reader".into(), format!("window ({o},{c}): entry {i} compares {ord:?} to the key of entry {}", i + 1)));
                }
            }
            // (2) every probe, both modes
            for probe in &case.probes {
                let expect: Option<u32> = sorted[*o as usize..(*o + *c) as usize]
                    .iter()
                    .position(|(k, _)| k == probe)
                    .map(|p| p as u32);
                let mut got = [None, None];
                for (m, ordered) in [true, false].iter().enumerate() {
                    let (names, values) = probe.probe();
                    let cmp = Ordered(oi.builder.new_multiple_property_compare(names, values), *ordered);
                    got[m] = oi
                        .index
                        .find(&cmp)
                        .map_err(|e| ("find error".to_string(), format!("{e}")))?
                        .map(|i| i.into_u32());
                }
                if got[0] != got[1] {
                    return Err((
                        "search modes disagree".into(),
                        format!("window ({o},{c}) probe {}: binary search {:?}, linear scan {:?}, expected {:?}", probe.json(), got[0], got[1], expect),
                    ));
                }
                if got[0] != expect {
                    return Err((
                        if expect.is_some() { "lookup misses a written key".into() } else { "lookup finds an absent key".into() },
                        format!("window ({o},{c}) probe {}: found {:?}, expected {:?}", probe.json(), got[0], expect),
                    ));
                }
                // the entry found carries the key
                if let Some(i) = got[0] {
                    let e = oi.entry(i).map_err(|e| ("unreadable entry".to_string(), e))?.unwrap();
                    let want = expected_entry(&spec, sorted[(*o + i) as usize].1, &fp);
                    if e != want {
                        return Err(("found entry differs".into(), format!("window ({o},{c}) probe {}", probe.json())));
                    }
                }
            }
        }
        Ok(())
    });
    match r {
        Ok(Ok(())) => ("ok".into(), None),
        Ok(Err((k, w))) => ("violation".into(), Some((format!("C03 {k}"), w))),
        Err(p) => ("violation".into(), Some((format!("C03 reader-panic {}", jbkmc::panic_site(&p)), p))),
    }
}

fn sort_result(case: &SortCase, tier: &str) -> CaseResult {
    let (outcome, v) = check_sorted(case);
    CaseResult {
        id: format!("{tier}:{}", case.json()),
        nontrivial: case.keys.len() >= 2 && outcome == "ok",
        outcome,
        violation: v.map(|(k, w)| (k, w, case.json())),
        sample: json!({"tier": tier, "case": case.brief()}),
    }
}

fn orders(n: usize) -> Vec<Vec<usize>> {
    // ascending, descending, rotated by one
    let asc: Vec<usize> = (0..n).collect();
    let mut desc = asc.clone();
    desc.reverse();
    let mut rot = asc.clone();
    rot.rotate_left(1.min(n));
    let mut v = vec![asc, desc, rot];
    v.dedup();
    v.sort();
    v.dedup();
    v
}

/// find() in isolation on a mock comparator
struct MockCmp<'a> {
    seq: &'a [i32],
    probe: i32,
    ordered: bool,
}
impl CompareTrait for MockCmp<'_> {
    fn ordered(&self) -> bool {
        self.ordered
    }
    fn compare_entry(&self, idx: jbk::EntryIdx) -> jbk::Result<std::cmp::Ordering> {
        Ok(self.seq[idx.into_u32() as usize].cmp(&self.probe))
    }
}

fn c03_find_isolated(rep: &mut Report, thorough: bool) {
    let maxlen = if thorough { 7 } else { 6 };
    let mut cases = 0u64;
    let mut nontrivial = 0u64;
    for len in 0..=maxlen {
        for seq in multisets(5, len) {
            let seq: Vec<i32> = seq.iter().map(|&x| x as i32).collect();
            for o in 0..=len {
                for c in 0..=(len - o) {
                    let range = jbk::EntryRange::new_from_size(jbk::EntryIdx::from(o as u32), jbk::EntryCount::from(c as u32));
                    for probe in -1..=5 {
                        cases += 1;
                        if c >= 2 {
                            nontrivial += 1;
                        }
                        let window = &seq[o..o + c];
                        let present = window.contains(&probe);
                        let run = |ordered: bool| {
                            let cmp = MockCmp { seq: &seq, probe, ordered };
                            jbkmc::catch(|| range.find(&cmp).map(|r| r.map(|i| i.into_u32() as usize)))
                        };
                        let res = [run(true), run(false)];
                        let case = json!({"engine":"schemamc","sub":"c03","find_isolated":{"seq":seq,"offset":o,"count":c,"probe":probe}});
                        for (m, r) in res.iter().enumerate() {
                            let mode = if m == 0 { "binary" } else { "linear" };
                            match r {
                                Ok(Ok(Some(i))) => {
                                    if *i >= c || window[*i] != probe {
                                        rep.violation(&format!("C03 find({mode}) returns a wrong index"), &format!("seq {seq:?} window ({o},{c}) probe {probe}: {mode} search returned {i}"), case.clone());
                                    }
                                }
                                Ok(Ok(None)) => {
                                    if present {
                                        rep.violation(&format!("C03 find({mode}) misses a present key"), &format!("seq {seq:?} window ({o},{c}) probe {probe}: {mode} search returned None"), case.clone());
                                    }
                                }
                                Ok(Err(e)) => rep.violation(&format!("C03 find({mode}) error"), &format!("{e}"), case.clone()),
                                Err(p) => rep.violation(&format!("C03 find({mode}) panic {}", jbkmc::panic_site(p)), p, case.clone()),
                            }
                        }
                        if let (Ok(Ok(a)), Ok(Ok(b))) = (&res[0], &res[1]) {
                            if a.is_some() != b.is_some() {
                                rep.violation("C03 find modes disagree (isolated)", &format!("seq {seq:?} window ({o},{c}) probe {probe}: binary {a:?} linear {b:?}"), case.clone());
                            }
                        }
                    }
                }
            }
        }
    }
    rep.bulk(cases, nontrivial);
    rep.outcome("find-isolated", cases);
    rep.sample(json!({"tier":"find-isolated","seq":[0,1,1,3],"offset":1,"count":3,"probe":1}));
}

fn key_universe() -> Vec<Vec<u8>> {
    let sym = [0x00u8, 0x61, 0xff];
    let mut u = vec![vec![]];
    for len in 1..=3 {
        for s in sequences(3, len) {
            u.push(s.iter().map(|&i| sym[i]).collect());
        }
    }
    u
}

fn c03(args: &Args) -> ! {
    let mut rep = Report::new(
        "schemamc",
        "C03",
        "sorted stores: every subset (size 1..3 quick / 1..4 thorough) of the 40 byte strings over {00,61,ff} of length<=3 x inline prefix {0,1,2,3} x store {plain,indexed} x insertion order {asc,desc,rotated}; integer keys: all subsets (size<=3/4) of the boundary alphabets; two-column keys; every window (offset,count) x every probe of the universe x {binary,linear}; find() alone on every non-decreasing sequence over 0..4 of length<=6 x every window x probes -1..5; non-trivial = at least 2 keys (or window count>=2 for find alone)",
    );
    if let Some(p) = &args.replay {
        let j: J = serde_json::from_str(&std::fs::read_to_string(p).expect("replay file")).unwrap();
        let case = if j.get("case").is_some() { &j["case"] } else { &j };
        if case.get("find_isolated").is_some() {
            c03_find_isolated(&mut rep, false);
        } else {
            let r = sort_result(&SortCase::from_json(case), "replay");
            println!("replay outcome: {}", r.outcome);
            rep.case(Some(&r.id), &r.outcome);
            if let Some((k, w, c)) = r.violation {
                println!("  {k}: {w}");
                rep.violation(&k, &w, c);
            }
        }
        rep.finish(args);
    }
    let t = args.thorough();
    if let Some(n) = args.opt("--large") {
        // configuration run: large structured sets under the RAYON_NUM_THREADS given by the driver
        let n: usize = n.parse().unwrap();
        c03_large(&mut rep, n);
        rep.finish(args);
    }
    c03_find_isolated(&mut rep, t);
    let uni = key_universe();
    let maxk = if t { 4 } else { 3 };
    let mut descs: Vec<SortCase> = vec![];
    let all_probes: Vec<Key> = uni.iter().map(|k| Key::A(k.clone())).collect();
    for sub in subsets(uni.len(), 1, maxk) {
        for prefix in [0usize, 1, 2, 3] {
            for store in [StoreKind::Plain, StoreKind::Indexed] {
                for ord in orders(sub.len()) {
                    descs.push(SortCase {
                        keys: ord.iter().map(|&i| Key::A(uni[sub[i]].clone())).collect(),
                        prefix,
                        store,
                        probes: vec![],
                        windows: None,
                    });
                }
            }
        }
    }
    run_cases(&mut rep, &descs, |d| {
        let mut d = d.clone();
        d.probes = all_probes.clone();
        let mut r = sort_result(&d, "array-keys");
        // keep replays small: only the keys, the probes are the universe
        r.id = format!("array-keys:{:?}:{}:{:?}", d.keys, d.prefix, d.store);
        r
    });
    // long keys: lengths around 256/512 (1-byte length wrap) sharing everything but their tail
    let long_uni: Vec<Vec<u8>> = {
        let mut v = vec![];
        for len in [255usize, 256, 257, 259, 260, 512, 513] {
            for last in [0x00u8, b'y'] {
                let mut k = vec![b'k'; len];
                k[len - 1] = last;
                v.push(k);
            }
        }
        v.push(b"k".to_vec());
        v.push(vec![b'k'; 3]);
        v
    };
    let long_probes: Vec<Key> = long_uni.iter().map(|k| Key::A(k.clone())).collect();
    let mut ldescs: Vec<SortCase> = vec![];
    for sub in subsets(long_uni.len(), 1, if t { 3 } else { 2 }) {
        for prefix in [0usize, 1, 4, 8] {
            for store in [StoreKind::Plain, StoreKind::Indexed] {
                ldescs.push(SortCase {
                    keys: sub.iter().rev().map(|&i| Key::A(long_uni[i].clone())).collect(),
                    prefix,
                    store,
                    probes: vec![],
                    windows: None,
                });
            }
        }
    }
    run_cases(&mut rep, &ldescs, |d| {
        let mut d = d.clone();
        d.probes = long_probes.clone();
        let mut r = sort_result(&d, "long-keys");
        r.id = format!("long-keys:{:?}:{}:{:?}", d.keys.iter().map(|k| match k { Key::A(a) => (a.len(), a[a.len() - 1]), _ => (0, 0) }).collect::<Vec<_>>(), d.prefix, d.store);
        r.sample = json!({"tier": "long-keys", "lens": d.keys.iter().map(|k| match k { Key::A(a) => a.len(), _ => 0 }).collect::<Vec<_>>(), "prefix": d.prefix});
        if let Some(v) = &mut r.violation {
            v.2 = json!({"engine":"schemamc","sub":"c03","long_keys": d.keys.iter().map(|k| match k { Key::A(a) => json!([a.len(), a[a.len()-1]]), _ => json!(null) }).collect::<Vec<_>>(), "prefix": d.prefix, "store": format!("{:?}", d.store)});
        }
        r
    });
    // integer keys
    let ua = uint_alphabet();
    let sa = sint_alphabet();
    let mut idescs: Vec<SortCase> = vec![];
    for sub in subsets(ua.len(), 1, maxk) {
        for ord in orders(sub.len()) {
            idescs.push(SortCase {
                keys: ord.iter().map(|&i| Key::U(ua[sub[i]])).collect(),
                prefix: 0,
                store: StoreKind::Plain,
                probes: ua.iter().map(|&u| Key::U(u)).collect(),
                windows: None,
            });
        }
    }
    for sub in subsets(sa.len(), 1, maxk) {
        for ord in orders(sub.len()) {
            idescs.push(SortCase {
                keys: ord.iter().map(|&i| Key::S(sa[sub[i]])).collect(),
                prefix: 0,
                store: StoreKind::Plain,
                probes: sa.iter().map(|&u| Key::S(u)).collect(),
                windows: None,
            });
        }
    }
    // two-column keys (array, uint): subsets of a 3x3 grid
    let grid: Vec<Key> = [b"".to_vec(), b"a".to_vec(), b"ab".to_vec()]
        .iter()
        .flat_map(|a| [0u64, 1, 256].iter().map(move |u| Key::AU(a.clone(), *u)))
        .collect();
    for sub in subsets(grid.len(), 1, maxk) {
        for prefix in [0usize, 1] {
            for store in [StoreKind::Plain, StoreKind::Indexed] {
                for ord in orders(sub.len()) {
                    idescs.push(SortCase {
                        keys: ord.iter().map(|&i| grid[sub[i]].clone()).collect(),
                        prefix,
                        store,
                        probes: grid.clone(),
                        windows: None,
                    });
                }
            }
        }
    }
    // duplicate keys: creation is expected to fail (recorded, not a violation)
    idescs.push(SortCase { keys: vec![Key::U(5), Key::U(5)], prefix: 0, store: StoreKind::Plain, probes: vec![Key::U(5)], windows: None });
    run_cases(&mut rep, &idescs, |d| sort_result(d, "int/two-column keys"));
    rep.finish(args)
}

fn c03_large(rep: &mut Report, n: usize) {
    let threads = std::env::var("RAYON_NUM_THREADS").unwrap_or_else(|_| "default".into());
    rep.extra.insert("rayon_threads".into(), json!(threads));
    let mut descs: Vec<SortCase> = vec![];
    let shapes: Vec<(&str, Box<dyn Fn(usize) -> Vec<u8>>)> = vec![
        ("counter", Box::new(|i| format!("{:06}", i).into_bytes())),
        ("shared-long-prefix", Box::new(|i| { let mut v = vec![b'p'; 40]; v.extend(format!("{:05}", i).into_bytes()); v })),
        ("binary-be", Box::new(|i| (i as u32).to_be_bytes().to_vec())),
        ("nul-tails", Box::new(|i| { let mut v = vec![b'k'; 1 + i % 3]; v.extend(vec![0u8; i / 3 % 50]); v.extend((i as u16).to_le_bytes()); v })),
        // the same tails under two different heads: with an inline prefix the deported parts are shared values
        ("shared-tails", Box::new(|i| { let mut v = if i % 2 == 0 { b"aa".to_vec() } else { b"bb".to_vec() }; v.extend(format!("{:05}", i / 2).into_bytes()); v })),
    ];
    for (_name, f) in &shapes {
        for prefix in [0usize, 2, 31] {
            for store in [StoreKind::Plain, StoreKind::Indexed] {
                if store == StoreKind::Indexed && n > 4000 {
                    continue; // the indexed store's add_value is quadratic
                }
                for order in 0..6 {
                    // orders 3..5: sorted runs of exactly B entries handed over in descending
                    // order of runs (every block of B consecutive entries is already ordered,
                    // the whole is not): B = 1024, 256, 2048
                    if order >= 3 && !(prefix == 2 && store == StoreKind::Plain) {
                        continue;
                    }
                    let mut keys: Vec<Key> = (0..n).map(|i| Key::A(f(i))).collect();
                    keys.sort();
                    keys.dedup();
                    match order {
                        0 => {}
                        1 => keys.reverse(),
                        3 | 4 | 5 => {
                            let b = [1024usize, 256, 2048][order - 3];
                            if keys.len() <= b {
                                continue;
                            }
                            let full = keys.len() / b;
                            let mut out: Vec<Key> = vec![];
                            for k in (0..full).rev() {
                                out.extend_from_slice(&keys[k * b..(k + 1) * b]);
                            }
                            out.extend_from_slice(&keys[full * b..]);
                            keys = out;
                        }
                        _ => {
                            // deterministic shuffle (stride permutation)
                            let m = keys.len();
                            let stride = (m / 2 + 1) | 1;
                            let mut g = stride;
                            while gcd(g, m) != 1 { g += 2; }
                            keys = (0..m).map(|i| keys[(i * g) % m].clone()).collect();
                        }
                    }
                    let m = keys.len() as u32;
                    let mut probes: Vec<Key> = vec![];
                    for (i, k) in keys.iter().enumerate() {
                        if i % 7 == 0 || i < 20 || i + 20 > keys.len() {
                            probes.push(k.clone());
                            if let Key::A(a) = k {
                                let mut b = a.clone();
                                b.push(0);
                                probes.push(Key::A(b));
                                let mut c = a.clone();
                                c.pop();
                                probes.push(Key::A(c));
                            }
                        }
                    }
                    descs.push(SortCase {
                        keys,
                        prefix,
                        store,
                        probes,
                        windows: Some(vec![(0, m), (m / 3, m / 2), (m - 1, 1), (1, m - 1)]),
                    });
                }
            }
        }
    }
    run_cases(rep, &descs, |d| {
        let mut r = sort_result(d, "large");
        r.id = format!("large:{}:{:?}:{}:{:?}", d.keys.len(), d.keys[0], d.prefix, d.store);
        if let Some(v) = &mut r.violation {
            v.2 = json!({"engine":"schemamc","sub":"c03","large": d.keys.len(), "first_key": d.keys[0].json(), "prefix": d.prefix, "store": format!("{:?}", d.store)});
        }
        r
    });
}

fn gcd(a: usize, b: usize) -> usize {
    if b == 0 { a } else { gcd(b, a % b) }
}

// ======================================================================== C15
#[derive(Clone)]
struct RefCase {
    n: usize,
    /// f[k] = Some(t): entry k references entry t
    f: Vec<Option<usize>>,
    /// insertion order (spec indices)
    order: Vec<usize>,
    sorted: bool,
    extra_col: bool,
    /// key of spec entry k
    keys: Vec<Vec<u8>>,
    /// how the reference column is declared: 0 = unsigned word (entries without a reference hold
    /// a delayed constant), 1 = unsigned word next to plain equal constants, 2 = signed word
    /// giving the target's position, 3 = signed word giving target position - own position,
    /// 4 = unsigned word in the second variant of the schema (entries without a reference are of
    /// the first variant)
    mode: u8,
}

impl RefCase {
    fn json(&self) -> J {
        if self.n <= 8 {
            json!({"engine":"schemamc","sub":"c15","n":self.n,"f":self.f,"order":self.order,"sorted":self.sorted,"extra_col":self.extra_col,"mode":self.mode,
               "keys": self.keys.iter().map(|k| jbkmc::hex(k)).collect::<Vec<_>>()})
        } else {
            json!({"engine":"schemamc","sub":"c15","n":self.n,"structured":true,"sorted":self.sorted,"extra_col":self.extra_col,"mode":self.mode,
                   "f_head": &self.f[..8], "order_head": &self.order[..8]})
        }
    }
    fn from_json(j: &J) -> RefCase {
        RefCase {
            n: j["n"].as_u64().unwrap() as usize,
            f: j["f"].as_array().unwrap().iter().map(|x| x.as_u64().map(|v| v as usize)).collect(),
            order: j["order"].as_array().unwrap().iter().map(|x| x.as_u64().unwrap() as usize).collect(),
            sorted: j["sorted"].as_bool().unwrap(),
            extra_col: j["extra_col"].as_bool().unwrap(),
            keys: j["keys"].as_array().unwrap().iter().map(|x| jbkmc::unhex(x.as_str().unwrap())).collect(),
            mode: j["mode"].as_u64().unwrap_or(0) as u8,
        }
    }
}

fn check_refs(case: &RefCase) -> (String, Option<(String, String)>) {
    let n = case.n;
    let mut common = vec![PropSpec::A { prefix: 1, store: 0 }];
    if case.extra_col {
        common.push(PropSpec::U);
    }
    // mode 4: the reference column belongs to the second variant of the schema (entries that
    // reference nothing are of the first variant and hold a plain number there)
    let in_variant = case.mode == 4;
    if !in_variant {
        common.push(if case.mode >= 2 { PropSpec::S } else { PropSpec::U }); // the reference (or a plain number when the entry references nothing)
    }
    let schema = SchemaSpec {
        stores: vec![StoreKind::Plain],
        common,
        variants: if in_variant { vec![vec![PropSpec::U], vec![PropSpec::U]] } else { vec![] },
        sort: if case.sorted { Some(vec![0]) } else { None },
    };
    let entries: Vec<EntrySpec> = (0..n)
        .map(|k| {
            let mut vals = vec![Val::A(case.keys[k].clone())];
            if case.extra_col {
                vals.push(Val::U(1000 + 300 * k as u64));
            }
            vals.push(match (case.f[k], case.mode) {
                (Some(t), 0 | 1 | 4) => Val::Ref(t),
                (Some(t), 2) => Val::SRef(t),
                (Some(t), _) => Val::SRel(t),
                (None, 0) => Val::UW(n as u64 + 7),
                (None, 1) => Val::U(0),
                (None, 4) => Val::U(7),
                (None, _) => Val::S(-7),
            });
            EntrySpec { variant: if in_variant { Some(if case.f[k].is_some() { 1 } else { 0 }) } else { None }, vals }
        })
        .collect();
    let spec = DirSpec { schema, entries, indexes: simple_index(n) };
    // final position
    let mut pos = vec![0u64; n];
    if case.sorted {
        let mut idx: Vec<usize> = (0..n).collect();
        idx.sort_by(|a, b| case.keys[*a].cmp(&case.keys[*b]));
        for (r, k) in idx.iter().enumerate() {
            pos[*k] = r as u64;
        }
    } else {
        for (p, k) in case.order.iter().enumerate() {
            pos[*k] = p as u64;
        }
    }
    let built = match build_with_order(&spec, Some(&case.order)) {
        Ok(b) => b,
        Err(e) => {
            let msg = match &e { BuildErr::Err(m) | BuildErr::Panic(m) => m.clone() };
            return ("violation".into(), Some((format!("C15 creation failed {}", jbkmc::panic_site(&msg)), msg)));
        }
    };
    let fp = |k: usize| pos[k];
    if let Err((k, w)) = read_and_compare(&spec, &built, &fp) {
        let key = if k.starts_with("altered uint") || k.starts_with("altered sint") { "C15 reference does not resolve to the final position".to_string() } else { format!("C15 readback: {k}") };
        return ("violation".into(), Some((key, w)));
    }
    for k in 0..n {
        if built.bounds[k] as u64 != pos[k] {
            return (
                "violation".into(),
                Some(("C15 handle does not report the final position".into(), format!("handle returned by add_entry for entry {k} reports {}, final position is {}", built.bounds[k], pos[k]))),
            );
        }
    }
    ("ok".into(), None)
}

fn ref_result(case: &RefCase, tier: &str) -> CaseResult {
    let (outcome, v) = check_refs(case);
    let moved = case.sorted && case.order.iter().enumerate().any(|(p, k)| {
        // does sorting move something?
        let mut idx: Vec<usize> = (0..case.n).collect();
        idx.sort_by(|a, b| case.keys[*a].cmp(&case.keys[*b]));
        idx[p] != *k
    });
    CaseResult {
        id: format!("{tier}:{}", case.json()),
        nontrivial: case.f.iter().any(|x| x.is_some()) && (moved || !case.sorted) && outcome == "ok",
        outcome,
        violation: v.map(|(k, w)| (k, w, case.json())),
        sample: json!({"tier": tier, "case": case.json()}),
    }
}

/// Two entry stores in one directory pack: every entry of store A holds a property bound to the
/// position of an entry of store B. Final position = rank of the target's key when B is sorted,
/// insertion rank otherwise.
#[derive(Clone, Debug)]
struct CrossCase {
    /// entries in B
    n: usize,
    b_sorted: bool,
    /// A is added to the pack before B
    a_first: bool,
    /// target (insertion number in B) of A's entry k
    targets: Vec<usize>,
    /// B's entries are inserted with decreasing keys (the sort reverses them)
    b_reversed: bool,
}

impl CrossCase {
    fn json(&self) -> J {
        json!({"engine":"schemamc","sub":"c15","cross_store":{"n":self.n,"b_sorted":self.b_sorted,"a_first":self.a_first,"b_reversed":self.b_reversed,
            "targets": if self.targets.len() <= 8 { json!(self.targets) } else { json!({"count": self.targets.len(), "head": &self.targets[..8]}) }}})
    }
}

fn cross_store_result(c: &CrossCase) -> CaseResult {
    use jbk::creator::schema;
    use jbk::reader::{EntryTrait, Range};
    let cj = c.json();
    let done = |outcome: &str, v: Option<(String, String)>| CaseResult {
        id: format!("cross:{cj}"),
        nontrivial: true,
        outcome: outcome.into(),
        violation: v.map(|(k, w)| (k, w, cj.clone())),
        sample: json!({"tier": "cross-store", "case": cj}),
    };
    let n = c.n;
    let key_of = |i: usize| -> u64 { if c.b_reversed { (n - 1 - i) as u64 * 3 + 1 } else { i as u64 * 3 + 1 } };
    // final position of B's entry i
    let pos_b = |i: usize| -> u64 { if c.b_sorted && c.b_reversed { (n - 1 - i) as u64 } else { i as u64 } };
    let built = jbkmc::catch(|| -> Result<Vec<u8>, String> {
        let mut creator = jbk::creator::DirectoryPackCreator::new(jbk::PackId::from(0), jbk::VendorId::from([1, 2, 3, 4]), Default::default());
        let schema_b = schema::Schema::<&'static str, &'static str>::new(schema::CommonProperties::new(vec![schema::Property::new_uint("key")]), vec![], if c.b_sorted { Some(vec!["key"]) } else { None });
        let mut store_b = Box::new(jbk::creator::EntryStore::new(schema_b, None));
        let mut bounds = vec![];
        for i in 0..n {
            let e = jbk::creator::BasicEntry::new_from_schema(&store_b.schema, None, std::collections::HashMap::from([("key", jbk::Value::Unsigned(key_of(i)))]));
            bounds.push(store_b.add_entry(e));
        }
        let schema_a = schema::Schema::<&'static str, &'static str>::new(
            schema::CommonProperties::new(vec![schema::Property::new_uint("id"), schema::Property::new_uint("ref")]),
            vec![],
            None,
        );
        let mut store_a = Box::new(jbk::creator::EntryStore::new(schema_a, None));
        for (k, t) in c.targets.iter().enumerate() {
            let e = jbk::creator::BasicEntry::new_from_schema(
                &store_a.schema,
                None,
                std::collections::HashMap::from([("id", jbk::Value::Unsigned(1000 + k as u64)), ("ref", jbk::Value::UnsignedWord(bounds[*t].clone().into()))]),
            );
            store_a.add_entry(e);
        }
        let (ia, ib) = if c.a_first {
            let ia = creator.add_entry_store(store_a);
            let ib = creator.add_entry_store(store_b);
            (ia, ib)
        } else {
            let ib = creator.add_entry_store(store_b);
            let ia = creator.add_entry_store(store_a);
            (ia, ib)
        };
        creator.create_index("a", Default::default(), 0.into(), ia, jbk::EntryCount::from(c.targets.len() as u32), jbk::EntryIdx::from(0).into());
        creator.create_index("b", Default::default(), 0.into(), ib, jbk::EntryCount::from(n as u32), jbk::EntryIdx::from(0).into());
        let mut out = std::io::Cursor::new(Vec::new());
        creator.finalize().map_err(|e| format!("finalize: {e}"))?.write(&mut out).map_err(|e| format!("write: {e}"))?;
        Ok(out.into_inner())
    });
    let bytes = match built {
        Ok(Ok(b)) => b,
        Ok(Err(e)) => return done("violation", Some(("C15 creation failed (two stores)".into(), e))),
        Err(p) => return done("violation", Some((format!("C15 creation failed (two stores) {}", jbkmc::panic_site(&p)), p))),
    };
    let read = jbkmc::catch(|| -> Result<(), (String, String)> {
        let od = open(bytes).map_err(|e| ("C15 two stores: directory pack does not open".to_string(), e))?;
        let ia = od.index("a").map_err(|e| ("C15 two stores: index a".to_string(), e))?.ok_or(("C15 two stores: index a missing".to_string(), String::new()))?;
        let ib = od.index("b").map_err(|e| ("C15 two stores: index b".to_string(), e))?.ok_or(("C15 two stores: index b missing".to_string(), String::new()))?;
        // B as stored: key per position
        let mut keys_at = vec![];
        for p in 0..n as u32 {
            let e = ib.entry(p).map_err(|e| ("C15 two stores: unreadable entry of B".to_string(), e))?.ok_or(("C15 two stores: entry of B missing".to_string(), format!("{p}")))?;
            match e.vals.get("key") {
                Some(jbkmc::dirmodel::RVal::U(k)) => keys_at.push(*k),
                other => return Err(("C15 two stores: key of B unreadable".to_string(), format!("{other:?}"))),
            }
        }
        for (i, _) in keys_at.iter().enumerate() {
            let want_key = (0..n).find(|&j| pos_b(j) == i as u64).map(key_of).unwrap();
            if keys_at[i] != want_key {
                return Err(("C15 two stores: store B is not in its final order".to_string(), format!("position {i} holds key {}, expected {want_key}", keys_at[i])));
            }
        }
        for (k, t) in c.targets.iter().enumerate() {
            let e = ia.entry(k as u32).map_err(|e| ("C15 two stores: unreadable entry of A".to_string(), e))?.ok_or(("C15 two stores: entry of A missing".to_string(), format!("{k}")))?;
            match e.vals.get("ref") {
                Some(jbkmc::dirmodel::RVal::U(v)) if *v == pos_b(*t) => {}
                other => {
                    return Err((
                        "C15 reference into another store does not resolve to the final position".to_string(),
                        format!("entry {k} of A references entry #{t} of B (final position {}), stored {other:?}", pos_b(*t)),
                    ))
                }
            }
        }
        Ok(())
    });
    match read {
        Ok(Ok(())) => done("ok(two stores)", None),
        Ok(Err((k, w))) => done("violation", Some((k, w))),
        Err(p) => done("violation", Some((format!("C15 two stores: reader panics {}", jbkmc::panic_site(&p)), p))),
    }
}

/// Three stores in one pack, added in the order (X, F, D): D is sorted on its key (the sort
/// reverses it), F is sorted on (position of its entry of D, name), X references entries of F.
/// Every stored reference must be the final position of its target.
fn three_store_result(n: usize, order: u8) -> CaseResult {
    use jbk::creator::schema;
    let cj = json!({"engine":"schemamc","sub":"c15","three_stores":{"n":n,"order":order}});
    let done = |outcome: &str, v: Option<(String, String)>| CaseResult {
        id: format!("three:{cj}"),
        nontrivial: true,
        outcome: outcome.into(),
        violation: v.map(|(k, w)| (k, w, cj.clone())),
        sample: json!({"tier": "three-stores", "case": cj}),
    };
    // D: entry i has key n-i (final position n-1-i); F: entry j lives in D's entry j (final
    // position of F's entry j: sorted on D's final position, i.e. n-1-j); X: entry k -> F's entry k
    let built = jbkmc::catch(|| -> Result<Vec<u8>, String> {
        let mut creator = jbk::creator::DirectoryPackCreator::new(jbk::PackId::from(0), jbk::VendorId::from([1, 2, 3, 4]), Default::default());
        let schema_d = schema::Schema::<&'static str, &'static str>::new(schema::CommonProperties::new(vec![schema::Property::new_uint("key"), schema::Property::new_uint("id")]), vec![], Some(vec!["key"]));
        let schema_f = schema::Schema::<&'static str, &'static str>::new(schema::CommonProperties::new(vec![schema::Property::new_uint("dir"), schema::Property::new_uint("name"), schema::Property::new_uint("id")]), vec![], Some(vec!["dir", "name"]));
        let schema_x = schema::Schema::<&'static str, &'static str>::new(schema::CommonProperties::new(vec![schema::Property::new_uint("id"), schema::Property::new_uint("file")]), vec![], None);
        let mut d = Box::new(jbk::creator::EntryStore::new(schema_d, None));
        let mut f = Box::new(jbk::creator::EntryStore::new(schema_f, None));
        let mut x = Box::new(jbk::creator::EntryStore::new(schema_x, None));
        let mut dh = vec![];
        for i in 0..n {
            let e = jbk::creator::BasicEntry::new_from_schema(&d.schema, None, std::collections::HashMap::from([("key", jbk::Value::Unsigned((n - i) as u64)), ("id", jbk::Value::Unsigned(i as u64))]));
            dh.push(d.add_entry(e));
        }
        let mut fh = vec![];
        for j in 0..n {
            let e = jbk::creator::BasicEntry::new_from_schema(
                &f.schema,
                None,
                std::collections::HashMap::from([("dir", jbk::Value::UnsignedWord(dh[j].clone().into())), ("name", jbk::Value::Unsigned(j as u64)), ("id", jbk::Value::Unsigned(j as u64))]),
            );
            fh.push(f.add_entry(e));
        }
        for k in 0..n.min(20) {
            let e = jbk::creator::BasicEntry::new_from_schema(&x.schema, None, std::collections::HashMap::from([("id", jbk::Value::Unsigned(k as u64)), ("file", jbk::Value::UnsignedWord(fh[k].clone().into()))]));
            x.add_entry(e);
        }
        let nx = n.min(20) as u32;
        let (ix, if_, id) = match order {
            0 => {
                let a = creator.add_entry_store(x);
                let b = creator.add_entry_store(f);
                let c = creator.add_entry_store(d);
                (a, b, c)
            }
            1 => {
                let c = creator.add_entry_store(d);
                let b = creator.add_entry_store(f);
                let a = creator.add_entry_store(x);
                (a, b, c)
            }
            _ => {
                let b = creator.add_entry_store(f);
                let a = creator.add_entry_store(x);
                let c = creator.add_entry_store(d);
                (a, b, c)
            }
        };
        creator.create_index("x", Default::default(), 0.into(), ix, jbk::EntryCount::from(nx), jbk::EntryIdx::from(0).into());
        creator.create_index("f", Default::default(), 0.into(), if_, jbk::EntryCount::from(n as u32), jbk::EntryIdx::from(0).into());
        creator.create_index("d", Default::default(), 0.into(), id, jbk::EntryCount::from(n as u32), jbk::EntryIdx::from(0).into());
        let mut out = std::io::Cursor::new(Vec::new());
        creator.finalize().map_err(|e| format!("finalize: {e}"))?.write(&mut out).map_err(|e| format!("write: {e}"))?;
        Ok(out.into_inner())
    });
    let bytes = match built {
        Ok(Ok(b)) => b,
        Ok(Err(e)) => return done("violation", Some(("C15 creation failed (three stores)".into(), e))),
        Err(p) => return done("violation", Some((format!("C15 creation failed (three stores) {}", jbkmc::panic_site(&p)), p))),
    };
    let read = jbkmc::catch(|| -> Result<(), (String, String)> {
        let od = open(bytes).map_err(|e| ("C15 three stores: directory pack does not open".to_string(), e))?;
        let get = |name: &str, count: usize, props: &[&str]| -> Result<Vec<Vec<u64>>, (String, String)> {
            let ix = od.index(name).map_err(|e| (format!("C15 three stores: index {name}"), e))?.ok_or((format!("C15 three stores: index {name} missing"), String::new()))?;
            let mut rows = vec![];
            for p in 0..count as u32 {
                let e = ix.entry(p).map_err(|e| (format!("C15 three stores: unreadable entry of {name}"), e))?.ok_or((format!("C15 three stores: entry of {name} missing"), format!("{p}")))?;
                rows.push(props.iter().map(|pr| match e.vals.get(*pr) { Some(jbkmc::dirmodel::RVal::U(v)) => *v, _ => u64::MAX }).collect());
            }
            Ok(rows)
        };
        let drows = get("d", n, &["key", "id"])?;
        let frows = get("f", n, &["dir", "name", "id"])?;
        let xrows = get("x", n.min(20), &["id", "file"])?;
        // position of D's entry i / F's entry j as stored
        let pos_d: std::collections::HashMap<u64, usize> = drows.iter().enumerate().map(|(p, r)| (r[1], p)).collect();
        let pos_f: std::collections::HashMap<u64, usize> = frows.iter().enumerate().map(|(p, r)| (r[2], p)).collect();
        if drows.windows(2).any(|w| w[0][0] > w[1][0]) {
            return Err(("C15 three stores: store D is not sorted on its key".into(), format!("{:?}", &drows[..drows.len().min(6)])));
        }
        for r in &frows {
            let want = pos_d[&r[2]] as u64; // F's entry j lives in D's entry j
            if r[0] != want {
                return Err(("C15 reference into another store does not resolve to the final position".into(), format!("entry #{} of F references entry #{} of D (final position {want}), stored {}", r[2], r[2], r[0])));
            }
        }
        if frows.windows(2).any(|w| (w[0][0], w[0][1]) > (w[1][0], w[1][1])) {
            return Err(("C15 three stores: store F is not sorted on (position in D, name)".into(), format!("{:?}", &frows[..frows.len().min(6)])));
        }
        for r in &xrows {
            let want = pos_f[&r[0]] as u64;
            if r[1] != want {
                return Err(("C15 reference into another store does not resolve to the final position".into(), format!("entry #{} of X references entry #{} of F (final position {want}), stored {}", r[0], r[0], r[1])));
            }
        }
        Ok(())
    });
    match read {
        Ok(Ok(())) => done("ok(three stores)", None),
        Ok(Err((k, w))) => done("violation", Some((k, w))),
        Err(p) => done("violation", Some((format!("C15 three stores: reader panics {}", jbkmc::panic_site(&p)), p))),
    }
}

/// A chain of `levels` + 2 stores in one pack: D sorted on its key (reversed by the sort),
/// F_levels sorted on (position of its entry of D, name), F_i sorted on (position of its entry
/// of F_{i+1}, name), X unsorted referencing F_1. `order`: how the stores are added.
fn chain_store_result(n: usize, levels: usize, order: u8) -> CaseResult {
    use jbk::creator::schema;
    let cj = json!({"engine":"schemamc","sub":"c15","store_chain":{"n":n,"levels":levels,"order":order}});
    let done = |outcome: &str, v: Option<(String, String)>| CaseResult {
        id: format!("chain:{cj}"),
        nontrivial: true,
        outcome: outcome.into(),
        violation: v.map(|(k, w)| (k, w, cj.clone())),
        sample: json!({"tier": "store-chain", "case": cj}),
    };
    let built = jbkmc::catch(|| -> Result<Vec<u8>, String> {
        let mut creator = jbk::creator::DirectoryPackCreator::new(jbk::PackId::from(0), jbk::VendorId::from([1, 2, 3, 4]), Default::default());
        let schema_d = schema::Schema::<&'static str, &'static str>::new(schema::CommonProperties::new(vec![schema::Property::new_uint("key"), schema::Property::new_uint("id")]), vec![], Some(vec!["key"]));
        let mut d = Box::new(jbk::creator::EntryStore::new(schema_d, None));
        let mut handles = vec![];
        for i in 0..n {
            let e = jbk::creator::BasicEntry::new_from_schema(&d.schema, None, std::collections::HashMap::from([("key", jbk::Value::Unsigned((n - i) as u64)), ("id", jbk::Value::Unsigned(i as u64))]));
            handles.push(d.add_entry(e));
        }
        // F_levels .. F_1
        let mut fs = vec![];
        for _ in 0..levels {
            let schema_f = schema::Schema::<&'static str, &'static str>::new(schema::CommonProperties::new(vec![schema::Property::new_uint("up"), schema::Property::new_uint("name"), schema::Property::new_uint("id")]), vec![], Some(vec!["up", "name"]));
            let mut f = Box::new(jbk::creator::EntryStore::new(schema_f, None));
            let mut hs = vec![];
            for j in 0..n {
                let e = jbk::creator::BasicEntry::new_from_schema(
                    &f.schema,
                    None,
                    std::collections::HashMap::from([("up", jbk::Value::UnsignedWord(handles[j].clone().into())), ("name", jbk::Value::Unsigned(j as u64)), ("id", jbk::Value::Unsigned(j as u64))]),
                );
                hs.push(f.add_entry(e));
            }
            handles = hs;
            fs.push(f);
        }
        let schema_x = schema::Schema::<&'static str, &'static str>::new(schema::CommonProperties::new(vec![schema::Property::new_uint("id"), schema::Property::new_uint("file")]), vec![], None);
        let mut x = Box::new(jbk::creator::EntryStore::new(schema_x, None));
        let nx = n.min(20);
        for k in 0..nx {
            let e = jbk::creator::BasicEntry::new_from_schema(&x.schema, None, std::collections::HashMap::from([("id", jbk::Value::Unsigned(k as u64)), ("file", jbk::Value::UnsignedWord(handles[k].clone().into()))]));
            x.add_entry(e);
        }
        // adding order: fs = [F_levels, .., F_1]
        type St = Box<jbk::creator::EntryStore<&'static str, &'static str, jbk::creator::BasicEntry<&'static str, &'static str>>>;
        let mut named: Vec<(String, u32, St)> = vec![("d".into(), n as u32, d)];
        for (i, f) in fs.into_iter().enumerate() {
            named.push((format!("f{}", levels - i), n as u32, f));
        }
        named.push(("x".into(), nx as u32, x));
        // named = [d, F_levels, .., F_1, x]
        match order {
            0 => named.reverse(), // x, F_1, .., F_levels, d
            1 => {}               // d, F_levels, .., F_1, x
            _ => {
                let last = named.pop().unwrap(); // x
                named.rotate_left(1); // F_levels, .., F_1, d
                named.insert(1.min(named.len()), last);
            }
        }
        for (name, count, store) in named {
            let id = creator.add_entry_store(store);
            creator.create_index(&name, Default::default(), 0.into(), id, jbk::EntryCount::from(count), jbk::EntryIdx::from(0).into());
        }
        let mut out = std::io::Cursor::new(Vec::new());
        creator.finalize().map_err(|e| format!("finalize: {e}"))?.write(&mut out).map_err(|e| format!("write: {e}"))?;
        Ok(out.into_inner())
    });
    let bytes = match built {
        Ok(Ok(b)) => b,
        Ok(Err(e)) => return done("violation", Some(("C15 creation failed (chain of stores)".into(), e))),
        Err(p) => return done("violation", Some((format!("C15 creation failed (chain of stores) {}", jbkmc::panic_site(&p)), p))),
    };
    let read = jbkmc::catch(|| -> Result<(), (String, String)> {
        let od = open(bytes).map_err(|e| ("C15 chain of stores: directory pack does not open".to_string(), e))?;
        let get = |name: &str, count: usize, props: &[&str]| -> Result<Vec<Vec<u64>>, (String, String)> {
            let ix = od.index(name).map_err(|e| (format!("C15 chain of stores: index {name}"), e))?.ok_or((format!("C15 chain of stores: index {name} missing"), String::new()))?;
            let mut rows = vec![];
            for p in 0..count as u32 {
                let e = ix.entry(p).map_err(|e| (format!("C15 chain of stores: unreadable entry of {name}"), e))?.ok_or((format!("C15 chain of stores: entry of {name} missing"), format!("{p}")))?;
                rows.push(props.iter().map(|pr| match e.vals.get(*pr) { Some(jbkmc::dirmodel::RVal::U(v)) => *v, _ => u64::MAX }).collect());
            }
            Ok(rows)
        };
        let drows = get("d", n, &["key", "id"])?;
        if drows.windows(2).any(|w| w[0][0] > w[1][0]) {
            return Err(("C15 chain of stores: store D is not sorted on its key".into(), format!("{:?}", &drows[..drows.len().min(6)])));
        }
        // position of the entry with insertion number i, per store, walking down the chain
        let mut pos_up: std::collections::HashMap<u64, usize> = drows.iter().enumerate().map(|(p, r)| (r[1], p)).collect();
        for lvl in (1..=levels).rev() {
            let name = format!("f{lvl}");
            let rows = get(&name, n, &["up", "name", "id"])?;
            for r in &rows {
                let want = pos_up[&r[2]] as u64;
                if r[0] != want {
                    return Err(("C15 reference into another store does not resolve to the final position".into(), format!("entry #{} of {name} references entry #{} of the next store (final position {want}), stored {}", r[2], r[2], r[0])));
                }
            }
            if rows.windows(2).any(|w| (w[0][0], w[0][1]) > (w[1][0], w[1][1])) {
                return Err((format!("C15 chain of stores: store {name} is not sorted on (reference, name)"), format!("{:?}", &rows[..rows.len().min(6)])));
            }
            pos_up = rows.iter().enumerate().map(|(p, r)| (r[2], p)).collect();
        }
        for r in &get("x", n.min(20), &["id", "file"])? {
            let want = pos_up[&r[0]] as u64;
            if r[1] != want {
                return Err(("C15 reference into another store does not resolve to the final position".into(), format!("entry #{} of X references entry #{} of F1 (final position {want}), stored {}", r[0], r[0], r[1])));
            }
        }
        Ok(())
    });
    match read {
        Ok(Ok(())) => done("ok(chain of stores)", None),
        Ok(Err((k, w))) => done("violation", Some((k, w))),
        Err(p) => done("violation", Some((format!("C15 chain of stores: reader panics {}", jbkmc::panic_site(&p)), p))),
    }
}

fn cross_cases(thorough: bool) -> Vec<CrossCase> {
    let mut v = vec![];
    // small: every target function for n <= 3, 2 entries in A
    for n in 1..=3usize {
        for t in sequences(n, 2) {
            for b_sorted in [false, true] {
                for a_first in [false, true] {
                    for b_reversed in [false, true] {
                        v.push(CrossCase { n, b_sorted, a_first, targets: t.clone(), b_reversed });
                    }
                }
            }
        }
    }
    // positions crossing the 1-byte boundary, constant and varying columns
    let sizes: &[usize] = if thorough { &[256, 257, 300, 70_000] } else { &[257, 300] };
    for &n in sizes {
        let shapes: Vec<Vec<usize>> = vec![
            vec![0, 0, 0],             // constant column: everyone references the first inserted
            vec![n - 1, n - 1],        // constant: the last inserted
            vec![0, 1, n - 1, n / 2],  // varying
            vec![0, 1, 2],             // first inserted only: small before the sort, large after a reversal
            vec![n - 2, n - 1],        // last inserted only
            (0..n.min(400)).collect(), // one reference per entry
        ];
        for targets in shapes {
            for b_sorted in [false, true] {
                for a_first in [false, true] {
                    for b_reversed in [false, true] {
                        v.push(CrossCase { n, b_sorted, a_first, targets: targets.clone(), b_reversed });
                    }
                }
            }
        }
    }
    v
}

fn c15(args: &Args) -> ! {
    let mut rep = Report::new(
        "schemamc",
        "C15",
        "every reference function f: entries -> entries+none ((n+1)^n graphs) x every insertion order (n!) x {sorted,unsorted} x {reference column alone, next to another column} x {unsigned word, unsigned word beside plain equal constants, signed word = target position, signed word = target - own position, unsigned word held by the second variant of the schema}, n in 1..4 (quick) / 1..5 (thorough), plus references between two, three, four and five stores of one pack (chains of stores each sorted on its references into the next) (every target function on small stores, stores of 257/300 entries reversed by their sort, every order of adding the stores); plus structured graphs (successor chain, everyone->last, reversal, self) at n in {32,300,1000,20000} and a reduced set at 66000 crossing the 1-byte and 2-byte position boundaries and rayon's sequential cut-offs; non-trivial = at least one reference and (unsorted or the sort moves an entry)",
    );
    if let Some(p) = &args.replay {
        let j: J = serde_json::from_str(&std::fs::read_to_string(p).expect("replay file")).unwrap();
        let case = if j.get("case").is_some() { &j["case"] } else { &j };
        if case.get("structured").is_some() {
            eprintln!("structured case: re-run the tier");
            std::process::exit(2);
        }
        if let Some(cs) = case.get("cross_store") {
            let targets: Vec<usize> = match cs["targets"].as_array() {
                Some(a) => a.iter().map(|x| x.as_u64().unwrap() as usize).collect(),
                None => {
                    eprintln!("structured case: re-run the tier");
                    std::process::exit(2);
                }
            };
            let c = CrossCase { n: cs["n"].as_u64().unwrap() as usize, b_sorted: cs["b_sorted"].as_bool().unwrap(), a_first: cs["a_first"].as_bool().unwrap(), targets, b_reversed: cs["b_reversed"].as_bool().unwrap() };
            let r = cross_store_result(&c);
            println!("replay outcome: {}", r.outcome);
            rep.case(Some(&r.id), &r.outcome);
            if let Some((k, w, cj)) = r.violation {
                println!("  {k}: {w}");
                rep.violation(&k, &w, cj);
            }
            rep.finish(args);
        }
        let r = if case.get("refsort").is_some() { refsort_result(&RefCase::from_json(case)) } else { ref_result(&RefCase::from_json(case), "replay") };
        println!("replay outcome: {}", r.outcome);
        rep.case(Some(&r.id), &r.outcome);
        if let Some((k, w, c)) = r.violation {
            println!("  {k}: {w}");
            rep.violation(&k, &w, c);
        }
        rep.finish(args);
    }
    let t = args.thorough();
    if let Some(sz) = args.opt("--large") {
        let threads = std::env::var("RAYON_NUM_THREADS").unwrap_or_else(|_| "default".into());
        rep.extra.insert("rayon_threads".into(), json!(threads));
        let sizes: Vec<usize> = sz.split(',').map(|x| x.parse().unwrap()).collect();
        let mut descs = vec![];
        for n in sizes {
            // key arrangements: where insertion position k ends up after the sort
            let arrangements: Vec<Vec<Vec<u8>>> = vec![
                (0..n).map(|k| format!("{:07}", (k * 7919) % n).into_bytes()).collect(), // stride permutation
                (0..n).map(|k| format!("{:07}", n - 1 - k).into_bytes()).collect(),       // reversal: first inserted sorts last
                (0..n).map(|k| format!("{:07}", k).into_bytes()).collect(),               // already sorted
            ];
            let m = 10.min(n);
            let graphs: Vec<Vec<Option<usize>>> = vec![
                (0..n).map(|k| Some((k + 1) % n)).collect(),
                (0..n).map(|_| Some(n - 1)).collect(),
                (0..n).map(|k| Some(n - 1 - k)).collect(),
                (0..n).map(|k| if k % 3 == 0 { Some(k) } else if k % 3 == 1 { None } else { Some(k / 2) }).collect(),
                (0..n).map(|k| Some(k % m)).collect(),           // few targets, inserted first
                (0..n).map(|k| Some(n - m + k % m)).collect(),   // few targets, inserted last
            ];
            // above 30000 entries (positions that need a third byte at 65536+) a reduced set:
            // the reversal arrangement, three graphs, sorted, forward insertion, modes 0 and 2
            let big = n > 30_000;
            for (ai, keys) in arrangements.iter().enumerate() {
                if big && ai != 1 {
                    continue;
                }
                for (gi, f) in graphs.iter().enumerate() {
                    if big && gi > 2 {
                        continue;
                    }
                    for sorted in [true, false] {
                        if big && !sorted {
                            continue;
                        }
                        for rev in [false, true] {
                            if big && rev {
                                continue;
                            }
                            let mut order: Vec<usize> = (0..n).collect();
                            if rev { order.reverse(); }
                            for mode in 0..5u8 {
                                if big && mode != 0 && mode != 2 {
                                    continue;
                                }
                                descs.push(RefCase { n, f: f.clone(), order: order.clone(), sorted, extra_col: n % 2 == 0, keys: keys.clone(), mode });
                            }
                        }
                    }
                }
            }
        }
        run_cases(&mut rep, &descs, |d| {
            let mut r = ref_result(d, "large");
            r.id = format!("large:{}:{:?}:{}:{}:{:?}:{}", d.n, &d.f[..d.f.len().min(4)], d.sorted, d.order[0], d.keys[0], d.mode);
            r
        });
        rep.finish(args);
    }
    let maxn = if t { 5 } else { 4 };
    let mut descs = vec![];
    for n in 1..=maxn {
        let keys: Vec<Vec<u8>> = (0..n).map(|k| vec![b'a' + k as u8, b'x']).collect();
        for fsel in sequences(n + 1, n) {
            let f: Vec<Option<usize>> = fsel.iter().map(|&x| if x == n { None } else { Some(x) }).collect();
            for order in permutations(n) {
                for sorted in [true, false] {
                    for extra_col in [false, true] {
                        for mode in 0..5u8 {
                            descs.push(RefCase { n, f: f.clone(), order: order.clone(), sorted, extra_col, keys: keys.clone(), mode });
                        }
                    }
                }
            }
        }
    }
    run_cases(&mut rep, &descs, |d| ref_result(d, "graphs"));
    // stores sorted on (reference, key): the order itself depends on the references. Forests only
    // (every chain ends in a self-reference or in no reference), where a stable order exists.
    let mut rdescs = vec![];
    for n in 1..=maxn {
        let keys: Vec<Vec<u8>> = (0..n).map(|k| vec![b'a' + k as u8]).collect();
        for fsel in sequences(n + 1, n) {
            let f: Vec<Option<usize>> = fsel.iter().map(|&x| if x == n { None } else { Some(x) }).collect();
            // forest test: following f from every node reaches a fixed point or None within n steps
            let forest = (0..n).all(|start| {
                let mut cur = start;
                for _ in 0..=n {
                    match f[cur] {
                        None => return true,
                        Some(t) if t == cur => return true,
                        Some(t) => cur = t,
                    }
                }
                false
            });
            if !forest {
                continue;
            }
            for order in permutations(n) {
                rdescs.push(RefCase { n, f: f.clone(), order: order.clone(), sorted: true, extra_col: false, keys: keys.clone(), mode: 0 });
                // trees only (no self reference) with plain 0 at the roots
                if f.iter().enumerate().all(|(k, t)| *t != Some(k)) && f.iter().any(|t| t.is_none()) {
                    rdescs.push(RefCase { n, f: f.clone(), order, sorted: true, extra_col: false, keys: keys.clone(), mode: 1 });
                }
            }
        }
    }
    // deep structures sorted on their references: the creator needs several sort passes to reach
    // the fixed point (chains of 10/40 entries, binary heaps of 100/3000 entries), inserted in
    // order, reversed and interleaved, in both encodings of the reference
    for (n, heap) in [(10usize, false), (40, false), (100, true), (3000, true)] {
        if n == 3000 && !t && false {
            continue;
        }
        let f: Vec<Option<usize>> = (0..n).map(|k| if k == 0 { None } else if heap { Some((k - 1) / 2) } else { Some(k - 1) }).collect();
        let keys: Vec<Vec<u8>> = (0..n).map(|k| format!("{:05}", (k * 7919) % 100_003).into_bytes()).collect();
        let orders: Vec<Vec<usize>> = vec![(0..n).collect(), (0..n).rev().collect(), (0..n).map(|k| if k % 2 == 0 { k / 2 } else { n - 1 - k / 2 }).collect()];
        for order in orders {
            for mode in [0u8, 1] {
                rdescs.push(RefCase { n, f: f.clone(), order: order.clone(), sorted: true, extra_col: false, keys: keys.clone(), mode });
            }
        }
    }
    run_cases(&mut rep, &rdescs, |d| refsort_result(d));
    // references from one store into another store of the same pack
    let cc = cross_cases(t);
    run_cases(&mut rep, &cc, |d| cross_store_result(d));
    // a chain of three stores: X -> F (sorted on its reference into D) -> D (sorted)
    let three: Vec<(usize, u8)> = [2usize, 3, 10, 257, 300].iter().flat_map(|&n| (0..3u8).map(move |o| (n, o))).collect();
    run_cases(&mut rep, &three, |(n, o)| three_store_result(*n, *o));
    // longer chains: X -> F1 -> F2 (-> F3) -> D, every store sorted on its reference into the next
    let chains: Vec<(usize, usize, u8)> = [3usize, 257, 300].iter().flat_map(|&n| [2usize, 3].into_iter().flat_map(move |l| (0..3u8).map(move |o| (n, l, o)))).collect();
    run_cases(&mut rep, &chains, |(n, l, o)| chain_store_result(*n, *l, *o));
    rep.finish(args)
}

/// Store sorted on (reference, key). No order is predicted: the read-back store must be
/// consistent with the property itself.
fn refsort_result(case: &RefCase) -> CaseResult {
    let n = case.n;
    let schema = SchemaSpec {
        stores: vec![StoreKind::Plain],
        common: vec![PropSpec::A { prefix: 1, store: 0 }, PropSpec::U],
        variants: vec![],
        sort: Some(vec![1, 0]),
    };
    let entries: Vec<EntrySpec> = (0..n)
        .map(|k| EntrySpec {
            variant: None,
            vals: vec![
                Val::A(case.keys[k].clone()),
                match case.f[k] {
                    // mode 1: "parent + 1, 0 = no parent": roots hold the plain constant 0 (the sort
                    // key column mixes plain and bound values); mode 0: the target's position, roots
                    // hold a delayed constant above every position
                    Some(t) if case.mode == 1 => Val::RefP1(t),
                    Some(t) => Val::Ref(t),
                    None if case.mode == 1 => Val::U(0),
                    None => Val::UW(n as u64 + 7),
                },
            ],
        })
        .collect();
    let root_value = if case.mode == 1 { 0 } else { n as u64 + 7 };
    let spec = DirSpec { schema, entries, indexes: simple_index(n) };
    let mut cj = case.json();
    cj["refsort"] = json!(true);
    let fail = |k: &str, w: String| CaseResult {
        id: format!("refsort:{}", cj),
        nontrivial: true,
        outcome: "violation".into(),
        violation: Some((k.to_string(), w, cj.clone())),
        sample: json!({"tier": "refsort", "case": cj}),
    };
    let built = match build_with_order(&spec, Some(&case.order)) {
        Ok(b) => b,
        Err(e) => {
            let msg = match &e { BuildErr::Err(m) | BuildErr::Panic(m) => m.clone() };
            return fail(&format!("C15 creation failed (sorted on a reference, forest) {}", jbkmc::panic_site(&msg)), msg);
        }
    };
    let r = jbkmc::catch(|| -> Result<(), (String, String)> {
        let od = open(built.bytes.clone()).map_err(|e| ("C15 unreadable".to_string(), e))?;
        let oi = od.index("all").map_err(|e| ("C15 unreadable".to_string(), e))?.unwrap();
        let mut pos_of_key: std::collections::HashMap<Vec<u8>, u64> = Default::default();
        let mut rows = vec![];
        for i in 0..n as u32 {
            let e = oi.entry(i).map_err(|e| ("C15 unreadable entry".to_string(), e))?.unwrap();
            let key = match &e.vals["p0"] { RVal::A(a) => a.clone(), _ => vec![] };
            let r = match &e.vals["p1"] { RVal::U(u) => *u, _ => u64::MAX };
            pos_of_key.insert(key.clone(), i as u64);
            rows.push((key, r));
        }
        if pos_of_key.len() != n {
            return Err(("C15 entries lost or duplicated".into(), format!("{rows:?}")));
        }
        for k in 0..n {
            let p = pos_of_key[&case.keys[k]];
            let want = match case.f[k] { Some(t) => pos_of_key[&case.keys[t]] + if case.mode == 1 { 1 } else { 0 }, None => root_value };
            if rows[p as usize].1 != want {
                return Err(("C15 reference does not resolve to the final position".into(), format!("entry {k} (at {p}) stores {}, its target is at {want}; rows {rows:?}", rows[p as usize].1)));
            }
            if built.bounds[k] as u64 != p {
                return Err(("C15 handle does not report the final position".into(), format!("handle of entry {k} reports {}, entry is at {p}", built.bounds[k])));
            }
        }
        for w in rows.windows(2) {
            if (w[0].1, &w[0].0) > (w[1].1, &w[1].0) {
                return Err(("C15 store sorted on a reference is not in order".into(), format!("{rows:?}")));
            }
        }
        Ok(())
    });
    match r {
        Ok(Ok(())) => CaseResult { id: format!("refsort:{}", cj), nontrivial: case.f.iter().any(|x| x.is_some()), outcome: "ok(refsort)".into(), violation: None, sample: json!({"tier":"refsort","case":cj}) },
        Ok(Err((k, w))) => fail(&k, w),
        Err(p) => fail(&format!("C15 reader-panic {}", jbkmc::panic_site(&p)), p),
    }
}

fn main() {
    jbkmc::install_quiet_panic_hook();
    let args = Args::parse();
    jbkmc::dirmodel::ANCHOR_INDEX.store(true, std::sync::atomic::Ordering::Relaxed);
    match args.sub.as_str() {
        "c02" => c02(&args),
        "c03" => c03(&args),
        "c15" => c15(&args),
        other => {
            eprintln!("unknown subcommand {other}");
            std::process::exit(2)
        }
    }
}
