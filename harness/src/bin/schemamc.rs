//! schemamc — bounded-exhaustive schemas/entry sets on the real DirectoryPackCreator + reader.
//! Subcommands: c02 (values read back), c03 (sorted stores + lookup), c15 (references).

use jbkmc::dirmodel::*;
use jbkmc::gen::*;
use jbkmc::{Args, Report};
use rayon::prelude::*;
use serde_json::{json, Value as J};

struct CaseResult {
    id: String,
    nontrivial: bool,
    outcome: String,
    violation: Option<(String, String, J)>,
    sample: J,
}

fn run_cases<D: Sync>(rep: &mut Report, descs: &[D], f: impl Fn(&D) -> CaseResult + Sync) {
    for chunk in descs.chunks(4096) {
        let results: Vec<CaseResult> = chunk.par_iter().map(&f).collect();
        for (i, r) in results.into_iter().enumerate() {
            rep.case(if r.nontrivial { Some(&r.id) } else { None }, &r.outcome);
            if i == 0 || (r.nontrivial && rep.samples.len() < 4) {
                rep.sample(r.sample.clone());
            }
            if let Some((k, w, c)) = r.violation {
                rep.violation(&k, &w, c);
            }
        }
    }
}

fn ident(k: usize) -> u64 {
    k as u64
}

fn simple_index(n: usize) -> Vec<IndexSpec> {
    vec![IndexSpec {
        name: "all".into(),
        offset: 0,
        count: n as u32,
    }]
}

fn eval(tier: &str, spec: &DirSpec, unrep: Option<String>) -> CaseResult {
    let out = check_roundtrip(spec, None, &ident, unrep);
    let id = format!("{tier}:{}", spec.to_json());
    let (outcome, violation, nontrivial) = match out {
        Outcome::Ok => ("ok".to_string(), None, !spec.entries.is_empty()),
        Outcome::RejectedUnrepresentable(r) => (format!("rejected:{r}"), None, true),
        Outcome::Violation { key, what } => (
            format!("violation:{key}"),
            Some((
                format!("C02 {key}"),
                what,
                json!({"engine": "schemamc", "sub": "c02", "tier": tier, "spec": spec.to_json()}),
            )),
            true,
        ),
    };
    CaseResult {
        id,
        nontrivial,
        outcome,
        violation,
        sample: json!({"tier": tier, "spec": spec.brief()}),
    }
}

fn uint_alphabet() -> Vec<u64> {
    vec![
        0,
        1,
        255,
        256,
        65_535,
        65_536,
        (1 << 24) - 1,
        1 << 24,
        (1u64 << 32) - 1,
        1u64 << 32,
        (1u64 << 56) - 1,
        1u64 << 56,
        u64::MAX,
    ]
}

fn sint_alphabet() -> Vec<i64> {
    vec![
        0,
        1,
        -1,
        127,
        128,
        -128,
        -129,
        32_767,
        32_768,
        -32_768,
        -32_769,
        (1 << 31) - 1,
        1 << 31,
        -(1 << 31),
        -(1 << 31) - 1,
        i64::MAX,
        i64::MIN,
    ]
}

fn content_alphabet() -> Vec<(u16, u32)> {
    let mut v = vec![];
    for p in [0u16, 1, 255, 256, 65_535] {
        for c in [0u32, 255, 256, 65_535, 65_536, (1 << 24) - 1, 1 << 24, u32::MAX] {
            v.push((p, c));
        }
    }
    v
}

fn one_col(p: PropSpec, stores: Vec<StoreKind>, vals: Vec<Val>) -> DirSpec {
    let n = vals.len();
    DirSpec {
        schema: SchemaSpec {
            stores,
            common: vec![p],
            variants: vec![],
            sort: None,
        },
        entries: vals
            .into_iter()
            .map(|v| EntrySpec {
                variant: None,
                vals: vec![v],
            })
            .collect(),
        indexes: simple_index(n),
    }
}

// ---------------------------------------------------------------- tier A
fn tier_a(rep: &mut Report, thorough: bool) {
    let maxk = if thorough { 3 } else { 2 };
    // integers, plain and as Word
    let ua = uint_alphabet();
    let sa = sint_alphabet();
    let ca = content_alphabet();
    #[derive(Clone)]
    enum D {
        U(Vec<usize>, bool),
        S(Vec<usize>, bool),
        C(Vec<usize>),
    }
    let mut descs = vec![];
    for k in 0..=maxk {
        for m in multisets(ua.len(), k) {
            descs.push(D::U(m.clone(), false));
            if k > 0 {
                descs.push(D::U(m, true));
            }
        }
        for m in multisets(sa.len(), k) {
            descs.push(D::S(m.clone(), false));
            if k > 0 {
                descs.push(D::S(m, true));
            }
        }
    }
    for k in 0..=maxk {
        for m in multisets(ca.len(), k) {
            descs.push(D::C(m));
        }
    }
    run_cases(rep, &descs, |d| {
        let spec = match d {
            D::U(m, w) => one_col(
                PropSpec::U,
                vec![],
                m.iter()
                    .map(|&i| if *w { Val::UW(ua[i]) } else { Val::U(ua[i]) })
                    .collect(),
            ),
            D::S(m, w) => one_col(
                PropSpec::S,
                vec![],
                m.iter()
                    .map(|&i| if *w { Val::SW(sa[i]) } else { Val::S(sa[i]) })
                    .collect(),
            ),
            D::C(m) => one_col(
                PropSpec::C,
                vec![],
                m.iter().map(|&i| Val::C(ca[i].0, ca[i].1)).collect(),
            ),
        };
        eval("A-int", &spec, None)
    });

    // arrays
    struct AD {
        prefix: usize,
        store: StoreKind,
        vals: Vec<(usize, u8)>,
    }
    let mut adescs = vec![];
    for prefix in [0usize, 1, 2, 3, 31] {
        for store in [StoreKind::Plain, StoreKind::Indexed] {
            let mut lens: Vec<usize> = vec![0, 1, prefix.saturating_sub(1), prefix, prefix + 1, 255, 256];
            if thorough {
                lens.extend([65_535, 65_536]);
            }
            lens.sort();
            lens.dedup();
            let mut alphabet: Vec<(usize, u8)> = vec![];
            for &l in &lens {
                if l == 0 {
                    alphabet.push((0, 0));
                } else {
                    for f in [0x00u8, b'a', 0xff] {
                        alphabet.push((l, f));
                    }
                }
            }
            for k in 0..=maxk {
                for m in multisets(alphabet.len(), k) {
                    // size-3 multisets only over the short values (keeps 64 KiB triples out)
                    if k == 3 && m.iter().any(|&i| alphabet[i].0 > prefix + 1 && alphabet[i].0 > 3) {
                        continue;
                    }
                    adescs.push(AD {
                        prefix,
                        store,
                        vals: m.iter().map(|&i| alphabet[i]).collect(),
                    });
                }
            }
        }
    }
    run_cases(rep, &adescs, |d| {
        let spec = one_col(
            PropSpec::A {
                prefix: d.prefix,
                store: 0,
            },
            vec![d.store],
            d.vals.iter().map(|&(l, f)| Val::A(vec![f; l])).collect(),
        );
        eval("A-array", &spec, None)
    });

    // unrepresentable: array of 2^24 bytes, prefix 32
    if thorough {
        let big = one_col(
            PropSpec::A { prefix: 1, store: 0 },
            vec![StoreKind::Plain],
            vec![Val::A(vec![b'x'; 1 << 24]), Val::A(vec![b'y'; 3])],
        );
        let r = eval("A-unrep", &big, None);
        rep.case(Some(&r.id.chars().take(200).collect::<String>()), &r.outcome);
        if let Some((k, w, _)) = r.violation {
            rep.violation(&k, &w, json!({"engine":"schemamc","sub":"c02","tier":"A-unrep","builtin":"array 2^24"}));
        }
        let maxok = one_col(
            PropSpec::A { prefix: 1, store: 0 },
            vec![StoreKind::Plain],
            vec![Val::A(vec![b'x'; (1 << 24) - 1]), Val::A(vec![b'y'; 3])],
        );
        let r = eval("A-max", &maxok, None);
        rep.case(Some(&r.id.chars().take(200).collect::<String>()), &r.outcome);
        if let Some((k, w, _)) = r.violation {
            rep.violation(&k, &w, json!({"engine":"schemamc","sub":"c02","tier":"A-max","builtin":"array 2^24-1"}));
        }
    }
    // prefix 32 is outside the property's domain (inline prefix 0..31): not enumerated.
    rep.note("inline prefix > 31 is outside C02's domain and is not enumerated");
}

// ---------------------------------------------------------------- tier B
fn kind_menu() -> Vec<(PropSpec, [Val; 2])> {
    vec![
        (PropSpec::U, [Val::U(3), Val::U(70_000)]),
        (PropSpec::S, [Val::S(-2), Val::S(40_000)]),
        (PropSpec::C, [Val::C(0, 5), Val::C(300, 70_000)]),
        (
            PropSpec::A { prefix: 0, store: 0 },
            [Val::A(b"".to_vec()), Val::A(b"hello".to_vec())],
        ),
        (
            PropSpec::A { prefix: 2, store: 0 },
            [Val::A(b"ab".to_vec()), Val::A(b"abc".to_vec())],
        ),
        (
            PropSpec::A { prefix: 0, store: 1 },
            [Val::A(b"k".to_vec()), Val::A(vec![0xff; 300])],
        ),
        (
            PropSpec::A { prefix: 1, store: 1 },
            [Val::A(b"".to_vec()), Val::A(b"zz".to_vec())],
        ),
    ]
}

fn tier_b(rep: &mut Report, thorough: bool) {
    let menu = kind_menu();
    let mut descs: Vec<(Vec<usize>, usize)> = vec![];
    for ncol in 2..=3 {
        if ncol == 3 && !thorough {
            // quick: triples only over the first 5 kinds
            for cols in sequences(5, 3) {
                for mask in 0..(1usize << ncol) {
                    descs.push((cols.clone(), mask));
                }
            }
            continue;
        }
        for cols in sequences(menu.len(), ncol) {
            for mask in 0..(1usize << ncol) {
                descs.push((cols.clone(), mask));
            }
        }
    }
    run_cases(rep, &descs, |(cols, mask)| {
        // mask bit c set: column c varies between the two entries; else constant
        let schema = SchemaSpec {
            stores: vec![StoreKind::Plain, StoreKind::Indexed],
            common: cols.iter().map(|&c| menu[c].0.clone()).collect(),
            variants: vec![],
            sort: None,
        };
        let e = |row: usize| EntrySpec {
            variant: None,
            vals: cols
                .iter()
                .enumerate()
                .map(|(c, &k)| {
                    if mask & (1 << c) != 0 {
                        menu[k].1[row].clone()
                    } else {
                        menu[k].1[1].clone()
                    }
                })
                .collect(),
        };
        let spec = DirSpec {
            schema,
            entries: vec![e(0), e(1), e(0)],
            indexes: simple_index(3),
        };
        eval("B", &spec, None)
    });
}

// ---------------------------------------------------------------- tier C (variants)
#[derive(Clone)]
struct VarItem {
    /// (property, varying?) ; varying needs >= 2 entries of that variant
    props: Vec<(PropSpec, u8)>, // u8: 0 = constant, 1 = varying 1 byte, 2 = varying 2 bytes, 8 = varying 8 bytes, 33 = array
}

fn var_menu() -> Vec<VarItem> {
    let u = |w: u8| (PropSpec::U, w);
    vec![
        VarItem { props: vec![] },
        VarItem { props: vec![u(1)] },
        VarItem { props: vec![u(0)] },
        VarItem { props: vec![u(8)] },
        VarItem { props: vec![u(0), u(1)] },
        VarItem { props: vec![u(1), u(0)] },
        VarItem {
            props: vec![(PropSpec::A { prefix: 31, store: 0 }, 33)],
        },
        VarItem { props: vec![u(1), u(0), u(2)] },
        VarItem { props: vec![u(8), u(8), u(1)] },
    ]
}

fn var_value(w: u8, row: usize, salt: u64) -> Val {
    match w {
        0 => Val::U(7 + salt),
        1 => Val::U([3, 200][row % 2]),
        2 => Val::U([300, 60_000][row % 2]),
        8 => Val::U([1u64 << 60, 5][row % 2]),
        _ => Val::A(if row % 2 == 0 {
            vec![b'q'; 40]
        } else {
            b"short".to_vec()
        }),
    }
}

fn tier_c(rep: &mut Report, thorough: bool) {
    let menu = var_menu();
    let commons: Vec<Vec<(PropSpec, u8)>> = vec![
        vec![],
        vec![(PropSpec::U, 1)],
        vec![(PropSpec::U, 0)],
        vec![(PropSpec::U, 2), (PropSpec::A { prefix: 1, store: 0 }, 33)],
    ];
    // a variant choice = (menu item, number of entries 0..2)
    let mut choices: Vec<(usize, usize)> = vec![];
    for m in 0..menu.len() {
        for n in 0..=2 {
            choices.push((m, n));
        }
    }
    let reduced: Vec<(usize, usize)> = choices
        .iter()
        .cloned()
        .filter(|(m, n)| [0usize, 1, 2, 4, 5, 6].contains(m) && *n >= 1)
        .collect();
    let mut descs: Vec<(usize, Vec<(usize, usize)>, usize)> = vec![];
    for c in 0..commons.len() {
        for nv in 1..=3usize {
            let pool = if nv == 3 { &reduced } else { &choices };
            if nv == 3 && !thorough {
                continue;
            }
            for pick in sequences(pool.len(), nv) {
                let vs: Vec<(usize, usize)> = pick.iter().map(|&i| pool[i]).collect();
                for order in 0..2 {
                    descs.push((c, vs.clone(), order));
                }
            }
        }
    }
    run_cases(rep, &descs, |(c, vs, order)| {
        let schema = SchemaSpec {
            stores: vec![StoreKind::Plain],
            common: commons[*c].iter().map(|p| p.0.clone()).collect(),
            variants: vs
                .iter()
                .map(|(m, _)| menu[*m].props.iter().map(|p| p.0.clone()).collect())
                .collect(),
            sort: None,
        };
        let mut entries = vec![];
        let mut row_global = 0;
        for (v, (m, n)) in vs.iter().enumerate() {
            for row in 0..*n {
                let mut vals: Vec<Val> = commons[*c]
                    .iter()
                    .map(|(_, w)| var_value(*w, row_global, 0))
                    .collect();
                for (_, w) in &menu[*m].props {
                    vals.push(var_value(*w, row, v as u64));
                }
                entries.push(EntrySpec {
                    variant: Some(v),
                    vals,
                });
                row_global += 1;
            }
        }
        if *order == 1 {
            entries.reverse();
        }
        let n = entries.len();
        let spec = DirSpec {
            schema,
            entries,
            indexes: simple_index(n),
        };
        eval("C", &spec, None)
    });
}

// ---------------------------------------------------------------- tier D (stores)
fn indexed_tail_size(count: usize, data_size: usize) -> usize {
    let n = {
        let mut v = data_size;
        let mut b = 0;
        while v > 0 {
            v >>= 8;
            b += 1;
        }
        b.max(1)
    };
    1 + 8 + 1 + n + count.saturating_sub(1) * n
}

fn tier_d(rep: &mut Report, thorough: bool) {
    // shared vs separate stores, overlapping values
    let mut descs: Vec<(StoreKind, StoreKind, bool, usize, usize)> = vec![];
    for k0 in [StoreKind::Plain, StoreKind::Indexed] {
        for k1 in [StoreKind::Plain, StoreKind::Indexed] {
            for shared in [true, false] {
                for p0 in [0usize, 1, 3] {
                    for p1 in [0usize, 2] {
                        descs.push((k0, k1, shared, p0, p1));
                    }
                }
            }
        }
    }
    run_cases(rep, &descs, |(k0, k1, shared, p0, p1)| {
        let words: Vec<&[u8]> = vec![b"", b"a", b"ab", b"abc", b"abcd", b"b", b"\x00", b"\x00\x00", b"abc"];
        let schema = SchemaSpec {
            stores: if *shared { vec![*k0] } else { vec![*k0, *k1] },
            common: vec![
                PropSpec::A { prefix: *p0, store: 0 },
                PropSpec::A { prefix: *p1, store: if *shared { 0 } else { 1 } },
            ],
            variants: vec![],
            sort: None,
        };
        let entries: Vec<EntrySpec> = (0..words.len())
            .map(|i| EntrySpec {
                variant: None,
                vals: vec![
                    Val::A(words[i].to_vec()),
                    Val::A(words[(i * 2 + 1) % words.len()].to_vec()),
                ],
            })
            .collect();
        let n = entries.len();
        eval(
            "D-shared",
            &DirSpec {
                schema,
                entries,
                indexes: simple_index(n),
            },
            None,
        )
    });

    // key-width boundaries
    let mut kd: Vec<(StoreKind, usize, usize)> = vec![]; // (kind, number of distinct values, value len)
    for n in [255usize, 256, 257] {
        kd.push((StoreKind::Indexed, n, 2));
    }
    for total in [255usize, 256, 257] {
        kd.push((StoreKind::Plain, total, 1)); // total bytes = n values of 1 byte? at most 256 distinct
    }
    if thorough {
        for n in [65_535usize, 65_536, 65_537] {
            kd.push((StoreKind::Plain, n / 3, 3));
            kd.push((StoreKind::Plain, n / 3 + 1, 3));
        }
        kd.push((StoreKind::Indexed, 65_535 / 3, 2));
    }
    run_cases(rep, &kd, |(kind, n, len)| {
        let schema = SchemaSpec {
            stores: vec![*kind],
            common: vec![PropSpec::A { prefix: 0, store: 0 }, PropSpec::U],
            variants: vec![],
            sort: None,
        };
        let entries: Vec<EntrySpec> = (0..*n)
            .map(|i| {
                let mut a = vec![];
                let mut x = i;
                for _ in 0..*len {
                    a.push((x % 251) as u8 + 1);
                    x /= 251;
                }
                EntrySpec {
                    variant: None,
                    vals: vec![Val::A(a), Val::U(i as u64)],
                }
            })
            .collect();
        let spec = DirSpec {
            schema,
            entries,
            indexes: simple_index(*n),
        };
        let mut r = eval("D-keywidth", &spec, None);
        r.id = format!("D-keywidth:{kind:?}:{n}:{len}");
        r.sample = json!({"tier":"D-keywidth","kind":format!("{kind:?}"),"values":n,"value_len":len});
        if let Some(v) = &mut r.violation {
            v.2 = json!({"engine":"schemamc","sub":"c02","tier":"D-keywidth","kind":format!("{kind:?}"),"values":n,"value_len":len});
        }
        r
    });

    // tails around 65535 bytes (indexed value store, 2-byte values => offsets of 2 bytes)
    let counts: Vec<usize> = if thorough {
        vec![32_000, 32_760, 32_761, 32_762, 32_763, 32_764, 32_767]
    } else {
        vec![32_762, 32_763]
    };
    run_cases(rep, &counts, |count| tail_case(*count));
}

fn tail_spec(count: usize) -> (DirSpec, usize) {
    let schema = SchemaSpec {
        stores: vec![StoreKind::Indexed],
        common: vec![PropSpec::A { prefix: 0, store: 0 }],
        variants: vec![],
        sort: None,
    };
    let entries: Vec<EntrySpec> = (0..count)
        .map(|i| EntrySpec {
            variant: None,
            vals: vec![Val::A(vec![(i >> 8) as u8, (i & 0xff) as u8])],
        })
        .collect();
    // only a window of the entries is compared value by value (the rest costs time, not insight)
    let spec = DirSpec {
        schema,
        entries,
        indexes: vec![
            IndexSpec { name: "head".into(), offset: 0, count: 300.min(count as u32) },
            IndexSpec { name: "tail".into(), offset: count as u32 - 300.min(count as u32), count: 300.min(count as u32) },
        ],
    };
    (spec, indexed_tail_size(count, count * 2))
}

fn tail_case(count: usize) -> CaseResult {
    let (spec, tail) = tail_spec(count);
    let unrep = if tail > 65_535 {
        Some("tail>65535".to_string())
    } else {
        None
    };
    let mut r = eval("D-tail", &spec, unrep);
    r.id = format!("D-tail:{count}");
    r.sample = json!({"tier":"D-tail","indexed_values":count,"tail_bytes":tail});
    if let Some(v) = &mut r.violation {
        v.2 = json!({"engine":"schemamc","sub":"c02","tier":"D-tail","count":count,"tail_bytes":tail});
    }
    r
}

// ---------------------------------------------------------------- tier E (index windows)
fn tier_e(rep: &mut Report, _thorough: bool) {
    let mut descs: Vec<(usize, u32, u32, u32, u32)> = vec![];
    for n in 0..=4usize {
        for o1 in 0..=n as u32 {
            for c1 in 0..=(n as u32 - o1) {
                for o2 in 0..=n as u32 {
                    for c2 in 0..=(n as u32 - o2) {
                        descs.push((n, o1, c1, o2, c2));
                    }
                }
            }
        }
    }
    run_cases(rep, &descs, |(n, o1, c1, o2, c2)| {
        let schema = SchemaSpec {
            stores: vec![StoreKind::Plain],
            common: vec![PropSpec::U, PropSpec::A { prefix: 1, store: 0 }],
            variants: vec![],
            sort: None,
        };
        let entries: Vec<EntrySpec> = (0..*n)
            .map(|i| EntrySpec {
                variant: None,
                vals: vec![Val::U(10 + 300 * i as u64), Val::A(vec![b'a' + i as u8; i + 1])],
            })
            .collect();
        let spec = DirSpec {
            schema,
            entries,
            indexes: vec![
                IndexSpec { name: "w1".into(), offset: *o1, count: *c1 },
                IndexSpec { name: "w2".into(), offset: *o2, count: *c2 },
            ],
        };
        let mut r = eval("E", &spec, None);
        r.nontrivial = *n > 0 && (*c1 > 0 || *c2 > 0);
        r
    });
}

// ---------------------------------------------------------------- large structured stores
fn tier_large(rep: &mut Report, thorough: bool) {
    let sizes: Vec<usize> = if thorough { vec![300, 5_000, 70_000] } else { vec![300, 3_000] };
    run_cases(rep, &sizes, |n| {
        let schema = SchemaSpec {
            stores: vec![StoreKind::Plain, StoreKind::Indexed],
            common: vec![
                PropSpec::U,
                PropSpec::S,
                PropSpec::A { prefix: 2, store: 0 },
                PropSpec::A { prefix: 0, store: 1 },
                PropSpec::C,
            ],
            variants: vec![vec![PropSpec::U], vec![PropSpec::S, PropSpec::U]],
            sort: None,
        };
        let entries: Vec<EntrySpec> = (0..*n)
            .map(|i| {
                let v = i % 2;
                let mut vals = vec![
                    Val::U((i as u64) * 257),
                    Val::S((i as i64 - (*n as i64) / 2) * 129),
                    Val::A(format!("k{:05}", i).into_bytes()),
                    Val::A(format!("{}", i % 500).into_bytes()),
                    Val::C((i % 3) as u16, (i * 7) as u32),
                ];
                if v == 0 {
                    vals.push(Val::U(i as u64));
                } else {
                    vals.push(Val::S(-(i as i64)));
                    vals.push(Val::U(9));
                }
                EntrySpec { variant: Some(v), vals }
            })
            .collect();
        let spec = DirSpec {
            schema,
            entries,
            indexes: vec![
                IndexSpec { name: "all".into(), offset: 0, count: *n as u32 },
                IndexSpec { name: "mid".into(), offset: (*n / 3) as u32, count: (*n / 3) as u32 },
            ],
        };
        let mut r = eval("large", &spec, None);
        r.id = format!("large:{n}");
        r.sample = json!({"tier":"large","entries":n});
        if let Some(v) = &mut r.violation {
            v.2 = json!({"engine":"schemamc","sub":"c02","tier":"large","entries":n});
        }
        r
    });
}

fn c02(args: &Args) -> ! {
    let mut rep = Report::new(
        "schemamc",
        "C02",
        "every schema/entry-set of tiers A (one column, all multisets of boundary values), B (all ordered pairs/triples of property kinds x constant/varying), C (variants: common x 1..3 variants from a menu incl. zero-width/empty/33-byte ones x 0..2 entries each x 2 orders), D (shared stores, key-width and 64 KiB tail boundaries), E (all index windows on <=4 entries, two indexes), large structured stores; a case is non-trivial when it holds at least one entry; distinct by canonical spec",
    );
    if let Some(p) = &args.replay {
        let j: J = serde_json::from_str(&std::fs::read_to_string(p).expect("replay file")).unwrap();
        let case = if j.get("case").is_some() { &j["case"] } else { &j };
        let r = match case["tier"].as_str() {
            Some("D-tail") => tail_case(case["count"].as_u64().unwrap() as usize),
            _ if case.get("spec").is_some() => eval("replay", &DirSpec::from_json(&case["spec"]), None),
            _ => {
                eprintln!("this replay names a built-in case; run the tier instead");
                std::process::exit(2);
            }
        };
        println!("replay outcome: {}", r.outcome);
        rep.case(Some(&r.id), &r.outcome);
        if let Some((k, w, c)) = r.violation {
            println!("  {k}: {w}");
            rep.violation(&k, &w, c);
        }
        rep.finish(args);
    }
    let t = args.thorough();
    let only = args.opt("--only");
    let want = |x: &str| only.as_deref().map(|o| o == x).unwrap_or(true);
    if want("A") {
        tier_a(&mut rep, t);
    }
    if want("B") {
        tier_b(&mut rep, t);
    }
    if want("C") {
        tier_c(&mut rep, t);
    }
    if want("D") {
        tier_d(&mut rep, t);
    }
    if want("E") {
        tier_e(&mut rep, t);
    }
    if want("large") {
        tier_large(&mut rep, t);
    }
    rep.finish(args)
}

fn main() {
    jbkmc::install_quiet_panic_hook();
    let args = Args::parse();
    match args.sub.as_str() {
        "c02" => c02(&args),
        other => {
            eprintln!("unknown subcommand {other}");
            std::process::exit(2)
        }
    }
}
