//! corpusmc — container generator and library-side dumper for C14 (the independent decoder
//! indep/jbkdecode.py is the other side).
//!   corpusmc gen  --dir D --set quick|thorough|corpus   write containers + model.json + lib.json
//!   corpusmc dump <dir of one container>                 re-dump with the current reader -> stdout

use jbkmc::dirmodel::*;
use jbkmc::dump::*;
use jbkmc::gen::*;
use jbkmc::packs::*;
use jbkmc::Args;
use rayon::prelude::*;
use serde_json::{json, Value as J};
use std::path::{Path, PathBuf};

struct Job {
    name: String,
    logical: Logical,
    comp: Comp,
    packaging: Packaging,
    concat: bool,
}

fn item(len: usize, entropy: Entropy, hint: Hint, tag: u64) -> Item {
    Item { len, entropy, hint, src: Src::Memory, tag }
}

fn dir_only(name: &str, dir: DirSpec) -> Logical {
    Logical { name: name.into(), contents: vec![item(10, Entropy::Low, Hint::Detect, 1)], extra_packs: vec![], dir }
}

fn one_col(p: PropSpec, stores: Vec<StoreKind>, vals: Vec<Val>) -> DirSpec {
    let n = vals.len() as u32;
    DirSpec {
        schema: SchemaSpec { stores, common: vec![p], variants: vec![], sort: None },
        entries: vals.into_iter().map(|v| EntrySpec { variant: None, vals: vec![v] }).collect(),
        indexes: vec![IndexSpec { name: "all".into(), offset: 0, count: n }],
    }
}

/// Every property kind, defaults, variants with padding, plain+indexed stores, two indexes,
/// values that every version of the writer stores unaltered (signed values inside the width of
/// the column's maximum).
fn kinds_logical() -> Logical {
    let n = 12;
    let entries: Vec<EntrySpec> = (0..n)
        .map(|i| {
            let v = i % 3;
            let mut vals = vec![
                Val::A(format!("key-{:02}", (i * 5) % n).into_bytes()),
                Val::U([0u64, 255, 256, 65_535, 65_536, 1 << 24, u32::MAX as u64, 1 << 40][i % 8]),
                Val::S([0i64, 1, -1, 100, -100, 127, -128, 90][i % 8]),
                Val::U(7), // constant column -> default
                Val::C((i % 2) as u16, (i * 300) as u32),
            ];
            match v {
                0 => {
                    vals.push(Val::A(format!("indexed-{}", i % 4).into_bytes()));
                    vals.push(Val::S(1000 + i as i64));
                }
                1 => vals.push(Val::A(vec![b'z'; 40 + i])),
                _ => {}
            }
            EntrySpec { variant: Some(v), vals }
        })
        .collect();
    Logical {
        name: "kinds".into(),
        contents: vec![item(3000, Entropy::Low, Hint::Yes, 1), item(300, Entropy::High, Hint::No, 2), item(0, Entropy::Low, Hint::Detect, 3), item(70_000, Entropy::Low, Hint::Yes, 4)],
        extra_packs: vec![vec![item(500, Entropy::Low, Hint::Detect, 5)]],
        dir: DirSpec {
            schema: SchemaSpec {
                stores: vec![StoreKind::Plain, StoreKind::Indexed],
                common: vec![PropSpec::A { prefix: 3, store: 0 }, PropSpec::U, PropSpec::S, PropSpec::U, PropSpec::C],
                variants: vec![vec![PropSpec::A { prefix: 0, store: 1 }, PropSpec::S], vec![PropSpec::A { prefix: 31, store: 0 }], vec![]],
                sort: None,
            },
            entries,
            indexes: vec![IndexSpec { name: "all".into(), offset: 0, count: n as u32 }, IndexSpec { name: "tail".into(), offset: 7, count: 5 }],
        },
    }
}

fn jobs(set: &str) -> Vec<Job> {
    let mut v = vec![];
    let comps = [("none", Comp::None), ("zstd", Comp::Zstd(5)), ("lz4", Comp::Lz4(3)), ("lzma", Comp::Lzma(1))];
    let packs = [("one", Packaging::OneFile, false), ("two", Packaging::TwoFiles, false), ("sep", Packaging::NoConcat, false), ("cat", Packaging::NoConcat, true)];
    if set == "corpus" {
        for (cn, c) in &comps {
            for (pn, p, cat) in &packs {
                v.push(Job { name: format!("kinds-{cn}-{pn}"), logical: kinds_logical(), comp: *c, packaging: *p, concat: *cat });
            }
        }
        for (cn, c) in &comps {
            v.push(Job { name: format!("small-{cn}-one"), logical: shape("small"), comp: *c, packaging: Packaging::OneFile, concat: false });
        }
        return v;
    }
    let thorough = set == "thorough";
    // packaging family (as C10)
    for shape_name in ["small", "multi", "multi2"] {
        for (cn, c) in &comps {
            for (pn, p, cat) in &packs {
                if !thorough && shape_name == "multi2" && *cn != "zstd" {
                    continue;
                }
                v.push(Job { name: format!("{shape_name}-{cn}-{pn}"), logical: shape(shape_name), comp: *c, packaging: *p, concat: *cat });
            }
        }
    }
    for (cn, c) in &comps {
        v.push(Job { name: format!("kinds-{cn}-one"), logical: kinds_logical(), comp: *c, packaging: Packaging::OneFile, concat: false });
    }
    // contents handed over as files and as windows of files
    for (cn, c) in &comps {
        let mut l = shape("small");
        l.name = "filesrc".into();
        l.contents = vec![];
        for (k, (src, hint)) in [(Src::FileRange, Hint::Yes), (Src::FileRange, Hint::No), (Src::FileWhole, Hint::Yes), (Src::FileWhole, Hint::No)].into_iter().enumerate() {
            l.contents.push(Item { len: 1500 + k, entropy: Entropy::Low, hint, src, tag: 60 + k as u64 });
        }
        for e in l.dir.entries.iter_mut() {
            let last = e.vals.len() - 1;
            e.vals[last] = Val::C(1, 0);
        }
        v.push(Job { name: format!("filesrc-{cn}-one"), logical: l, comp: *c, packaging: Packaging::OneFile, concat: false });
    }
    // more than 256 / 1024 blobs in one cluster (blob index above one byte, info table above 4 KiB),
    // raw and compressed
    for (cn, c) in &comps {
        if !thorough && (*cn == "lzma" || *cn == "lz4") {
            continue;
        }
        v.push(Job { name: format!("many-{cn}-one"), logical: shape("many"), comp: *c, packaging: Packaging::OneFile, concat: false });
        if *cn != "none" {
            let mut l = shape("many");
            l.name = "manyc".into();
            l.contents.truncate(600);
            for it in l.contents.iter_mut() {
                it.hint = Hint::Yes;
            }
            v.push(Job { name: format!("manyc-{cn}-one"), logical: l, comp: *c, packaging: Packaging::OneFile, concat: false });
        }
    }
    // content family (as C01/C16): short insertion sequences x compression
    let lens: &[usize] = if thorough { &[0, 1, 255, 256, 65_535, 65_536] } else { &[0, 1, 256, 65_536] };
    let mut syms = vec![];
    for &l in lens {
        for e in [Entropy::Low, Entropy::High] {
            for h in [Hint::Yes, Hint::No] {
                syms.push(item(l, e, h, 1));
            }
        }
    }
    for (cn, c) in &comps {
        for (i, a) in syms.iter().enumerate() {
            let second: Vec<Option<&Item>> = if thorough { std::iter::once(None).chain(syms.iter().map(Some)).collect() } else { vec![None, Some(&syms[(i * 3 + 1) % syms.len()])] };
            for (k, b) in second.iter().enumerate() {
                let mut contents = vec![a.clone()];
                if let Some(b) = b {
                    let mut b = (*b).clone();
                    b.tag = 2;
                    contents.push(b);
                }
                let n = contents.len() as u32;
                let dir = one_col(PropSpec::C, vec![], (0..n).map(|x| Val::C(1, x)).collect());
                v.push(Job { name: format!("seq-{cn}-{i}-{k}"), logical: Logical { name: "seq".into(), contents, extra_packs: vec![], dir }, comp: *c, packaging: Packaging::OneFile, concat: false });
            }
        }
    }
    // schema family (as C02): one column multisets, pairs of kinds, variants
    let ua = [0u64, 255, 256, 65_536, (1 << 24) - 1, 1 << 32, u64::MAX];
    let sa = [0i64, -1, 127, 128, -128, -129, 32_768, -32_769, i64::MAX, i64::MIN];
    let mut dirs: Vec<DirSpec> = vec![];
    let k = if thorough { 3 } else { 2 };
    for m in multisets(ua.len(), k) {
        dirs.push(one_col(PropSpec::U, vec![], m.iter().map(|&i| Val::U(ua[i])).collect()));
    }
    for m in multisets(sa.len(), k) {
        dirs.push(one_col(PropSpec::S, vec![], m.iter().map(|&i| Val::S(sa[i])).collect()));
    }
    for prefix in [0usize, 1, 3, 31] {
        for store in [StoreKind::Plain, StoreKind::Indexed] {
            let alpha: Vec<Vec<u8>> = vec![vec![], vec![0], b"a".to_vec(), vec![0xff; prefix + 1], vec![b'q'; 300], b"ab\0".to_vec(), vec![b'r'; 255], (0..256u32).map(|i| i as u8).collect(), (0..257u32).map(|i| (i * 7) as u8).collect(), (0..65_536u32).map(|i| (i * 13) as u8).collect()];
            for m in multisets(alpha.len(), 2) {
                dirs.push(one_col(PropSpec::A { prefix, store: 0 }, vec![store], m.iter().map(|&i| Val::A(alpha[i].clone())).collect()));
            }
        }
    }
    // the same value three times and more in one store
    for prefix in [0usize, 3] {
        for store in [StoreKind::Plain, StoreKind::Indexed] {
            for pat in ["VVV", "VWVVV", "WVVVWW"] {
                let vals = pat.chars().map(|ch| Val::A(if ch == 'V' { b"value-v".to_vec() } else { b"other-w!".to_vec() })).collect();
                dirs.push(one_col(PropSpec::A { prefix, store: 0 }, vec![store], vals));
            }
        }
    }
    for p in [0u16, 255, 256] {
        for c in [0u32, 255, 65_536, u32::MAX] {
            dirs.push(one_col(PropSpec::C, vec![], vec![Val::C(p, c), Val::C(0, 1)]));
        }
    }
    // every entry in the same pack (the pack id becomes the column's default, 1 or 2 bytes wide),
    // and every entry at the same address (the whole address is a default)
    for p in [0u16, 1, 255, 256, 65_535] {
        for (c0, c1) in [(0u32, 1u32), (255, 256), (7, 7), (65_536, u32::MAX)] {
            dirs.push(one_col(PropSpec::C, vec![], vec![Val::C(p, c0), Val::C(p, c1)]));
        }
    }
    // variants: zero-width, empty, 33-byte padding
    let vmenu: Vec<Vec<(PropSpec, bool)>> = vec![vec![], vec![(PropSpec::U, true)], vec![(PropSpec::U, false)], vec![(PropSpec::U, true), (PropSpec::U, false)], vec![(PropSpec::A { prefix: 31, store: 0 }, true)], vec![(PropSpec::S, true), (PropSpec::C, true)]];
    for a in 0..vmenu.len() {
        for b in 0..vmenu.len() {
            if !thorough && (a + b) % 2 == 1 {
                continue;
            }
            let mut entries = vec![];
            for (vi, m) in [a, b].iter().enumerate() {
                for row in 0..2 {
                    let mut vals = vec![Val::U(row as u64 * 300 + vi as u64)];
                    for (p, varying) in &vmenu[*m] {
                        let r = if *varying { row } else { 0 };
                        vals.push(match p {
                            PropSpec::U => Val::U(5 + 1000 * r as u64),
                            PropSpec::S => Val::S(-5 - 200 * r as i64),
                            PropSpec::C => Val::C(r as u16, 7 + r as u32),
                            PropSpec::A { .. } => Val::A(vec![b'p' + r as u8; 35 + r]),
                        });
                    }
                    entries.push(EntrySpec { variant: Some(vi), vals });
                }
            }
            let n = entries.len() as u32;
            dirs.push(DirSpec {
                schema: SchemaSpec { stores: vec![StoreKind::Plain], common: vec![PropSpec::U], variants: vec![vmenu[a].iter().map(|x| x.0.clone()).collect(), vmenu[b].iter().map(|x| x.0.clone()).collect()], sort: None },
                entries,
                indexes: vec![IndexSpec { name: "all".into(), offset: 0, count: n }, IndexSpec { name: "win".into(), offset: 1, count: 2 }],
            });
        }
    }
    // sorted stores: keys tying on the inline prefix (the sort resolves value handles early)
    let keysets: Vec<Vec<&[u8]>> = vec![
        vec![b"alpha", b"alpine", b"al", b"beta"],
        vec![b"", b"\0", b"a", b"a\0"],
        vec![b"zz", b"zy", b"zx", b"z"],
        vec![b"same-prefix-3", b"same-prefix-1", b"same-prefix-2"],
    ];
    for ks in &keysets {
        for prefix in [0usize, 1, 2] {
            for store in [StoreKind::Plain, StoreKind::Indexed] {
                for rev in [false, true] {
                    let mut keys: Vec<Vec<u8>> = ks.iter().map(|k| k.to_vec()).collect();
                    if rev {
                        keys.reverse();
                    }
                    // the model lists entries in final (sorted) order
                    let mut sorted = keys.clone();
                    sorted.sort();
                    let n = sorted.len() as u32;
                    let mut d = DirSpec {
                        schema: SchemaSpec { stores: vec![store], common: vec![PropSpec::A { prefix, store: 0 }, PropSpec::U], variants: vec![], sort: Some(vec![0]) },
                        entries: sorted.iter().map(|k| EntrySpec { variant: None, vals: vec![Val::A(k.clone()), Val::U(k.len() as u64 * 300)] }).collect(),
                        indexes: vec![IndexSpec { name: "all".into(), offset: 0, count: n }],
                    };
                    if rev {
                        // insertion order differs from the final order: the creator sorts
                        d.entries.reverse();
                    }
                    dirs.push(d);
                }
            }
        }
    }
    for (i, d) in dirs.into_iter().enumerate() {
        v.push(Job { name: format!("schema-{i}"), logical: dir_only("schema", d), comp: Comp::None, packaging: Packaging::OneFile, concat: false });
    }
    v
}

fn run_job(j: &Job, base: &Path) -> Result<(), String> {
    let d = base.join(&j.name);
    std::fs::create_dir_all(&d).map_err(|e| e.to_string())?;
    let c = create_logical(&j.logical, j.comp, j.packaging, &d, "c")?;
    let mut entry = c.path.clone();
    if j.concat {
        let outp = d.join("cat.jbk");
        let up = camino::Utf8PathBuf::from_path_buf(outp.clone()).unwrap();
        jubako::tools::concat(&c.files, &up).map_err(|e| format!("concat: {e}"))?;
        for f in &c.files {
            let _ = std::fs::remove_file(f);
        }
        entry = outp;
    }
    let opts = opts_for(&j.logical);
    let lib = jbkmc::catch(|| dump_container(&entry, &opts)).map_err(|p| format!("library dump panic {p}"))?;
    let meta = json!({
        "name": j.name,
        "entry": entry.file_name().unwrap().to_string_lossy(),
        "index_names": opts.index_names,
        "pack_ids": opts.pack_ids,
        "model": model_dump(&j.logical),
        "lib": lib,
    });
    std::fs::write(d.join("meta.json"), serde_json::to_string(&meta).unwrap()).map_err(|e| e.to_string())?;
    Ok(())
}

fn main() {
    jbkmc::install_quiet_panic_hook();
    let args = Args::parse();
    match args.sub.as_str() {
        "gen" => {
            let dir = PathBuf::from(args.opt("--dir").expect("--dir"));
            let set = args.opt("--set").unwrap_or_else(|| "quick".into());
            let js = jobs(&set);
            let errs: Vec<String> = js.par_iter().filter_map(|j| run_job(j, &dir).err().map(|e| format!("{}: {e}", j.name))).collect();
            let names: Vec<&String> = js.iter().map(|j| &j.name).collect();
            std::fs::write(dir.join("index.json"), serde_json::to_string(&json!({"containers": names, "errors": errs})).unwrap()).unwrap();
            println!("{} containers, {} creation errors", js.len(), errs.len());
            for e in errs.iter().take(5) {
                println!("  {e}");
            }
        }
        "genpack" => {
            // a small content pack for the loom container engine (C07 engine B): clusters of 2 blobs
            // (override), compressed / raw / compressed, 6-byte contents
            let out = PathBuf::from(args.opt("--file").expect("--file"));
            jubako::verif::set_max_blobs_per_cluster(2);
            let up = camino::Utf8PathBuf::from_path_buf(out.clone()).unwrap();
            let mut c = jubako::creator::ContentPackCreator::new(&up, jubako::PackId::from(1), jubako::VendorId::from(VENDOR), Default::default(), Comp::Lz4(1).to_jbk()).expect("creator");
            for i in 0..6u8 {
                let hint = if (2..4).contains(&i) { jubako::creator::CompHint::No } else { jubako::creator::CompHint::Yes };
                let bytes: Vec<u8> = (0..6).map(|k| b'A' + i * 4 + k % 4).collect();
                c.add_content(Box::new(std::io::Cursor::new(bytes)), hint).expect("add");
            }
            c.finalize().expect("finalize");
            println!("written {}", out.display());
        }
        "gentop" => {
            // a small multi-pack container for the loom top-level engine (C07 engine B2): NoConcat
            // (manifest, directory and 3 content packs in 5 files), with the contents it must yield
            let dir = PathBuf::from(args.opt("--dir").expect("--dir"));
            std::fs::create_dir_all(&dir).unwrap();
            let comp = Comp::parse(&args.opt("--comp").unwrap_or_else(|| "None".into()));
            let l = shape("tiny3");
            let c = create_logical(&l, comp, Packaging::NoConcat, &dir, "c").expect("create");
            let mut contents = vec![];
            let mut all: Vec<(u16, &Vec<Item>)> = vec![(1, &l.contents)];
            for (k, e) in l.extra_packs.iter().enumerate() {
                all.push(((k + 2) as u16, e));
            }
            for (p, items) in all {
                for (i, it) in items.iter().enumerate() {
                    contents.push(json!({"pack": p, "idx": i, "hex": jbkmc::hex(&it.bytes()), "compressed": it.hint == Hint::Yes && comp != Comp::None}));
                }
            }
            let idx = &l.dir.indexes[0];
            let expect = json!({"entry": c.path.file_name().unwrap().to_string_lossy(), "contents": contents,
                "index": idx.name, "index_count": idx.count,
                "files": c.files.iter().map(|f| f.file_name().unwrap().to_string_lossy().to_string()).collect::<Vec<_>>()});
            std::fs::write(dir.join("expect.json"), expect.to_string()).unwrap();
            println!("written {}", dir.display());
        }
        "dump" => {
            // re-dump one container directory with the current reader
            let d = PathBuf::from(&args.rest[0]);
            let meta: J = serde_json::from_str(&std::fs::read_to_string(d.join("meta.json")).expect("meta.json")).unwrap();
            let opts = DumpOpts {
                index_names: meta["index_names"].as_array().unwrap().iter().map(|x| x.as_str().unwrap().to_string()).collect(),
                pack_ids: meta["pack_ids"].as_array().unwrap().iter().map(|x| x.as_u64().unwrap() as u16).collect(),
                with_manifest: false,
            };
            let entry = d.join(meta["entry"].as_str().unwrap());
            let dump = jbkmc::catch(|| dump_container(&entry, &opts)).unwrap_or_else(|p| json!({"open": {"err": format!("panic {p}")}}));
            println!("{dump}");
        }
        other => {
            eprintln!("unknown subcommand {other}");
            std::process::exit(2)
        }
    }
}
