//! stressmc — C07 engine C (NOT exhaustive: free-running threads on the real rayon pool, labelled
//! sampling in the evidence). 64 reader threads over one opened pack of 100 clusters (more clusters
//! than the 40 cache slots, more simultaneously decoding clusters than the 8 pool threads): same
//! content, different contents, whole and partial ranges, streams and slices. It exercises what the
//! loom engine does not carry: the cluster cache (Mutex<LruCache>), the RwLock raw->plain switch,
//! eviction while a decoder still runs, the shared BufReader of the FileSource.

use jbkmc::packs::*;
use jbkmc::{Args, Report};
use jubako as jbk;
use serde_json::json;
use std::io::Read;
use std::sync::atomic::{AtomicU64, Ordering};
use std::sync::Arc;

const BLOB: usize = 30;

fn blob(i: u32) -> [u8; BLOB] {
    let mut b = [0u8; BLOB];
    let mut x = (i as u64).wrapping_mul(0x9E3779B97F4A7C15) | 1;
    for (k, v) in b.iter_mut().enumerate() {
        // low entropy (compressible) but position dependent
        x ^= x << 13;
        x ^= x >> 7;
        x ^= x << 17;
        *v = if k < 4 { (i >> (8 * k)) as u8 } else { b'a' + (x % 5) as u8 };
    }
    b
}

const BIG: usize = 6 * 1024 * 1024 + 123;
fn big_content() -> Vec<u8> {
    jbkmc::gen::payload(BIG, jbkmc::gen::Entropy::Low, 77)
}

fn main() {
    jbkmc::install_quiet_panic_hook();
    let args = Args::parse();
    // the readers run in a child process: a memory error under concurrent reads kills the process,
    // and that is a finding to report, not a reason to end without a verdict
    if !args.flag("--child") {
        let exe = std::env::current_exe().expect("current exe");
        let mut cmd = std::process::Command::new(exe);
        cmd.args(std::env::args().skip(1)).arg("--child");
        let status = cmd.status().expect("spawn the reader process");
        if let Some(code) = status.code() {
            if code == 0 || code == 1 || code == 2 {
                std::process::exit(code);
            }
        }
        let mut rep = Report::new("stressmc", "C07", "the reader process died; see the violation");
        rep.exhaustive = false;
        rep.case(Some("reader process"), "dies");
        rep.violation(
            "C07 the process dies while 64 threads read one pack (free-running stress)",
            &format!("the reader process ended with {status:?} instead of a verdict (abort or signal: a memory error or a panic while panicking)"),
            json!({"engine": "stressmc", "note": "not replayable: free-running schedule"}),
        );
        rep.finish(&args);
    }
    let mut rep = Report::new(
        "stressmc",
        "C07",
        "SAMPLING (not exhaustive): 64 free-running reader threads x 400 seeded reads each over a pack of 60 compressed (zstd) + 40 raw clusters of 4095 30-byte blobs, plus one zero-length content alone in its cluster and one compressible content of 6 MiB, 2 rounds on freshly opened packs; then one deterministic configuration: 20 compressed clusters of 2.5 MiB (more clusters decoding at once than the decompression pool has threads), one reader per cluster reading the head, then all together a window in the middle, then the whole; reads = whole stream (also after a first short read) / get_slice / stream of a cut / slice and stream of a cut of a cut; every read is compared with the stored bytes; a 60 s watchdog reports a reader that never returns; a case = one read, non-trivial = a read (all are)",
    );
    rep.exhaustive = false;
    rep.caps.push("free-running threads: schedules are sampled, not enumerated (the deciding engine for the publication protocol is loommc)".into());
    let dir = jbkmc::scratch_dir("stress");
    let path = dir.path().join("big.jbkc");
    let up = camino::Utf8PathBuf::from_path_buf(path.clone()).unwrap();
    let n_comp = if args.thorough() { 120 } else { 60 };
    let n_raw = 40;
    let created = jbkmc::catch(|| -> Result<u32, String> {
        let mut c = jbk::creator::ContentPackCreator::new(&up, jbk::PackId::from(1), jbk::VendorId::from(VENDOR), Default::default(), Comp::Zstd(1).to_jbk()).map_err(|e| e.to_string())?;
        let mut i = 0u32;
        for cl in 0..(n_comp + n_raw) {
            let hint = if cl % 5 < 3 || cl >= 100 { jbk::creator::CompHint::Yes } else { jbk::creator::CompHint::No };
            for _ in 0..MAX_BLOBS {
                let h = match hint {
                    jbk::creator::CompHint::Yes => jbk::creator::CompHint::Yes,
                    _ => jbk::creator::CompHint::No,
                };
                c.add_content(Box::new(std::io::Cursor::new(blob(i).to_vec())), h).map_err(|e| e.to_string())?;
                i += 1;
            }
        }
        // one zero-length content at the very end (alone in the last cluster), then one compressible
        // content of 6 MiB (a cluster whose decoded size is above the 4 MiB a cluster normally holds)
        c.add_content(Box::new(std::io::Cursor::new(vec![])), jbk::creator::CompHint::Yes).map_err(|e| e.to_string())?;
        c.add_content(Box::new(std::io::Cursor::new(big_content())), jbk::creator::CompHint::Yes).map_err(|e| e.to_string())?;
        c.finalize().map_err(|e| e.to_string())?;
        Ok(i)
    });
    let total = match created {
        Ok(Ok(n)) => n,
        other => {
            rep.machinery_errors.push(format!("cannot create the pack: {other:?}"));
            rep.finish(&args);
        }
    };
    let reads = Arc::new(AtomicU64::new(0));
    let big = Arc::new(big_content());
    let case0 = json!({"engine": "stressmc", "note": "not replayable: free-running schedule"});
    jbkmc::watchdog::start("stressmc", "C07", "C07 a concurrent reader never returns (free-running stress)", std::time::Duration::from_secs(60), args.out.clone(), |c| c);
    let mut failures: Vec<String> = vec![];
    for round in 0..2 {
        let pack = match jbk::FileSource::open(&path).map_err(|e| e.to_string()).and_then(|f| jbk::reader::ContentPack::new(jbk::Reader::from(f)).map_err(|e| e.to_string())) {
            Ok(p) => Arc::new(p),
            Err(e) => {
                rep.machinery_errors.push(format!("cannot open the pack: {e}"));
                break;
            }
        };
        let _g = jbkmc::watchdog::guard(|| json!({"engine":"stressmc","round":round}).to_string());
        let mut hs = vec![];
        for t in 0..64u64 {
            let pack = pack.clone();
            let reads = reads.clone();
            let big = big.clone();
            hs.push(std::thread::spawn(move || -> Result<(), String> {
                let mut x = (t + 1).wrapping_mul(0x2545F4914F6CDD1D) ^ (round as u64) << 40;
                for k in 0..400 {
                    x ^= x << 13;
                    x ^= x >> 7;
                    x ^= x << 17;
                    // half of the threads hammer the same few clusters, the others roam
                    let idx = if t % 2 == 0 { ((x % 3) * 4095 * 7 + (x >> 20) % 4095) as u32 % total } else { (x % total as u64) as u32 };
                    if k % 100 == 37 {
                        // the 6 MiB content: its head, its tail and a window across the 4 MiB mark
                        let r = pack.get_content(jbk::ContentIdx::from(total + 1)).map_err(|e| format!("big content: {e}"))?.ok_or_else(|| "big content: none".to_string())?;
                        if r.size().into_u64() != BIG as u64 {
                            return Err(format!("big content: size {}", r.size().into_u64()));
                        }
                        for (o, n) in [(0usize, 64usize), (4 * 1024 * 1024 - 32, 64), (BIG - 64, 64)] {
                            let sl = r.get_slice(jbk::Offset::new(o as u64), n).map_err(|e| format!("big content: {e}"))?;
                            if sl[..] != big[o..o + n] {
                                return Err(format!("big content: get_slice({o},{n}) yields other bytes (thread {t})"));
                            }
                        }
                        reads.fetch_add(1, Ordering::Relaxed);
                        continue;
                    }
                    if k % 50 == 49 {
                        // the zero-length content
                        let r = pack.get_content(jbk::ContentIdx::from(total)).map_err(|e| format!("empty content: {e}"))?.ok_or_else(|| "empty content: none".to_string())?;
                        let mut v = vec![];
                        r.stream().read_to_end(&mut v).map_err(|e| format!("empty content: {e}"))?;
                        if r.size().into_u64() != 0 || !v.is_empty() {
                            return Err(format!("the zero-length content reads {} bytes (thread {t})", v.len()));
                        }
                        reads.fetch_add(1, Ordering::Relaxed);
                        continue;
                    }
                    let want = blob(idx);
                    let r = pack.get_content(jbk::ContentIdx::from(idx)).map_err(|e| format!("content {idx}: {e}"))?.ok_or_else(|| format!("content {idx}: none"))?;
                    if r.size().into_u64() != BLOB as u64 {
                        return Err(format!("content {idx}: size {}", r.size().into_u64()));
                    }
                    match k % 4 {
                        3 => {
                            // a cut of a cut, as a slice and as a stream
                            let o = (x >> 33) as usize % BLOB;
                            let l = BLOB - o;
                            let o2 = (x >> 41) as usize % (l + 1);
                            let n2 = (x >> 49) as usize % (l - o2 + 1);
                            let inner = r.cut(jbk::Offset::new(o as u64), jbk::Size::new(l as u64)).cut(jbk::Offset::new(o2 as u64), jbk::Size::new(n2 as u64));
                            let s = inner.get_slice(jbk::Offset::zero(), n2).map_err(|e| format!("content {idx}: {e}"))?;
                            let mut v = vec![];
                            inner.stream().read_to_end(&mut v).map_err(|e| format!("content {idx}: {e}"))?;
                            if s[..] != want[o + o2..o + o2 + n2] || v[..] != want[o + o2..o + o2 + n2] {
                                return Err(format!("content {idx}: cut({o},{l}).cut({o2},{n2}) yields other bytes (thread {t})"));
                            }
                        }
                        0 => {
                            // the whole stream, every other time after a first short read
                            let mut v = vec![];
                            let mut st = r.stream();
                            if k % 8 == 0 {
                                let mut first = [0u8; 3];
                                let n = st.read(&mut first).map_err(|e| format!("content {idx}: {e}"))?;
                                v.extend_from_slice(&first[..n]);
                            }
                            st.read_to_end(&mut v).map_err(|e| format!("content {idx}: {e}"))?;
                            if v != want {
                                return Err(format!("content {idx}: stream yields other bytes (thread {t})"));
                            }
                        }
                        1 => {
                            let o = (x >> 33) as usize % BLOB;
                            let n = (x >> 41) as usize % (BLOB - o + 1);
                            let s = r.get_slice(jbk::Offset::new(o as u64), n).map_err(|e| format!("content {idx}: {e}"))?;
                            if s[..] != want[o..o + n] {
                                return Err(format!("content {idx}: get_slice({o},{n}) yields other bytes (thread {t})"));
                            }
                        }
                        _ => {
                            let o = (x >> 33) as usize % BLOB;
                            let mut s = r.cut(jbk::Offset::new(o as u64), jbk::Size::new((BLOB - o) as u64)).stream();
                            let mut buf = [0u8; 7];
                            let mut got = vec![];
                            loop {
                                let n = s.read(&mut buf).map_err(|e| format!("content {idx}: {e}"))?;
                                if n == 0 {
                                    break;
                                }
                                got.extend_from_slice(&buf[..n]);
                            }
                            if got != want[o..] {
                                return Err(format!("content {idx}: partial stream from {o} yields other bytes (thread {t})"));
                            }
                        }
                    }
                    reads.fetch_add(1, Ordering::Relaxed);
                }
                Ok(())
            }));
        }
        for h in hs {
            match h.join() {
                Ok(Ok(())) => {}
                Ok(Err(e)) => failures.push(e),
                Err(_) => failures.push("a reader thread panicked".into()),
            }
        }
    }
    // ---- more simultaneously decoding clusters than pool threads, partial ranges: 20 compressed
    // clusters of 2.5 MiB each (one content per cluster), one reader per cluster; every reader
    // reads the head, then (all together) a window in the middle, then the tail and the whole.
    // A decoder that parks on its pool thread until "its" reader comes back starves the others.
    {
        const WIDE: usize = 2_621_440 + 77;
        let wide_content = |i: u32| -> Vec<u8> { (0..WIDE).map(|k| ((k / 64) as u32).wrapping_mul(2654435761).wrapping_add(i.wrapping_mul(97)).to_le_bytes()[k % 4] & 0x3f | 0x40).collect() };
        let wpath = dir.path().join("wide.jbkc");
        let wup = camino::Utf8PathBuf::from_path_buf(wpath.clone()).unwrap();
        let nw = 20u32;
        let made = jbkmc::catch(|| -> Result<(), String> {
            let mut c = jbk::creator::ContentPackCreator::new(&wup, jbk::PackId::from(1), jbk::VendorId::from(VENDOR), Default::default(), Comp::Zstd(1).to_jbk()).map_err(|e| e.to_string())?;
            for i in 0..nw {
                c.add_content(Box::new(std::io::Cursor::new(wide_content(i))), jbk::creator::CompHint::Yes).map_err(|e| e.to_string())?;
            }
            c.finalize().map_err(|e| e.to_string())?;
            Ok(())
        });
        if !matches!(made, Ok(Ok(()))) {
            rep.machinery_errors.push(format!("cannot create the pack of wide clusters: {made:?}"));
        } else {
            let pack = jbk::FileSource::open(&wpath).map_err(|e| e.to_string()).and_then(|f| jbk::reader::ContentPack::new(jbk::Reader::from(f)).map_err(|e| e.to_string()));
            match pack {
                Err(e) => rep.machinery_errors.push(format!("cannot open the pack of wide clusters: {e}")),
                Ok(pack) => {
                    let pack = Arc::new(pack);
                    let _g = jbkmc::watchdog::guard(|| json!({"engine":"stressmc","phase":"20 partially read clusters of 2.5 MiB"}).to_string());
                    let barrier = Arc::new(std::sync::Barrier::new(nw as usize));
                    let mut hs = vec![];
                    for i in 0..nw {
                        let (pack, barrier, reads) = (pack.clone(), barrier.clone(), reads.clone());
                        let want = wide_content(i);
                        hs.push(std::thread::spawn(move || -> Result<(), String> {
                            let region = pack.get_content(jbk::ContentIdx::from(i)).map_err(|e| format!("wide content {i}: {e}"))?.ok_or_else(|| format!("wide content {i} missing"))?;
                            let head = region.get_slice(jbk::Offset::zero(), 64).map_err(|e| format!("wide content {i} head: {e}"))?;
                            if head[..] != want[..64] {
                                return Err(format!("wide content {i}: head yields other bytes"));
                            }
                            drop(head);
                            barrier.wait();
                            let mid = 1_300_000usize;
                            let mut buf = vec![0u8; 1000];
                            region.cut(jbk::Offset::new(mid as u64), jbk::Size::new(1000)).stream().read_exact(&mut buf).map_err(|e| format!("wide content {i} middle: {e}"))?;
                            if buf[..] != want[mid..mid + 1000] {
                                return Err(format!("wide content {i}: window in the middle yields other bytes"));
                            }
                            barrier.wait();
                            let mut all = vec![];
                            region.stream().read_to_end(&mut all).map_err(|e| format!("wide content {i} whole: {e}"))?;
                            if all != want {
                                return Err(format!("wide content {i}: whole stream yields other bytes"));
                            }
                            reads.fetch_add(3, Ordering::Relaxed);
                            Ok(())
                        }));
                    }
                    for h in hs {
                        match h.join() {
                            Ok(Ok(())) => {}
                            Ok(Err(e)) => failures.push(e),
                            Err(_) => failures.push("a reader thread panicked".into()),
                        }
                    }
                }
            }
        }
    }
    let n = reads.load(Ordering::Relaxed);
    rep.bulk(n, n);
    rep.outcome("read equals the stored bytes", n);
    rep.sample(json!({"threads": 64, "clusters": n_comp + n_raw, "reads": n}));
    for f in failures.iter().take(3) {
        let class = if f.contains("other bytes") { "a concurrent reader got other bytes than the stored ones" } else { "a concurrent read failed" };
        rep.violation(&format!("C07 {class} (free-running stress)"), f, case0.clone());
    }
    rep.finish(&args)
}
