//! codec — decompression through the codec crates only (no jubako code), for the independent
//! Python decoder: `codec zstd|lz4 <in> <out>`; `codec blake3 <in>` prints the hex digest (used by
//! the decoder's self-test of its own BLAKE3).
use std::io::Read;
fn main() {
    let a: Vec<String> = std::env::args().collect();
    if a.len() < 3 {
        eprintln!("usage: codec zstd|lz4 <in> <out> | codec blake3 <in>");
        std::process::exit(2);
    }
    let data = std::fs::read(&a[2]).expect("input");
    let mut out = Vec::new();
    let r = match a[1].as_str() {
        "zstd" => zstd::Decoder::new(&data[..]).and_then(|mut d| d.read_to_end(&mut out)),
        "lz4" => lz4::Decoder::new(&data[..]).and_then(|mut d| d.read_to_end(&mut out)),
        "blake3" => {
            println!("{}", blake3::hash(&data).to_hex());
            return;
        }
        _ => {
            eprintln!("unknown codec");
            std::process::exit(2)
        }
    };
    if let Err(e) = r {
        eprintln!("{e}");
        std::process::exit(1);
    }
    std::fs::write(&a[3], out).expect("output");
}
