//! pipemc — C08 engine P: an explicit-state model of the cluster pipeline (main -> dispatch queue
//! -> W workers -> fusion queue -> writer, back-pressure at 2W) is explored exhaustively; every
//! distinct arrival order at the writer is then replayed on the unmodified implementation with
//! real threads: the harness's `Progress` callbacks are the gates (a worker blocks in
//! `handle_cluster(idx, true)` until the director releases that cluster). No hook.
//!
//! The number of workers follows `available_parallelism()`, so the parent runs one child per W
//! under `taskset` with W+1 CPUs.

use jbkmc::indep;
use jbkmc::packs::*;
use jbkmc::{Args, Report};
use jubako as jbk;
use serde_json::{json, Value as J};
use std::collections::{BTreeSet, HashMap, HashSet, VecDeque};
use std::sync::{mpsc, Arc, Condvar, Mutex};
use std::time::{Duration, Instant};

const BIG: usize = 3 * 1024 * 1024;

// ------------------------------------------------------------------ insertion programs

#[derive(Clone, Copy, Debug, PartialEq, Eq, Hash)]
enum Op {
    /// one 3 MiB compressible content with hint Yes (two of them do not fit one 4 MiB cluster)
    Comp,
    /// 4095 one-byte contents with hint No (fills a raw cluster to its blob limit)
    RawFill,
    /// one 1-byte raw content
    RawOne,
}

/// One step of the main thread as the model sees it: perform `adds` (the last one hands cluster
/// `send` to the pipeline), or a send made by finalize.
#[derive(Clone, Debug)]
struct MainStep {
    /// indices into the flattened add list to perform ([) range); empty for finalize sends
    adds: std::ops::Range<usize>,
    send: (u32, bool),
    in_finalize: bool,
}

struct Program {
    name: String,
    /// flattened adds: (length, compress?)
    adds: Vec<(usize, bool)>,
    steps: Vec<MainStep>,
    clusters: usize,
}

fn build_program(ops: &[Op]) -> Program {
    let mut adds: Vec<(usize, bool)> = vec![];
    for op in ops {
        match op {
            Op::Comp => adds.push((BIG, true)),
            Op::RawFill => adds.extend(std::iter::repeat((1usize, false)).take(MAX_BLOBS)),
            Op::RawOne => adds.push((1, false)),
        }
    }
    // which add sends which cluster: the abstract creator model of packs.rs
    let mut abs = AbsState::default();
    let mut steps = vec![];
    let mut start = 0;
    for (i, (len, comp)) in adds.iter().enumerate() {
        let before = abs.closed.len();
        abs.add(*len as u64, *comp);
        if abs.closed.len() > before {
            steps.push(MainStep { adds: start..i + 1, send: abs.closed[before], in_finalize: false });
            start = i + 1;
        }
    }
    let tail_adds = start..adds.len();
    let before = abs.closed.len();
    abs.finalize();
    let mut first = true;
    for c in &abs.closed[before..] {
        steps.push(MainStep { adds: if first { tail_adds.clone() } else { 0..0 }, send: *c, in_finalize: true });
        first = false;
    }
    if first && !tail_adds.is_empty() {
        unreachable!("adds after the last send always leave an open cluster");
    }
    Program { name: format!("{ops:?}"), adds, clusters: abs.closed.len(), steps }
}

fn programs(thorough: bool, w: usize) -> Vec<Vec<Op>> {
    let mut v: Vec<Vec<Op>> = vec![];
    let maxk = if thorough { 5 } else { 3 };
    if w <= 3 {
        for k in 2..=maxk {
            // k compressed clusters, 0..2 raw clusters in every position
            let base = vec![Op::Comp; k];
            v.push(base.clone());
            for p in 0..=k {
                let mut a = base.clone();
                a.insert(p, Op::RawFill);
                v.push(a.clone());
                if thorough || k <= 2 {
                    for q in p + 1..=k + 1 {
                        let mut b = a.clone();
                        b.insert(q, Op::RawFill);
                        v.push(b);
                    }
                }
                let mut c = base.clone();
                c.insert(p, Op::RawOne);
                v.push(c);
            }
        }
        // longer than the back-pressure limit (2W): the main thread blocks several times
        v.push(vec![Op::Comp; 2 * w + 2]);
        v.push(vec![Op::Comp; 2 * w + 5]);
    } else {
        v.push(vec![Op::Comp; w + 2]);
        let mut a = vec![Op::Comp; w + 2];
        a.insert(w / 2, Op::RawFill);
        v.push(a);
    }
    v
}

// ------------------------------------------------------------------ the model

#[derive(Clone, Debug, PartialEq, Eq, Hash)]
struct MState {
    pc: usize,
    dispatch: VecDeque<u32>,
    held: BTreeSet<u32>,
    free: usize,
    in_flight: usize,
    arrived: Vec<u32>,
    /// the main thread is inside write_cluster, waiting for the back-pressure condvar
    blocked: bool,
}

#[derive(Clone, Copy, Debug, PartialEq, Eq, Hash, PartialOrd, Ord)]
enum Action {
    Main,
    Complete(u32),
}

fn closure(s: &mut MState, p: &Program, w: usize) {
    loop {
        // a blocked main thread goes on as soon as the counter is below the limit
        if s.blocked && s.in_flight < 2 * w {
            let (id, _) = p.steps[s.pc].send;
            s.in_flight += 1;
            s.dispatch.push_back(id);
            s.pc += 1;
            s.blocked = false;
        }
        if s.free > 0 && !s.dispatch.is_empty() {
            let c = s.dispatch.pop_front().unwrap();
            s.held.insert(c);
            s.free -= 1;
            continue;
        }
        break;
    }
}

fn enabled(s: &MState, p: &Program, w: usize) -> Vec<Action> {
    let mut v = vec![];
    let _ = w;
    if s.pc < p.steps.len() && !s.blocked {
        // always possible: the main thread either sends the cluster or blocks on the back-pressure
        v.push(Action::Main);
    }
    for c in &s.held {
        v.push(Action::Complete(*c));
    }
    v
}

fn apply(s: &MState, a: Action, p: &Program, w: usize) -> MState {
    let mut n = s.clone();
    match a {
        Action::Main => {
            let (id, comp) = p.steps[n.pc].send;
            if comp && n.in_flight >= 2 * w {
                n.blocked = true;
            } else if comp {
                n.in_flight += 1;
                n.dispatch.push_back(id);
                n.pc += 1;
            } else {
                n.arrived.push(id);
                n.pc += 1;
            }
        }
        Action::Complete(c) => {
            n.held.remove(&c);
            n.arrived.push(c);
            n.in_flight -= 1;
            n.free += 1;
        }
    }
    closure(&mut n, p, w);
    n
}

struct Explored {
    states: usize,
    transitions: usize,
    /// arrival order -> one action path producing it
    orders: Vec<(Vec<u32>, Vec<Action>)>,
    problems: Vec<String>,
    /// the state cap was hit: the enumeration of this program is incomplete
    capped: bool,
    total_orders: usize,
}

fn explore(p: &Program, w: usize, cap_orders: Option<usize>, max_states: usize) -> Explored {
    let init = MState { pc: 0, dispatch: VecDeque::new(), held: BTreeSet::new(), free: w, in_flight: 0, arrived: vec![], blocked: false };
    let mut seen: HashSet<MState> = HashSet::new();
    let mut orders: HashMap<Vec<u32>, Vec<Action>> = HashMap::new();
    let mut problems = vec![];
    let mut transitions = 0;
    let mut stack: Vec<(MState, Vec<Action>)> = vec![(init.clone(), vec![])];
    seen.insert(init);
    let mut capped = false;
    while let Some((s, path)) = stack.pop() {
        if seen.len() > max_states {
            capped = true;
            break;
        }
        if s.in_flight > 2 * w || s.in_flight != s.dispatch.len() + s.held.len() {
            problems.push(format!("invariant broken in {s:?}"));
        }
        let acts = enabled(&s, p, w);
        let is_final = s.pc == p.steps.len() && s.held.is_empty() && s.dispatch.is_empty() && !s.blocked;
        if acts.is_empty() {
            if !is_final {
                problems.push(format!("model deadlock in {s:?}"));
            } else {
                let mut sorted = s.arrived.clone();
                sorted.sort();
                if sorted != (0..p.clusters as u32).collect::<Vec<_>>() {
                    problems.push(format!("final state does not hold every cluster once: {:?}", s.arrived));
                }
                orders.entry(s.arrived.clone()).or_insert(path);
            }
            continue;
        }
        // depth-first with Main explored first: the paths kept per arrival order are those where
        // the main thread runs ahead (and so really blocks on the back-pressure when it can)
        for a in acts.into_iter().rev() {
            transitions += 1;
            let n = apply(&s, a, p, w);
            if seen.insert(n.clone()) {
                let mut np = path.clone();
                np.push(a);
                stack.push((n, np));
            }
        }
    }
    let mut orders: Vec<(Vec<u32>, Vec<Action>)> = orders.into_iter().collect();
    orders.sort();
    let total_orders = orders.len();
    if let Some(cap) = cap_orders {
        if orders.len() > cap {
            // identity, reverse-most, rotated: keep a spread
            let n = orders.len();
            let keep: BTreeSet<usize> = [0, n - 1, n / 2, n / 3, 2 * n / 3].into_iter().chain((0..cap).map(|i| i * n / cap)).collect();
            orders = keep.into_iter().map(|i| orders[i].clone()).collect();
        }
    }
    Explored { states: seen.len(), transitions, orders, problems, capped, total_orders }
}

// ------------------------------------------------------------------ the director

#[derive(Default)]
struct GateState {
    picked: BTreeSet<u32>,
    released: BTreeSet<u32>,
    written: Vec<u32>,
    open_all: bool,
}

struct Gates {
    st: Mutex<GateState>,
    cv: Condvar,
}

impl jbk::creator::Progress for Gates {
    fn handle_cluster(&self, idx: u32, compressed: bool) {
        if !compressed {
            return;
        }
        let mut g = self.st.lock().unwrap();
        g.picked.insert(idx);
        self.cv.notify_all();
        while !g.released.contains(&idx) && !g.open_all {
            g = self.cv.wait(g).unwrap();
        }
    }
    fn handle_cluster_written(&self, idx: u32) {
        let mut g = self.st.lock().unwrap();
        g.written.push(idx);
        self.cv.notify_all();
    }
}

impl Gates {
    /// wait until `f` holds; false on timeout
    fn wait(&self, limit: Duration, f: impl Fn(&GateState) -> bool) -> bool {
        let start = Instant::now();
        let mut g = self.st.lock().unwrap();
        while !f(&g) {
            let left = limit.checked_sub(start.elapsed());
            match left {
                None => return false,
                Some(l) => {
                    let (ng, _) = self.cv.wait_timeout(g, l.min(Duration::from_millis(200))).unwrap();
                    g = ng;
                }
            }
        }
        true
    }
}

fn content(i: usize, len: usize) -> Vec<u8> {
    let mut v = vec![0u8; len];
    if len > 0 {
        v[0] = (i % 251) as u8 + 1;
    }
    if len > 8 {
        v[len - 1] = (i % 13) as u8;
        v[len / 2] = 0x5a;
    }
    v
}

enum Cmd {
    Adds(std::ops::Range<usize>),
    Finalize(std::ops::Range<usize>),
}

struct Outcome {
    verdict: Result<(), (String, String)>,
    machinery: Option<String>,
    /// the run was not the trace the model describes (its result is still checked)
    unforced: Option<String>,
}

fn replay(p: &Program, w: usize, order: &[u32], path: &[Action], comp: Comp) -> Outcome {
    let dir = jbkmc::scratch_dir("pipe");
    let file = dir.path().join("p.jbkc");
    let up = camino::Utf8PathBuf::from_path_buf(file.clone()).unwrap();
    let gates = Arc::new(Gates { st: Mutex::new(GateState::default()), cv: Condvar::new() });
    let creator = match jbk::creator::ContentPackCreator::new_with_progress(&up, jbk::PackId::from(1), jbk::VendorId::from(VENDOR), Default::default(), comp.to_jbk(), gates.clone()) {
        Ok(c) => c,
        Err(e) => return Outcome { verdict: Ok(()), machinery: Some(format!("creator: {e}")), unforced: None },
    };
    let (cmd_tx, cmd_rx) = mpsc::channel::<Cmd>();
    let (done_tx, done_rx) = mpsc::channel::<Result<Option<Vec<(u16, u32)>>, String>>();
    let adds = p.adds.clone();
    let src_dir = dir.path().to_path_buf();
    let inserter = std::thread::spawn(move || {
        let mut creator = creator;
        let mut addrs = vec![];
        let mut run = |creator: &mut jbk::creator::ContentPackCreator<_>, r: std::ops::Range<usize>, addrs: &mut Vec<(u16, u32)>| -> Result<(), String> {
            for i in r {
                let (len, c) = adds[i];
                // sources: memory, except the first content of every run of raw contents (a
                // sub-range of a file: the writer thread copies it from the file itself) and the
                // last compressed content (a whole file read by a compression worker)
                let first_of_raw_run = !c && (i == 0 || adds[i - 1].1);
                let last_comp = c && !adds[i + 1..].iter().any(|a| a.1);
                let bytes = content(i, len);
                let reader: Box<dyn jbk::creator::InputReader> = if first_of_raw_run {
                    let p = src_dir.join(format!("in{i}.bin"));
                    let mut all = vec![0xEEu8; 41];
                    all.extend_from_slice(&bytes);
                    all.extend_from_slice(&[0xDD; 7]);
                    std::fs::write(&p, &all).map_err(|e| e.to_string())?;
                    Box::new(jbk::creator::InputFile::new_range(std::fs::File::open(&p).map_err(|e| e.to_string())?, 41, Some(bytes.len() as u64)).map_err(|e| e.to_string())?)
                } else if last_comp {
                    let p = src_dir.join(format!("in{i}.bin"));
                    std::fs::write(&p, &bytes).map_err(|e| e.to_string())?;
                    Box::new(jbk::creator::InputFile::open(&p).map_err(|e| e.to_string())?)
                } else {
                    Box::new(std::io::Cursor::new(bytes))
                };
                let a = creator
                    .add_content(reader, if c { jbk::creator::CompHint::Yes } else { jbk::creator::CompHint::No })
                    .map_err(|e| format!("add_content {i}: {e}"))?;
                addrs.push((a.pack_id.into_u16(), a.content_id.into_u32()));
            }
            Ok(())
        };
        while let Ok(cmd) = cmd_rx.recv() {
            match cmd {
                Cmd::Adds(r) => {
                    let res = run(&mut creator, r, &mut addrs);
                    let _ = done_tx.send(res.map(|_| None));
                }
                Cmd::Finalize(r) => {
                    let res = run(&mut creator, r, &mut addrs).and_then(|_| creator.finalize().map(|_| ()).map_err(|e| format!("finalize: {e}")));
                    let _ = done_tx.send(res.map(|_| Some(addrs)));
                    return;
                }
            }
        }
    });
    let step_limit = Duration::from_secs(20);
    let mut model = MState { pc: 0, dispatch: VecDeque::new(), held: BTreeSet::new(), free: w, in_flight: 0, arrived: vec![], blocked: false };
    let mut finalize_sent = false;
    let mut stuck: Option<String> = None;
    // an add command was issued whose return is expected only after the main thread is unblocked
    let mut awaiting_done = false;
    macro_rules! expect_done {
        ($why:expr) => {
            match done_rx.recv_timeout(step_limit) {
                Ok(Ok(_)) => {}
                Ok(Err(e)) => {
                    stuck = Some(format!("insertion failed: {e}"));
                    break;
                }
                Err(_) => {
                    stuck = Some($why);
                    break;
                }
            }
        };
    }
    for a in path {
        match a {
            Action::Main => {
                let st = &p.steps[model.pc];
                let will_block = st.send.1 && model.in_flight >= 2 * w;
                if !st.in_finalize {
                    cmd_tx.send(Cmd::Adds(st.adds.clone())).unwrap();
                    if will_block {
                        awaiting_done = true;
                    } else {
                        expect_done!(format!("main step {} (adds {:?}) did not return although the counter is below the limit", model.pc, st.adds));
                    }
                } else if !finalize_sent {
                    cmd_tx.send(Cmd::Finalize(st.adds.clone())).unwrap();
                    finalize_sent = true;
                }
                model = apply(&model, *a, p, w);
                let (id, comp) = st.send;
                if !comp {
                    // raw clusters go straight to the writer
                    if !gates.wait(step_limit, |g| g.written.contains(&id)) {
                        stuck = Some(format!("raw cluster {id} was not written"));
                        break;
                    }
                }
            }
            Action::Complete(c) => {
                {
                    let mut g = gates.st.lock().unwrap();
                    g.released.insert(*c);
                    gates.cv.notify_all();
                }
                if !gates.wait(step_limit, |g| g.written.contains(c)) {
                    stuck = Some(format!("cluster {c} was released but never written"));
                    break;
                }
                model = apply(&model, *a, p, w);
                if awaiting_done && !model.blocked {
                    awaiting_done = false;
                    expect_done!(format!("the main thread stays blocked on the back-pressure although the counter went below the limit (after completing cluster {c})"));
                }
            }
        }
        // the workers the model says are holding a cluster must have picked it
        let want = model.held.clone();
        if !gates.wait(step_limit, |g| want.iter().all(|c| g.picked.contains(c))) {
            stuck = Some(format!("the model says clusters {want:?} are being compressed, the implementation did not pick them"));
            break;
        }
    }
    if !finalize_sent && stuck.is_none() {
        // program without pending cluster at finalize (cannot happen: the last open cluster is sent by finalize)
        cmd_tx.send(Cmd::Finalize(0..0)).unwrap();
    }
    // wait for the end of the creation
    let mut result = None;
    let mut unforced: Option<String> = None;
    if stuck.is_none() {
        match done_rx.recv_timeout(step_limit) {
            Ok(r) => result = Some(r),
            Err(_) => stuck = Some("finalize does not return although every cluster was released".into()),
        }
    }
    if let Some(why) = stuck {
        // discriminate a real deadlock from a model mis-prediction: open every gate
        {
            let mut g = gates.st.lock().unwrap();
            g.open_all = true;
            gates.cv.notify_all();
        }
        if !finalize_sent {
            let _ = cmd_tx.send(Cmd::Finalize(p.steps.iter().rev().find(|s| !s.adds.is_empty()).map(|s| s.adds.end..p.adds.len()).unwrap_or(0..0)));
        }
        let finished = loop {
            match done_rx.recv_timeout(Duration::from_secs(30)) {
                Ok(Ok(Some(a))) => break Some(Ok(Some(a))),
                Ok(Ok(None)) => continue,
                Ok(Err(e)) => break Some(Err(e)),
                Err(_) => break None,
            }
        };
        match finished {
            // The pipeline model (written from the pinned code) did not predict this run: the
            // trace is not the forced one, but the creation ended, and what the property asks of
            // its result is still checked below.
            Some(r) => {
                unforced = Some(format!("{why} (creation finished once all gates were opened)"));
                result = Some(r);
            }
            // threads are stuck for good; leak them
            None => return Outcome { verdict: Err(("creation does not terminate".into(), format!("{why}; still stuck 30 s after opening every gate"))), machinery: None, unforced: None },
        }
    }
    let _ = inserter.join();
    let addrs = match result.unwrap() {
        Ok(Some(a)) => a,
        Ok(None) => return Outcome { verdict: Ok(()), machinery: Some("protocol error".into()), unforced: None },
        Err(e) => return Outcome { verdict: Err(("creation failed".into(), e)), machinery: None, unforced },
    };
    // ---- conformance: the arrival order really was the one we forced
    let written = gates.st.lock().unwrap().written.clone();
    if written != order && unforced.is_none() {
        unforced = Some(format!("forced order {order:?} but the writer reports {written:?}"));
    }
    // ---- oracle
    let v = (|| -> Result<(), (String, String)> {
        let bytes = std::fs::read(&file).map_err(|e| ("output unreadable".to_string(), e.to_string()))?;
        let map = indep::content_pack(&bytes, 0).map_err(|e| ("independent decoder rejects the pack".to_string(), e))?;
        let mut by_pos: Vec<(usize, usize)> = map.clusters.iter().map(|c| (c.data_start, c.id)).collect();
        by_pos.sort();
        let file_order: Vec<u32> = by_pos.iter().map(|x| x.1 as u32).collect();
        // where clusters land in the file and how many there are is the implementation's business
        // (the property allows any order): a difference only says that this replay is not the
        // trace the model describes
        if unforced.is_none() && file_order != order {
            unforced = Some(format!("cluster order in the file {file_order:?} differs from the forced arrival order {order:?}"));
        }
        if unforced.is_none() && map.clusters.len() != p.clusters {
            unforced = Some(format!("{} clusters in the file, the model has {}", map.clusters.len(), p.clusters));
        }
        if map.content_count != p.adds.len() {
            return Err(("content count".into(), format!("the pack stores {} contents, {} were inserted", map.content_count, p.adds.len())));
        }
        // C16 on this schedule: the hint decides how the content is stored, whatever the queues
        // looked like when its cluster was closed (read from the bytes by the independent decoder)
        for (i, (_len, c)) in p.adds.iter().enumerate() {
            let Some((cl, _)) = map.contents.get(i).copied() else { break };
            let Some(info) = map.clusters.iter().find(|x| x.id == cl) else { continue };
            if *c && info.compression == 0 {
                return Err(("a content inserted with the hint 'compress' is stored in an uncompressed cluster".into(), format!("content {i}: cluster {cl} has compression byte 0")));
            }
            if !*c && info.compression != 0 {
                return Err(("a content inserted with the hint 'do not compress' is stored in a compressed cluster".into(), format!("content {i}: cluster {cl} has compression byte {}", info.compression)));
            }
        }
        let pack = jbk::reader::ContentPack::new(jbk::Reader::from(jbk::FileSource::open(&file).map_err(|e| ("open".to_string(), e.to_string()))?))
            .map_err(|e| ("created pack does not open".to_string(), e.to_string()))?;
        if pack.get_content_count().into_u32() as usize != p.adds.len() {
            return Err(("content count".into(), format!("{}", pack.get_content_count().into_u32())));
        }
        for (i, (len, _)) in p.adds.iter().enumerate() {
            if addrs[i] != (1, i as u32) {
                return Err(("address returned".into(), format!("add {i} returned {:?}", addrs[i])));
            }
            // reading 4095 one-byte blobs one by one is not the point: sample the raw fills
            if *len == 1 && i % 97 != 0 && i + 1 != p.adds.len() {
                continue;
            }
            let r = pack.get_content(jbk::ContentIdx::from(i as u32)).map_err(|e| ("content unreadable".to_string(), format!("{i}: {e}")))?.ok_or_else(|| ("content missing".to_string(), format!("{i}")))?;
            let got = read_region(&r).map_err(|e| ("content unreadable".to_string(), format!("{i}: {e}")))?;
            if got != content(i, *len) {
                return Err(("an address resolves to other bytes".into(), format!("content {i} ({len} bytes) differs")));
            }
        }
        use jbk::Pack;
        match pack.check() {
            Ok(true) => Ok(()),
            other => Err(("pack does not verify".into(), format!("{:?}", other.map_err(|e| e.to_string())))),
        }
    })();
    Outcome { verdict: v, machinery: None, unforced }
}

fn action_json(a: &Action) -> J {
    match a {
        Action::Main => json!("main"),
        Action::Complete(c) => json!({"complete": c}),
    }
}

fn child(args: &Args) -> ! {
    let w: usize = args.opt("--w").unwrap().parse().unwrap();
    let mut rep = Report::new("pipemc", "C08", "child");
    let avail = std::thread::available_parallelism().map(|x| x.get()).unwrap_or(8);
    let real_w = avail.max(2) - 1;
    if real_w != w {
        rep.machinery_errors.push(format!("asked for {w} workers but available_parallelism gives {real_w}"));
        rep.finish(args);
    }
    let t = args.thorough();
    let comp = Comp::Zstd(1);
    let only: Option<J> = args.replay.as_ref().map(|p| {
        let j: J = serde_json::from_str(&std::fs::read_to_string(p).expect("replay")).unwrap();
        if j.get("case").is_some() { j["case"].clone() } else { j }
    });
    let mut unforced_n = 0u64;
    for ops in programs(t, w) {
        let p = build_program(&ops);
        if let Some(o) = &only {
            if o["program"] != json!(p.name) {
                continue;
            }
        }
        let ex = explore(&p, w, if w > 3 { Some(6) } else if t { Some(400) } else { Some(40) }, 2_000_000);
        if ex.capped {
            rep.cap(&format!("W={w} program {}: the model enumeration stopped at {} states (cap); its invariants and arrival orders are covered for the explored part only", p.name, ex.states));
        }
        if ex.total_orders > ex.orders.len() {
            rep.cap(&format!("W={w} program {}: {} of {} arrival orders replayed (evenly spread selection)", p.name, ex.orders.len(), ex.total_orders));
        }
        rep.states += ex.states as u64;
        rep.transitions += ex.transitions as u64;
        for pr in &ex.problems {
            rep.violation("C08 model invariant", pr, json!({"engine":"pipemc","w":w,"program":p.name}));
        }
        for (order, path) in &ex.orders {
            let case = json!({"engine":"pipemc","w":w,"program":p.name,"order":order,"path":path.iter().map(action_json).collect::<Vec<_>>()});
            if let Some(o) = &only {
                if o["order"] != json!(order) {
                    continue;
                }
            }
            // how often does the main thread block in this trace?
            {
                let mut m = MState { pc: 0, dispatch: VecDeque::new(), held: BTreeSet::new(), free: w, in_flight: 0, arrived: vec![], blocked: false };
                let mut blocks = 0u64;
                for a in path {
                    m = apply(&m, *a, &p, w);
                    if *a == Action::Main && m.blocked {
                        blocks += 1;
                    }
                }
                let old = rep.extra.get("main_thread_blocked_on_back_pressure(times over all replays)").and_then(|x| x.as_u64()).unwrap_or(0);
                rep.extra.insert("main_thread_blocked_on_back_pressure(times over all replays)".into(), json!(old + blocks));
            }
            let out = replay(&p, w, order, path, comp);
            rep.traces_validated += 1;
            let id = case.to_string();
            let identity = order.windows(2).all(|x| x[0] < x[1]);
            if let Some(m) = out.machinery {
                rep.machinery_errors.push(format!("{m} in {case}"));
                rep.case(Some(&id), "machinery");
                continue;
            }
            if let Some(u) = &out.unforced {
                rep.traces_validated -= 1;
                unforced_n += 1;
                if unforced_n == 6 && only.is_none() {
                    // every free run costs the director's time limit: the model plainly does not
                    // describe this implementation, the remaining replays would all be free runs
                    rep.cap(&format!("W={w}: replays stopped after 6 free runs (the result oracles were evaluated on each of them)"));
                    rep.case(Some(&id), "ok(free run: not the modelled trace)");
                    if let Err((k, wt)) = out.verdict {
                        rep.violation(&format!("C08 {k}"), &format!("W={w} program {} order {order:?}: {wt}", p.name), case.clone());
                    }
                    rep.finish(args);
                }
                if unforced_n == 1 {
                    rep.cap(&format!("W={w}: the pipeline model (pinned code: FIFO dispatch, back-pressure at 2W, clusters written in arrival order) does not describe this implementation, e.g. {u} in {case}: such replays are free runs, checked by the result oracles only"));
                }
            }
            match out.verdict {
                Ok(()) if out.unforced.is_some() => rep.case(Some(&id), "ok(free run: not the modelled trace)"),
                Ok(()) => rep.case(if identity { None } else { Some(&id) }, if identity { "ok(in order)" } else { "ok(reordered)" }),
                Err((k, wt)) => {
                    rep.case(Some(&id), "violation");
                    rep.violation(&format!("C08 {k}"), &format!("W={w} program {} order {order:?}: {wt}", p.name), case.clone());
                    if k.contains("terminate") {
                        // every further stuck replay costs the watchdog again (and leaks its threads)
                        rep.cap(&format!("W={w}: replays stopped after the first creation that does not terminate"));
                        rep.finish(args);
                    }
                }
            }
            if rep.samples.len() < 3 && !identity {
                rep.sample(case);
            }
        }
        rep.extra.insert(format!("orders[W={w}][{}]", p.name), json!(ex.orders.len()));
    }
    rep.finish(args)
}

fn main() {
    jbkmc::install_quiet_panic_hook();
    let args = Args::parse();
    if args.flag("--child") {
        child(&args);
    }
    let mut rep = Report::new(
        "pipemc",
        "C08",
        "explicit-state model of the cluster pipeline (main, FIFO dispatch queue, W eager workers, in-flight counter with back-pressure at 2W, FIFO fusion queue, writer): all reachable states are enumerated with their invariants, and every distinct arrival order at the writer (quick: at most 40 per program; thorough: at most 400 per program; W>=4: 6 per program; 2 000 000 model states per program, caps reported) is replayed on the unmodified implementation with real threads, gated through the Progress callbacks; programs: k in 2..3 (quick) / 2..5 (thorough) compressed clusters with 0..2 raw clusters in every position, and 2W+2 clusters (beyond the back-pressure limit); W in {1,2,3} (+ {7,15} thorough); contents come from memory, the first content of every raw run from a sub-range of a file and the last compressed content from a whole file; oracle per replay: terminates, opens, every address resolves to its bytes, counts, check(), cluster order in the file == forced arrival order; non-trivial = an arrival order different from the cluster id order",
    );
    let t = args.thorough();
    let ncpu = std::thread::available_parallelism().map(|x| x.get()).unwrap_or(4);
    let mut ws: Vec<usize> = vec![1, 2, 3];
    if t {
        ws.extend([7, 15]);
    }
    ws.retain(|w| w + 1 <= ncpu);
    if let Some(p) = &args.replay {
        let j: J = serde_json::from_str(&std::fs::read_to_string(p).expect("replay")).unwrap();
        let case = if j.get("case").is_some() { &j["case"] } else { &j };
        ws = vec![case["w"].as_u64().unwrap() as usize];
    }
    let exe = std::env::current_exe().unwrap();
    // children run one after the other on disjoint CPU sets when possible
    let mut handles = vec![];
    let mut next_cpu = 0;
    for w in ws {
        let need = w + 1;
        if next_cpu + need > ncpu {
            // wait for the running ones
            for (h, out) in handles.drain(..) {
                collect(&mut rep, h, out);
            }
            next_cpu = 0;
        }
        let out = format!("{}/jbkmc-pipe-{}-{w}.json", jbkmc::scratch_base(), std::process::id());
        let mut cmd = std::process::Command::new("taskset");
        cmd.arg("-c").arg(format!("{}-{}", next_cpu, next_cpu + need - 1)).arg(&exe).arg("c08").arg("--child").arg("--w").arg(w.to_string()).arg("--tier").arg(&args.tier).arg("--out").arg(&out);
        if let Some(r) = &args.replay {
            cmd.arg("--replay").arg(r);
        }
        cmd.env("JBKMC_EMIT_SETS", "1").stderr(std::process::Stdio::null());
        handles.push((cmd.spawn().expect("spawn child"), out));
        next_cpu += need;
    }
    for (h, out) in handles {
        collect(&mut rep, h, out);
    }
    rep.finish(&args)
}

fn collect(rep: &mut Report, mut h: std::process::Child, out: String) {
    let st = h.wait().expect("wait");
    match std::fs::read_to_string(&out).ok().and_then(|t| serde_json::from_str::<J>(&t).ok()) {
        Some(j) => {
            rep.merge_child(&j);
            rep.states += j["states"].as_u64().unwrap_or(0);
            rep.transitions += j["transitions"].as_u64().unwrap_or(0);
        }
        None => rep.machinery_errors.push(format!("child {out} exited {:?} without a report", st.code())),
    }
    let _ = std::fs::remove_file(&out);
}
