//! locmc — explicit-state BFS over histories of `tools::set_location` (C12). A state is the vector
//! of recorded locations; every transition calls the real `set_location` on a real file and the
//! invariants are evaluated in every state reached.

use jbkmc::dump::*;
use jbkmc::indep;
use jbkmc::packs::*;
use jbkmc::{Args, Report};
use jubako as jbk;
use serde_json::{json, Value as J};
use std::collections::{BTreeMap, VecDeque};
use std::path::{Path, PathBuf};

fn strings() -> Vec<String> {
    vec![
        "".into(),
        "a".into(),
        "d/e.jbkc".into(),
        // the same path written differently (equal as paths, different as strings)
        "d//e.jbkc".into(),
        "d/./e.jbkc".into(),
        "d/e.jbkc/".into(),
        // a control character at the end (valid UTF-8, 8 bytes)
        "c1.jbkc\0".into(),
        "x".repeat(213),
        "é".repeat(106),                 // 212 bytes
        format!("{}a", "é".repeat(106)), // 213 bytes
        "€".repeat(71),                  // 213 bytes
        // a relative path with colons in it (not a URL: the format knows no scheme)
        "2024-05-17T10:30:00/c.jbkc".into(),
    ]
}

struct PackSlot {
    uuid: uuid::Uuid,
    /// absolute offset of this pack's 256-byte pack-info block in the file
    info_offset: usize,
    kind: String,
}

struct Initial {
    name: String,
    /// the file set_location works on (manifest or container)
    bytes: Vec<u8>,
    file_name: String,
    slots: Vec<PackSlot>,
    locations: Vec<String>,
    /// full container semantics available (packs inside the file)?
    logical: Option<Logical>,
    /// the library's view of the manifest in the initial state, locations blanked: nothing of it
    /// may change along any history
    base: J,
    /// restricted event alphabet (pack slots, string indices) for initial states with many packs
    events: Option<(Vec<usize>, Vec<usize>)>,
    /// the pack files of a container stored as several files: put beside the manifest, so that the
    /// container can be opened from it and asked for every pack after every rewrite
    companions: Vec<PathBuf>,
}

fn blank_locations(mut m: J) -> J {
    if let Some(d) = m.get_mut("directory") {
        d["location"] = json!(null);
    }
    if let Some(ps) = m.get_mut("packs").and_then(|p| p.as_array_mut()) {
        for p in ps {
            p["location"] = json!(null);
        }
    }
    m
}

fn base_dump(dir: &Path, name: &str, bytes: &[u8]) -> J {
    let p = dir.join(format!("base-{name}"));
    std::fs::write(&p, bytes).unwrap();
    let m = jbkmc::catch(|| dump_manifest(&p)).unwrap_or_else(|e| json!({"panic": e}));
    let _ = std::fs::remove_file(&p);
    blank_locations(m)
}

fn put_crc(buf: &mut [u8], start: usize, payload: usize) {
    let c = indep::crc32c_jbk(&buf[start..start + payload]);
    buf[start + payload..start + payload + 4].copy_from_slice(&c.to_be_bytes());
}

/// Set the group byte of pack-info `which` (not reachable through the creator API, which always
/// writes 0) and make the file valid again: block CRC and the manifest's masked blake3.
fn patch_group(bytes: &mut Vec<u8>, slots: &[PackSlot], which: usize, group: u8) -> Result<(), String> {
    let at = slots[which].info_offset;
    bytes[at + 35] = group;
    put_crc(bytes, at, 252);
    let packs = indep::packs_in_file(bytes)?;
    let m = packs.iter().find(|p| p.head.kind == b'm').ok_or("no manifest in the file")?;
    let off = m.offset;
    let cip = off + m.head.check_info_pos as usize;
    if bytes[cip] != 1 {
        return Err("manifest check kind is not blake3".into());
    }
    let mut data = bytes[off..cip].to_vec();
    for s in slots {
        for b in &mut data[s.info_offset - off + 38..s.info_offset - off + 256] {
            *b = 0;
        }
    }
    let h = blake3::hash(&data);
    bytes[cip + 1..cip + 33].copy_from_slice(h.as_bytes());
    put_crc(bytes, cip, 33);
    Ok(())
}

/// A standalone manifest listing `count` content packs (descriptions copied from one real pack,
/// fresh uuids): a pack-info table of `count + 1` blocks of 256 bytes.
fn many_packs(dir: &Path, count: u16) -> Result<PathBuf, String> {
    use jbk::creator;
    std::fs::create_dir_all(dir).unwrap();
    let vendor = jbk::VendorId::from(VENDOR);
    let mut m = creator::ManifestPackCreator::new(vendor, Default::default());
    let dc = creator::DirectoryPackCreator::new(jbk::PackId::from(0), vendor, Default::default());
    let mut f = std::fs::OpenOptions::new().read(true).write(true).create(true).truncate(true).open(dir.join("d.jbkd")).map_err(|e| e.to_string())?;
    let d = dc.finalize().map_err(|e| e.to_string())?.write(&mut f).map_err(|e| e.to_string())?;
    m.add_pack(d, "d.jbkd");
    let up = camino::Utf8PathBuf::from_path_buf(dir.join("c.jbkc")).unwrap();
    let mut c = creator::ContentPackCreator::new(&up, jbk::PackId::from(1), vendor, Default::default(), creator::Compression::None).map_err(|e| e.to_string())?;
    c.add_content(Box::new(std::io::Cursor::new(b"hello".to_vec())), Default::default()).map_err(|e| e.to_string())?;
    let (_f, info) = c.finalize().map_err(|e| e.to_string())?;
    for i in 1..=count {
        let pd = creator::PackData {
            uuid: uuid::Uuid::from_u128(0xabcd_0000_0000_0000_0000_0000_0000_0000 + i as u128),
            pack_size: info.pack_size,
            pack_kind: info.pack_kind,
            pack_id: jbk::PackId::from(i),
            free_data: vec![],
            check_info: info.check_info,
        };
        m.add_pack(pd, format!("content_{i}.jbkc"));
    }
    let mpath = dir.join("many.jbkm");
    let mut f = std::fs::OpenOptions::new().read(true).write(true).create(true).truncate(true).open(&mpath).map_err(|e| e.to_string())?;
    m.finalize(&mut f).map_err(|e| e.to_string())?;
    Ok(mpath)
}

/// A manifest (and a container around it) whose packs carry `free_len` bytes of free data each:
/// the pack-info table then starts `3*free_len` bytes into the manifest.
fn big_free(dir: &Path, free_len: usize) -> Result<(PathBuf, PathBuf), String> {
    use jbk::creator;
    std::fs::create_dir_all(dir).unwrap();
    let vendor = jbk::VendorId::from(VENDOR);
    let mut m = creator::ManifestPackCreator::new(vendor, Default::default());
    let mut files = vec![];
    let dpath = dir.join("d.jbkd");
    let dc = creator::DirectoryPackCreator::new(jbk::PackId::from(0), vendor, Default::default());
    let mut f = std::fs::OpenOptions::new().read(true).write(true).create(true).truncate(true).open(&dpath).map_err(|e| e.to_string())?;
    let mut d = dc.finalize().map_err(|e| e.to_string())?.write(&mut f).map_err(|e| e.to_string())?;
    d.free_data = vec![0xD0; free_len];
    m.add_pack(d, "d.jbkd");
    files.push(dpath);
    for id in 1..=2u16 {
        let cp = dir.join(format!("c{id}.jbkc"));
        let up = camino::Utf8PathBuf::from_path_buf(cp.clone()).unwrap();
        let mut c = creator::ContentPackCreator::new(&up, jbk::PackId::from(id), vendor, Default::default(), creator::Compression::None).map_err(|e| e.to_string())?;
        c.add_content(Box::new(std::io::Cursor::new(format!("content of pack {id}").into_bytes())), Default::default()).map_err(|e| e.to_string())?;
        let (_f, mut info) = c.finalize().map_err(|e| e.to_string())?;
        info.free_data = (0..free_len).map(|i| (i as u8).wrapping_mul(id as u8 + 2)).collect();
        m.add_pack(info, format!("c{id}.jbkc"));
        files.push(cp);
    }
    let mpath = dir.join("m.jbkm");
    let mut f = std::fs::OpenOptions::new().read(true).write(true).create(true).truncate(true).open(&mpath).map_err(|e| e.to_string())?;
    m.finalize(&mut f).map_err(|e| e.to_string())?;
    drop(f);
    files.push(mpath.clone());
    let cat = dir.join("all.jbk");
    let up = camino::Utf8PathBuf::from_path_buf(cat.clone()).unwrap();
    jbk::tools::concat(&files, &up).map_err(|e| format!("concat: {e}"))?;
    Ok((mpath, cat))
}

fn locate_slots(buf: &[u8]) -> Result<Vec<PackSlot>, String> {
    let packs = indep::packs_in_file(buf)?;
    let m = packs.iter().find(|p| p.head.kind == b'm').ok_or("no manifest in the file")?;
    let off = m.offset;
    let cip = off + m.head.check_info_pos as usize;
    let count = u16::from_le_bytes([buf[off + 64], buf[off + 65]]) as usize;
    let infos = cip - count * 256;
    let mut out = vec![];
    for i in 0..count {
        let at = infos + i * 256;
        if !indep::block_ok(buf, at, 252) {
            return Err(format!("pack info {i}: crc"));
        }
        let uuid = uuid::Uuid::from_slice(&buf[at..at + 16]).unwrap();
        let kind = (buf[at + 34] as char).to_string();
        out.push(PackSlot { uuid, info_offset: at, kind });
    }
    Ok(out)
}

fn read_locations(buf: &[u8], slots: &[PackSlot]) -> Vec<String> {
    slots
        .iter()
        .map(|s| {
            let at = s.info_offset + 38;
            let len = buf[at] as usize;
            String::from_utf8_lossy(&buf[at + 1..at + 1 + len.min(213)]).to_string()
        })
        .collect()
}

fn initials(dir: &Path, thorough: bool) -> Result<Vec<Initial>, String> {
    let mut out = vec![];
    let l = shape("multi2");
    // standalone manifest (NoConcat)
    let d = dir.join("sep");
    std::fs::create_dir_all(&d).unwrap();
    let c = create_logical(&l, Comp::Zstd(5), Packaging::NoConcat, &d, "c")?;
    let bytes = std::fs::read(&c.path).map_err(|e| e.to_string())?;
    let slots = locate_slots(&bytes)?;
    let locations = read_locations(&bytes, &slots);
    let base = base_dump(dir, "sep", &bytes);
    out.push(Initial { name: "standalone-manifest".into(), bytes, file_name: "c.jbk".into(), slots, locations, logical: None, base, events: None, companions: c.files[1..].to_vec() });
    // manifest inside a OneFile container
    let d1 = dir.join("one");
    std::fs::create_dir_all(&d1).unwrap();
    let l1 = shape("multi");
    let c1 = create_logical(&l1, Comp::None, Packaging::OneFile, &d1, "c")?;
    let bytes = std::fs::read(&c1.path).map_err(|e| e.to_string())?;
    let slots = locate_slots(&bytes)?;
    let locations = read_locations(&bytes, &slots);
    let base = base_dump(dir, "one", &bytes);
    // the same container with non-zero group bytes (a field this version never writes itself)
    {
        let mut b2 = bytes.clone();
        for (i, g) in [(0usize, 0x5au8), (slots.len() - 1, 0xff)] {
            patch_group(&mut b2, &slots, i, g)?;
        }
        let slots2 = locate_slots(&b2)?;
        let base2 = base_dump(dir, "one-groups", &b2);
        out.push(Initial { name: "onefile-groups".into(), bytes: b2, file_name: "c.jbk".into(), slots: slots2, locations: locations.clone(), logical: Some(l1.clone()), base: base2, events: None, companions: vec![] });
    }
    out.push(Initial { name: "onefile".into(), bytes, file_name: "c.jbk".into(), slots, locations, logical: Some(l1.clone()), base, events: None, companions: vec![] });
    // concat outputs: manifest first / middle / last
    let orders: Vec<Vec<usize>> = if thorough {
        jbkmc::gen::permutations(c.files.len()).into_iter().step_by(7).collect()
    } else {
        let n = c.files.len();
        let mut last: Vec<usize> = (1..n).collect();
        last.push(0);
        let mut mid: Vec<usize> = vec![1, 0];
        mid.extend(2..n);
        vec![last, mid]
    };
    for (k, order) in orders.iter().enumerate() {
        let dd = dir.join(format!("cat{k}"));
        std::fs::create_dir_all(&dd).unwrap();
        let outp = dd.join("cat.jbk");
        let files: Vec<PathBuf> = order.iter().map(|&i| c.files[i].clone()).collect();
        let up = camino::Utf8PathBuf::from_path_buf(outp.clone()).unwrap();
        jbk::tools::concat(&files, &up).map_err(|e| format!("concat: {e}"))?;
        let bytes = std::fs::read(&outp).map_err(|e| e.to_string())?;
        let slots = locate_slots(&bytes)?;
        let locations = read_locations(&bytes, &slots);
        let base = base_dump(dir, "cat", &bytes);
        out.push(Initial { name: format!("concat{order:?}"), bytes, file_name: "cat.jbk".into(), slots, locations, logical: Some(l.clone()), base, events: None, companions: vec![] });
    }
    // pack-info table far into the manifest (beyond the 64 KiB / 128 KiB read-buffer sizes):
    // 3 packs x free data of 100 / 30 000 / 70 000 bytes, standalone and inside a concat output
    let frees: Vec<usize> = if thorough { vec![100, 22_000, 30_000, 70_000] } else { vec![30_000, 70_000] };
    for free in frees {
        let (mpath, cat) = big_free(&dir.join(format!("free{free}")), free)?;
        for (nm, pth, fname) in [("manifest", mpath, "m.jbkm"), ("concat", cat, "all.jbk")] {
            let bytes = std::fs::read(&pth).map_err(|e| e.to_string())?;
            let slots = locate_slots(&bytes)?;
            let locations = read_locations(&bytes, &slots);
            let base = base_dump(dir, "free", &bytes);
            out.push(Initial { name: format!("free-data-{free}-{nm}"), bytes, file_name: fname.into(), slots, locations, logical: None, base, events: None, companions: vec![] });
        }
    }
    // more than 255 packs (the size of the pack-info table no longer fits 16 bits): a few packs
    // at both ends and in the middle of the table x three strings
    for count in if thorough { vec![255u16, 256, 300, 600] } else { vec![300u16] } {
        let mpath = many_packs(&dir.join(format!("many{count}")), count)?;
        let bytes = std::fs::read(&mpath).map_err(|e| e.to_string())?;
        let slots = locate_slots(&bytes)?;
        let locations = read_locations(&bytes, &slots);
        let base = base_dump(dir, "many", &bytes);
        let n = slots.len();
        let mut packs = vec![0, 1, 2, n / 7, n / 2, n - 257.min(n), n - 256.min(n), n - 255.min(n), n - 2, n - 1];
        packs.retain(|p| *p < n);
        packs.sort();
        packs.dedup();
        out.push(Initial { name: format!("{count}-packs-manifest"), bytes, file_name: "many.jbkm".into(), slots, locations, logical: None, base, events: Some((packs, vec![0, 1, 7])), companions: vec![] });
    }
    Ok(out)
}

struct Viol {
    key: String,
    what: String,
}

/// Invariants of one state (file bytes + model locations).
fn check_state(init: &Initial, bytes: &[u8], model: &[String], path: &Path) -> Result<(), Viol> {
    let v = |k: &str, w: String| Viol { key: k.to_string(), what: w };
    // every block CRC of the manifest's pack infos (independent decoder)
    for (i, s) in init.slots.iter().enumerate() {
        if !indep::block_ok(bytes, s.info_offset, 252) {
            return Err(v("pack-info block CRC does not hold after a rewrite", format!("pack info {i}")));
        }
    }
    if indep::packs_in_file(bytes).is_err() {
        return Err(v("file structure damaged after a rewrite", format!("{:?}", indep::packs_in_file(bytes).err())));
    }
    // locations read back (independent) == model
    let got = read_locations(bytes, &init.slots);
    if got != model {
        let i = (0..got.len()).find(|&i| got[i] != model[i]).unwrap();
        return Err(v("location read back (independent decoder) differs", format!("pack {i}: file has {:?}, model {:?}", got[i], model[i])));
    }
    // through the library
    let r = jbkmc::catch(|| -> Result<(), Viol> {
        let m = dump_manifest(path);
        if is_err(&m) || m.get("packs").is_none() {
            return Err(v("manifest does not open after a rewrite", m.to_string()));
        }
        if m["check"] != json!(true) {
            return Err(v("manifest check fails after a rewrite", format!("{}", m["check"])));
        }
        let blank = blank_locations(m.clone());
        if blank != init.base {
            let mut diffs = vec![];
            compare(&init.base, &blank, "", &mut diffs);
            let what = diffs.first().map(|d| format!("{}: {} -> {}", d.path, d.pristine, d.altered)).unwrap_or_else(|| "an error node appeared".into());
            return Err(v("something else than a location changed in the manifest (library view)", what));
        }
        let packs = m["packs"].as_array().unwrap();
        let dirinfo = &m["directory"];
        for (i, s) in init.slots.iter().enumerate() {
            let node = if s.kind == "d" { Some(dirinfo) } else { packs.iter().find(|p| p["uuid"] == json!(s.uuid.to_string())) };
            let node = match node {
                Some(n) => n,
                None => return Err(v("a pack disappeared from the manifest", format!("pack {i}"))),
            };
            if node["location"] != json!(model[i]) {
                return Err(v("location read back (library) differs", format!("pack {i}: {} vs model {:?}", node["location"], model[i])));
            }
        }
        Ok(())
    });
    match r {
        Ok(x) => x?,
        Err(p) => return Err(v(&format!("panic {}", jbkmc::panic_site(&p)), p)),
    }
    if !init.companions.is_empty() {
        // a container stored as several files, opened from the rewritten manifest: as long as the
        // directory pack's location is the original one the container opens, and every content
        // pack is answered: found (its file is still where the location says) or missing with the
        // recorded location - the rewritten one - and never an error
        let dir_slot = init.slots.iter().position(|s| s.kind == "d");
        if dir_slot.map_or(false, |i| model[i] == init.locations[i]) {
            let r = jbkmc::catch(|| -> Result<(), Viol> {
                let c = jbk::reader::Container::new(path).map_err(|e| v("container (several files) does not open after a content pack's location was rewritten", e.to_string()))?;
                let n = init.slots.len() as u16;
                let mut answered = 0;
                for id in 1..n {
                    use jbk::Pack;
                    let (uuid, location) = match c.get_pack(jbk::PackId::from(id)) {
                        Err(e) => return Err(v("container cannot answer for a pack after a location was rewritten", format!("get_pack({id}): {e}"))),
                        Ok(None) => continue,
                        Ok(Some(jbk::reader::MayMissPack::FOUND(p))) => (p.uuid(), None),
                        Ok(Some(jbk::reader::MayMissPack::MISSING(info))) => (info.uuid, Some(info.pack_location.as_str().to_string())),
                    };
                    answered += 1;
                    let slot = match init.slots.iter().position(|s| s.uuid == uuid) {
                        Some(i) => i,
                        None => return Err(v("container answers with a pack the manifest does not list", format!("get_pack({id}): uuid {uuid}"))),
                    };
                    match location {
                        Some(l) if l != model[slot] => return Err(v("location read back (missing pack through the container) differs", format!("pack {slot}: {l:?} vs model {:?}", model[slot]))),
                        _ => {}
                    }
                }
                if answered + 1 != n {
                    return Err(v("container no longer answers for every listed pack", format!("{answered} of {} content packs", n - 1)));
                }
                Ok(())
            });
            match r {
                Ok(x) => x?,
                Err(p) => return Err(v(&format!("panic {}", jbkmc::panic_site(&p)), p)),
            }
        }
    }
    if let Some(l) = &init.logical {
        let d = jbkmc::catch(|| dump_container(path, &opts_for(l))).map_err(|p| v(&format!("panic {}", jbkmc::panic_site(&p)), p))?;
        if d["open"] != json!("ok") {
            return Err(v("container does not open after a rewrite", d["open"].to_string()));
        }
        let diffs = compare_with_model(&model_dump(l), &d);
        if let Some(df) = diffs.first() {
            return Err(v("content/entries changed after a rewrite", format!("{}: {} vs {}", df.path, df.altered, df.pristine)));
        }
    }
    Ok(())
}

fn main() {
    jbkmc::install_quiet_panic_hook();
    let args = Args::parse();
    let mut rep = Report::new(
        "locmc",
        "C12",
        "BFS over rewrite histories: state = vector of recorded locations; events = (every pack listed incl. the directory pack, or an unknown uuid) x 12 strings ('', 'a', one ending with U+0000, one with colons, 'd/e.jbkc' and three other spellings of that path ('d//e.jbkc', 'd/./e.jbkc', 'd/e.jbkc/'), 213 x 'x', 212-byte and 213-byte multi-byte UTF-8); depth 2 (quick) / 3 (thorough) from each initial state (standalone manifest, manifest inside a OneFile container, inside concat outputs with the manifest last / in the middle, the same with non-zero group bytes patched in, and manifests whose pack-info table lies 90 KB / 210 KB into the pack because of per-pack free data, standalone and concatenated); plus manifests listing 300 packs (thorough 255/256/300/600; rewrites of 10 packs spread over the table x 3 strings); plus, per initial state, every byte of every pack description (outside the location) altered before a rewrite of that pack: the rewrite is refused or the description still reads as created or fails; in every state: block CRCs, file structure, locations (independent and library), and for the standalone manifest with its pack files beside it the container opened from it answers for every content pack (found, or missing with the rewritten location; a directory named like one of the strings exists), manifest check(), the library's whole view of the manifest except locations unchanged, container contents; every transition calls the real tools::set_location on a real file; non-trivial = a transition that changes the state",
    );
    // one child process per group of initial states (--shards N)
    if jbkmc::shard::run_children(&args, &mut rep) {
        rep.finish(&args);
    }
    let dir = jbkmc::scratch_dir("loc");
    let t = args.thorough();
    let depth = if t { 3 } else { 2 };
    let inits = match initials(dir.path(), t) {
        Ok(i) => i,
        Err(e) => {
            rep.machinery_errors.push(format!("initial states: {e}"));
            rep.finish(&args);
        }
    };
    let inits = jbkmc::shard::select(&args, inits);
    let strs = strings();
    let replay: Option<J> = args.replay.as_ref().map(|p| {
        let j: J = serde_json::from_str(&std::fs::read_to_string(p).expect("replay")).unwrap();
        if j.get("case").is_some() { j["case"].clone() } else { j }
    });
    let work = dir.path().join("work");
    std::fs::create_dir_all(&work).unwrap();
    for init in &inits {
        if let Some(r) = &replay {
            if r["initial"] != json!(init.name) {
                continue;
            }
        }
        let path = work.join(&init.file_name);
        // state -> (bytes, history)
        let mut seen: BTreeMap<Vec<String>, (Vec<u8>, Vec<(usize, usize)>)> = BTreeMap::new();
        let mut queue: VecDeque<Vec<String>> = VecDeque::new();
        seen.insert(init.locations.clone(), (init.bytes.clone(), vec![]));
        queue.push_back(init.locations.clone());
        std::fs::write(&path, &init.bytes).unwrap();
        for f in &init.companions {
            std::fs::copy(f, work.join(f.file_name().unwrap())).unwrap();
        }
        if !init.companions.is_empty() {
            // a directory named like one of the strings: a location that names a directory names no pack
            let _ = std::fs::create_dir(work.join("a"));
        }
        if let Err(v) = check_state(init, &init.bytes, &init.locations, &path) {
            rep.violation(&format!("C12 initial state: {}", v.key), &v.what, json!({"engine":"locmc","initial":init.name,"history":[]}));
        }
        let nslots = init.slots.len();
        while let Some(state) = queue.pop_front() {
            let (bytes, history) = seen.get(&state).unwrap().clone();
            if history.len() >= depth {
                continue;
            }
            // events: every listed pack + one unknown uuid, every string
            for pk in 0..=nslots {
                if let Some((packs, _)) = &init.events {
                    if pk < nslots && !packs.contains(&pk) {
                        continue;
                    }
                }
                for (si, s) in strs.iter().enumerate() {
                    if let Some((_, ss)) = &init.events {
                        if !ss.contains(&si) {
                            continue;
                        }
                    }
                    let mut hist = history.clone();
                    hist.push((pk, si));
                    if let Some(r) = &replay {
                        let want: Vec<(usize, usize)> = r["history"].as_array().unwrap().iter().map(|h| (h[0].as_u64().unwrap() as usize, h[1].as_u64().unwrap() as usize)).collect();
                        if !want.starts_with(&hist) {
                            continue;
                        }
                    }
                    let case = json!({"engine":"locmc","initial":init.name,"history":hist});
                    std::fs::write(&path, &bytes).unwrap();
                    let uuid = if pk < nslots { init.slots[pk].uuid } else { uuid::Uuid::from_u128(0x1234_5678_9abc_def0_1234_5678_9abc_def0) };
                    let r = jbkmc::catch(|| jbk::tools::set_location(&path, uuid, jbk::SmallString::from(s.as_str())));
                    rep.transitions += 1;
                    let after = std::fs::read(&path).unwrap();
                    let mut viol: Option<Viol> = None;
                    let mut model = state.clone();
                    match r {
                        Err(p) => viol = Some(Viol { key: format!("set_location panics {}", jbkmc::panic_site(&p)), what: p }),
                        Ok(Err(e)) => viol = Some(Viol { key: "set_location returns an error on an admissible rewrite".into(), what: e.to_string() }),
                        Ok(Ok(None)) => {
                            if pk < nslots {
                                viol = Some(Viol { key: "set_location does not find a listed pack".into(), what: format!("pack {pk}") });
                            } else if after != bytes {
                                viol = Some(Viol { key: "naming an unknown pack changed the file".into(), what: "bytes differ".into() });
                            }
                        }
                        Ok(Ok(Some((_kind, old)))) => {
                            if pk >= nslots {
                                viol = Some(Viol { key: "an unknown uuid was accepted".into(), what: format!("returned old location {:?}", old.as_str()) });
                            } else {
                                if old.as_str() != state[pk] {
                                    viol = Some(Viol { key: "set_location reports a wrong previous location".into(), what: format!("returned {:?}, previous value is {:?}", old.as_str(), state[pk]) });
                                }
                                model[pk] = s.clone();
                                // only bytes [38,256) of that pack-info block may change
                                let lo = init.slots[pk].info_offset + 38;
                                let hi = init.slots[pk].info_offset + 256;
                                if after.len() != bytes.len() {
                                    viol = Some(Viol { key: "file length changed".into(), what: format!("{} -> {}", bytes.len(), after.len()) });
                                } else if let Some(i) = (0..after.len()).find(|&i| after[i] != bytes[i] && !(lo..hi).contains(&i)) {
                                    viol = Some(Viol { key: "a byte outside the rewritten location changed".into(), what: format!("byte {i} (location field of pack {pk} is [{lo},{hi}))") });
                                }
                            }
                        }
                    }
                    if viol.is_none() {
                        if let Err(v) = check_state(init, &after, &model, &path) {
                            viol = Some(v);
                        }
                    }
                    // differential oracle: the file is a function of the state
                    if viol.is_none() {
                        if let Some((known, _)) = seen.get(&model) {
                            rep.traces_validated += 1;
                            if known != &after {
                                viol = Some(Viol { key: "two histories reaching the same locations give different files".into(), what: format!("state {:?}", model.iter().map(|s| s.len()).collect::<Vec<_>>()) });
                            }
                        }
                    }
                    let changed = model != state;
                    let id = case.to_string();
                    match viol {
                        None => {
                            rep.case(if changed { Some(&id) } else { None }, if pk >= nslots { "unknown-uuid:nothing changes" } else if changed { "rewritten" } else { "rewritten(same value)" });
                            if !seen.contains_key(&model) {
                                seen.insert(model.clone(), (after, hist.clone()));
                                queue.push_back(model);
                            }
                        }
                        Some(v) => {
                            rep.case(Some(&id), "violation");
                            rep.violation(&format!("C12 {}", v.key), &format!("{} after history {:?}: {}", init.name, hist, v.what), case.clone());
                        }
                    }
                    if rep.samples.len() < 4 && hist.len() == depth {
                        rep.sample(case);
                    }
                }
            }
        }
        rep.states += seen.len() as u64;
        rep.extra.insert(format!("states[{}]", init.name), json!(seen.len()));
        // A rewrite must not put a valid checksum back on a pack description that was damaged:
        // one byte of the description (outside the location) altered, then a rewrite of that
        // pack; afterwards the manifest either fails to read or shows the description as created.
        if replay.is_none() && init.events.is_none() {
            for (pk, slot) in init.slots.iter().enumerate() {
                for off in 16..38usize {
                    let mut bytes = init.bytes.clone();
                    bytes[slot.info_offset + off] ^= 0x04;
                    std::fs::write(&path, &bytes).unwrap();
                    let case = json!({"engine":"locmc","initial":init.name,"damaged_description":{"pack":pk,"byte":off}});
                    let r = jbkmc::catch(|| jbk::tools::set_location(&path, slot.uuid, jbk::SmallString::from("relocated.jbkc")));
                    rep.transitions += 1;
                    let outcome = match r {
                        Err(p) => {
                            rep.violation(&format!("C12 set_location panics on a damaged description {}", jbkmc::panic_site(&p)), &p, case.clone());
                            "panic"
                        }
                        Ok(Err(_)) => "rewrite refused (checksum)",
                        Ok(Ok(None)) => "rewrite: pack not found",
                        Ok(Ok(Some(_))) => {
                            // the rewrite went through: the damage must still be reported or be gone
                            let m = jbkmc::catch(|| dump_manifest(&path)).unwrap_or_else(|e| json!({"err": e}));
                            let blank = blank_locations(m.clone());
                            if !is_err(&m) && m.get("packs").is_some() && blank != init.base {
                                let mut diffs = vec![];
                                compare(&init.base, &blank, "", &mut diffs);
                                if let Some(d) = diffs.first() {
                                    rep.violation(
                                        "C12 a rewrite re-seals a damaged pack description (read back without error, different from what was created)",
                                        &format!("{}: pack {pk}, description byte {off} altered before the rewrite: {} reads {} (created {})", init.name, d.path, d.altered, d.pristine),
                                        case.clone(),
                                    );
                                    "damage hidden by the rewrite"
                                } else {
                                    "rewrite accepted, description reads as created or fails"
                                }
                            } else {
                                "rewrite accepted, description reads as created or fails"
                            }
                        }
                    };
                    rep.case(Some(&case.to_string()), outcome);
                }
            }
        }
        for f in &init.companions {
            let _ = std::fs::remove_file(work.join(f.file_name().unwrap()));
        }
        let _ = std::fs::remove_dir(work.join("a"));
    }
    rep.traces_validated += rep.transitions;
    rep.note("location strings above 213 bytes are outside the property and not enumerated");
    rep.finish(&args)
}
