//! faultmc — exhaustive byte-level fault enumeration on small reference containers.
//!   c04: every checksummed byte x masks  -> every integrity check must fail
//!   c05: every byte x alterations         -> structure equal or error; content bytes only with a failing check
//!   c06: truncations, flips, ranges, garbage, non-jubako inputs -> no panic / abort / signal / hang
//! Cases run in worker processes (isolate.rs): an abort or a hang is an observation, not a crash
//! of the engine.

use jbkmc::dump::*;
use jbkmc::indep;
use jbkmc::isolate::{self, Fate, IsolatedRun};
use jbkmc::packs::{Comp, Packaging};
use jbkmc::{Args, Report};
use serde_json::{json, Value as J};
use std::collections::BTreeMap;
use std::path::{Path, PathBuf};
use std::sync::Mutex;
use std::time::Duration;

// ------------------------------------------------------------------ the container set

#[derive(Clone, Debug)]
struct Region {
    start: usize,
    end: usize,
    class: String, // e.g. "content:body", "manifest:pack-header", "manifest:location(exempt)"
    pack_uuid: String,
    pack_kind: char,
}

fn hexu(u: &[u8; 16]) -> String {
    jbkmc::hex(u)
}

/// Byte classification of one file by the independent decoder.
fn classify(buf: &[u8]) -> Result<Vec<Region>, String> {
    let mut out = vec![];
    let packs = indep::packs_in_file(buf)?;
    for p in &packs {
        let k = p.head.kind as char;
        let name = match k {
            'm' => "manifest",
            'd' => "directory",
            'c' => "content",
            _ => "container",
        };
        let off = p.offset;
        let cip = off + p.head.check_info_pos as usize;
        let uuid = hexu(&p.head.uuid);
        let mut push = |s: usize, e: usize, c: &str| {
            if s < e {
                out.push(Region { start: s, end: e, class: format!("{name}:{c}"), pack_uuid: uuid.clone(), pack_kind: k });
            }
        };
        if k == 'C' {
            continue;
        }
        push(off, off + 64, "pack-header");
        push(off + 64, off + 128, "kind-header");
        if k == 'm' {
            let count = u16::from_le_bytes([buf[off + 64], buf[off + 65]]) as usize;
            let infos = cip - count * 256;
            push(off + 128, infos, "body");
            for i in 0..count {
                push(infos + i * 256, infos + i * 256 + 38, "pack-info(checked)");
                push(infos + i * 256 + 38, infos + (i + 1) * 256, "location(exempt)");
            }
        } else if k == 'c' {
            // content-info table and cluster pointers are the big checked blocks of a content pack
            let info_pos = off + u64::from_le_bytes(buf[off + 64..off + 72].try_into().unwrap()) as usize;
            let ptr_pos = off + u64::from_le_bytes(buf[off + 72..off + 80].try_into().unwrap()) as usize;
            if off + 128 <= ptr_pos && ptr_pos <= info_pos && info_pos <= cip {
                push(off + 128, ptr_pos, "body");
                push(ptr_pos, info_pos, "cluster-ptrs");
                push(info_pos, cip, "info-table");
            } else {
                push(off + 128, cip, "body");
            }
        } else {
            push(off + 128, cip, "body");
        }
        push(cip, cip + 37, "check-block");
        push(cip + 37, off + p.head.pack_size as usize, "footer");
    }
    // container pack own bytes
    if let Ok(h) = indep::pack_head(buf, 0) {
        if h.kind == b'C' {
            let uuid = hexu(&h.uuid);
            let mut covered = vec![false; buf.len()];
            for r in &out {
                for c in covered[r.start..r.end.min(buf.len())].iter_mut() {
                    *c = true;
                }
            }
            let mut s = 0;
            while s < buf.len() {
                if covered[s] {
                    s += 1;
                    continue;
                }
                let mut e = s;
                while e < buf.len() && !covered[e] {
                    e += 1;
                }
                out.push(Region { start: s, end: e, class: "container:own".into(), pack_uuid: uuid.clone(), pack_kind: 'C' });
                s = e;
            }
        }
    }
    out.sort_by_key(|r| r.start);
    Ok(out)
}

#[derive(Clone, Debug)]
struct ContainerDesc {
    name: String,
    shape: String,
    /// file names inside base/<name>/ ; first is the entry point
    files: Vec<String>,
}

fn container_set(sub: &str, thorough: bool) -> Vec<(String, String, Comp, Packaging, bool)> {
    // (name, shape, compression, packaging, concat?)
    let mut v = vec![];
    let comps: Vec<(&str, Comp)> = vec![("none", Comp::None), ("zstd", Comp::Zstd(5)), ("lz4", Comp::Lz4(3)), ("lzma", Comp::Lzma(1))];
    let packs = [("one", Packaging::OneFile), ("two", Packaging::TwoFiles), ("sep", Packaging::NoConcat)];
    for (cn, c) in &comps {
        for (pn, p) in &packs {
            for shape in ["small", "multi"] {
                let quick_keep = match (*cn, *pn, shape) {
                    ("zstd", _, "multi") => true,
                    ("none", "one", "multi") => true,
                    ("none", "sep", "small") => true,
                    ("lz4", "one", "small") => true,
                    ("lzma", "two", "small") => true,
                    _ => false,
                };
                if thorough || quick_keep {
                    v.push((format!("{shape}-{cn}-{pn}"), shape.to_string(), *c, *p, false));
                }
            }
        }
    }
    // several content packs (a check that stops at the first pack, or lets the last one decide, dies here)
    if sub != "c06" || thorough {
        v.push(("multi2-zstd-sep".into(), "multi2".into(), Comp::Zstd(5), Packaging::NoConcat, false));
        v.push(("multi2-none-one".into(), "multi2".into(), Comp::None, Packaging::OneFile, false));
    }
    // checked blocks above 4 KiB in a file-backed content pack
    if sub == "c05" || (sub == "c06" && thorough) {
        v.push(("many-none-sep".into(), "many".into(), Comp::None, Packaging::NoConcat, false));
        if thorough {
            v.push(("many-none-one".into(), "many".into(), Comp::None, Packaging::OneFile, false));
        }
    }
    // a directory pack above 4 KiB (mmapped by its handle): alterations after the handle was opened
    if sub == "c04" {
        v.push(("big-none-sep".into(), "big".into(), Comp::None, Packaging::NoConcat, false));
        if thorough {
            v.push(("big-zstd-one".into(), "big".into(), Comp::Zstd(5), Packaging::OneFile, false));
        }
    }
    // a checked block above 64 KiB (content-info table of 17000 contents)
    if sub == "c05" || sub == "c06" {
        v.push(("huge-none-sep".into(), "huge".into(), Comp::None, Packaging::NoConcat, false));
    }
    // one compressed cluster of 576 KiB of plain data: damage late in the compressed stream
    if sub == "c05" || sub == "c06" {
        v.push(("wide-zstd-sep".into(), "wide".into(), Comp::Zstd(5), Packaging::NoConcat, false));
        v.push(("wide-lz4-sep".into(), "wide".into(), Comp::Lz4(3), Packaging::NoConcat, false));
        if thorough {
            v.push(("wide-lzma-sep".into(), "wide".into(), Comp::Lzma(1), Packaging::NoConcat, false));
        }
    }
    // a content pack file that starts with 4000 foreign bytes (the pack is found through the
    // copy of its header at the end of the file)
    if sub == "c05" || sub == "c06" {
        v.push(("multi-zstd-prefixed".into(), "multi".into(), Comp::Zstd(5), Packaging::NoConcat, false));
        // bare pack files (low-level creators: no container pack around them), swept like the others
        v.push(("multi-zstd-lowlevel".into(), "multi".into(), Comp::Zstd(5), Packaging::NoConcat, false));
        // the same with a bare content pack file (low-level creators: no container pack around it)
        v.push(("multi-none-lowlevel-prefixed".into(), "multi".into(), Comp::None, Packaging::NoConcat, false));
    }
    // concat of the separate files with the originals left beside it (the packs are reachable
    // both inside the file at hand and at their recorded locations)
    if sub == "c04" {
        v.push(("multi-zstd-beside".into(), "multi".into(), Comp::Zstd(5), Packaging::NoConcat, true));
    }
    // concat of the three separate files
    v.push(("multi-zstd-concat".into(), "multi".into(), Comp::Zstd(5), Packaging::NoConcat, true));
    // concat with the manifest and the directory pack given twice (the pack table of the file
    // lists more packs than there are distinct ones; the content pack comes last)
    if sub == "c04" {
        v.push(("multi-none-concat-dup".into(), "multi".into(), Comp::None, Packaging::NoConcat, true));
    }
    // several content packs inside one file, all recorded with the same location string (a check
    // or a lookup that remembers what it did per location string treats them as one pack)
    if sub == "c04" || (sub == "c05" && thorough) {
        v.push(("multi2-none-concat-sameloc".into(), "multi2".into(), Comp::None, Packaging::NoConcat, true));
    }
    if thorough {
        v.push(("multi-none-concat".into(), "multi".into(), Comp::None, Packaging::NoConcat, true));
    }
    if let Ok(only) = std::env::var("JBKMC_ONLY") {
        // diagnostic: restrict the set to the containers whose name contains this text
        v.retain(|c| c.0.contains(&only));
        return v;
    }
    if sub == "c06" {
        // containers >= 4 KiB (mmap path), directory > 4 KiB
        v.push(("big-zstd-one".into(), "big".into(), Comp::Zstd(5), Packaging::OneFile, false));
        if thorough {
            v.push(("big-none-sep".into(), "big".into(), Comp::None, Packaging::NoConcat, false));
            v.push(("big-lz4-two".into(), "big".into(), Comp::Lz4(3), Packaging::TwoFiles, false));
        }
    }
    v
}

fn build_set(base: &Path, sub: &str, thorough: bool) -> Result<Vec<ContainerDesc>, String> {
    let mut out = vec![];
    for (name, shape_name, comp, packaging, concat) in container_set(sub, thorough) {
        let dir = base.join(&name);
        std::fs::create_dir_all(&dir).map_err(|e| e.to_string())?;
        let l = shape(&shape_name);
        let c = if name.contains("-lowlevel") { create_lowlevel(&l, comp, &dir, &[])? } else { create_logical(&l, comp, packaging, &dir, "c")? };
        let mut files: Vec<String> = c.files.iter().map(|f| f.file_name().unwrap().to_string_lossy().to_string()).collect();
        if name.ends_with("-prefixed") {
            let cp = dir.join(if name.contains("-lowlevel") { "pack1.jbkc" } else { "c.jbkc" });
            let pack = std::fs::read(&cp).map_err(|e| e.to_string())?;
            let mut v = jbkmc::gen::payload(4000, jbkmc::gen::Entropy::High, 4242);
            v.extend_from_slice(&pack);
            std::fs::write(&cp, &v).map_err(|e| e.to_string())?;
        }
        if concat {
            let outp = dir.join("cat.jbk");
            let up = camino::Utf8PathBuf::from_path_buf(outp.clone()).unwrap();
            let inputs: Vec<PathBuf> = if name.ends_with("-dup") {
                // every file but the one holding the content pack, then all of them
                let content: Vec<PathBuf> = c.files.iter().filter(|f| f.extension().map(|e| e == "jbkc").unwrap_or(false)).cloned().collect();
                let others: Vec<PathBuf> = c.files.iter().filter(|f| !content.contains(f)).cloned().collect();
                others.iter().chain(others.iter()).chain(content.iter()).cloned().collect()
            } else {
                c.files.clone()
            };
            jubako::tools::concat(&inputs, &up).map_err(|e| format!("concat: {e}"))?;
            if !name.ends_with("-beside") {
                for f in &c.files {
                    let _ = std::fs::remove_file(f);
                }
                files = vec!["cat.jbk".into()];
                if name.ends_with("-sameloc") {
                    let uuids: Vec<uuid::Uuid> = {
                        let cont = jubako::reader::Container::new(&outp).map_err(|e| format!("open concat output: {e}"))?;
                        (1..=16u16)
                            .filter_map(|id| match cont.get_pack(jubako::PackId::from(id)) {
                                Ok(Some(jubako::reader::MayMissPack::FOUND(p))) => Some(jubako::Pack::uuid(p)),
                                _ => None,
                            })
                            .collect()
                    };
                    if uuids.len() < 2 {
                        return Err(format!("{name}: {} content packs found, at least 2 expected", uuids.len()));
                    }
                    for u in uuids {
                        jubako::tools::set_location(&outp, u, jubako::SmallString::from("packs.jbkc")).map_err(|e| format!("set_location: {e}"))?;
                    }
                }
            } else {
                files.insert(0, "cat.jbk".into());
            }
        }
        if sub == "c04" || (sub == "c05" && shape_name != "huge" && shape_name != "many" && shape_name != "wide") {
            // CRC block map from the independent Python decoder
            let verif = std::env::var("VERIF_DIR").unwrap_or_else(|_| "/verif".into());
            let codec = std::env::current_exe().unwrap().with_file_name("codec");
            let o = std::process::Command::new("python3")
                .arg(format!("{verif}/indep/jbkdecode.py"))
                .arg(dir.join(&files[0]))
                .arg("--codec")
                .arg(codec)
                .arg("--blocks")
                .output()
                .map_err(|e| format!("jbkdecode: {e}"))?;
            let text = String::from_utf8_lossy(&o.stdout).to_string();
            if !text.contains("\"blocks\"") {
                return Err(format!("jbkdecode --blocks failed on {name}: {} {}", text.chars().take(200).collect::<String>(), String::from_utf8_lossy(&o.stderr).chars().take(200).collect::<String>()));
            }
            std::fs::write(base.join(format!("{name}.blocks.json")), text).map_err(|e| e.to_string())?;
        }
        out.push(ContainerDesc { name, shape: shape_name, files });
    }
    let idx: Vec<J> = out.iter().map(|c| json!({"name": c.name, "shape": c.shape, "files": c.files})).collect();
    std::fs::write(base.join("index.json"), serde_json::to_string(&idx).unwrap()).map_err(|e| e.to_string())?;
    Ok(out)
}

fn load_set(base: &Path) -> Vec<ContainerDesc> {
    let j: J = serde_json::from_str(&std::fs::read_to_string(base.join("index.json")).expect("index.json")).unwrap();
    j.as_array()
        .unwrap()
        .iter()
        .map(|c| ContainerDesc {
            name: c["name"].as_str().unwrap().into(),
            shape: c["shape"].as_str().unwrap().into(),
            files: c["files"].as_array().unwrap().iter().map(|f| f.as_str().unwrap().to_string()).collect(),
        })
        .collect()
}

// ------------------------------------------------------------------ cases

#[derive(Clone, Debug)]
enum Alt {
    Xor { pos: usize, mask: u8 },
    Set { pos: usize, val: u8 },
    Pair { a: usize, b: usize },
    Fill { start: usize, len: usize, val: u8 },
    Truncate { len: usize },
    Append { len: usize, kind: u8 },
    /// replace the entry file by a synthetic non-jubako input
    NonJbk { kind: usize },
    /// the first `len` bytes are missing (a file cut at the front)
    CutFront { len: usize },
    /// the file is absent (a companion file of a multi-file container went missing)
    Remove,
    /// flip a byte and recompute the CRC of the block that holds it (block start, payload length):
    /// only the pack's blake3 can notice
    XorFix { pos: usize, mask: u8, block: usize, len: usize },
    /// the container is opened and checked first; the byte is then altered in place and the same
    /// handles are checked again
    AfterOpen { pos: usize, mask: u8 },
}

impl Alt {
    fn json(&self) -> J {
        match self {
            Alt::Xor { pos, mask } => json!({"xor": [pos, mask]}),
            Alt::Set { pos, val } => json!({"set": [pos, val]}),
            Alt::Pair { a, b } => json!({"pair": [a, b]}),
            Alt::Fill { start, len, val } => json!({"fill": [start, len, val]}),
            Alt::Truncate { len } => json!({"truncate": len}),
            Alt::Append { len, kind } => json!({"append": [len, kind]}),
            Alt::NonJbk { kind } => json!({"nonjbk": kind}),
            Alt::CutFront { len } => json!({"cutfront": len}),
            Alt::Remove => json!("remove"),
            Alt::XorFix { pos, mask, block, len } => json!({"xorfix": [pos, mask, block, len]}),
            Alt::AfterOpen { pos, mask } => json!({"afteropen": [pos, mask]}),
        }
    }
    fn apply(&self, buf: &mut Vec<u8>, seed: u64) {
        match self {
            Alt::Xor { pos, mask } => buf[*pos] ^= mask,
            Alt::Set { pos, val } => buf[*pos] = *val,
            Alt::Pair { a, b } => {
                buf[*a] ^= 0xff;
                buf[*b] ^= 0xff;
            }
            Alt::Fill { start, len, val } => {
                let e = (*start + *len).min(buf.len());
                for x in &mut buf[*start..e] {
                    *x = *val;
                }
            }
            Alt::Truncate { len } => buf.truncate(*len),
            Alt::CutFront { len } => {
                buf.drain(..(*len).min(buf.len()));
            }
            Alt::Remove => {}
            Alt::AfterOpen { .. } => {} // applied later, in place
            Alt::XorFix { pos, mask, block, len } => {
                buf[*pos] ^= mask;
                let crc = indep::crc32c_jbk(&buf[*block..*block + *len]);
                buf[*block + *len..*block + *len + 4].copy_from_slice(&crc.to_be_bytes());
            }
            Alt::Append { len, kind } => {
                let extra: Vec<u8> = match kind {
                    0 => vec![0; *len],
                    1 => vec![0xff; *len],
                    2 => jbkmc::gen::payload(*len, jbkmc::gen::Entropy::High, seed ^ 99),
                    _ => {
                        // a copy of the file's own last bytes (its mirrored tail)
                        let n = (*len).min(buf.len());
                        buf[buf.len() - n..].to_vec()
                    }
                };
                buf.extend_from_slice(&extra);
            }
            Alt::NonJbk { kind } => {
                *buf = match kind {
                    0 => vec![],
                    1 => vec![0],
                    2 => vec![0; 59],
                    3 => vec![0; 60],
                    4 => vec![0; 63],
                    5 => vec![0; 64],
                    6 => vec![0; 65],
                    7 => {
                        let mut v = b"jbkC".to_vec();
                        v.resize(64, 0);
                        v
                    }
                    8 => b"jbkC".to_vec(),
                    9 => b"This is a plain text file, not a Jubako container.\n".repeat(5),
                    10 => {
                        let mut v = b"jbkm".to_vec();
                        v.extend_from_slice(&[1, 2, 3, 4, 0, 2]);
                        v.resize(200, 0x55);
                        v
                    }
                    _ => vec![0xff; 128],
                }
            }
        }
    }
}

#[derive(Clone, Debug)]
struct Case {
    container: usize,
    file: usize,
    alt: Alt,
}

struct Loaded {
    desc: ContainerDesc,
    bytes: Vec<Vec<u8>>,
    regions: Vec<Vec<Region>>,
    /// CRC blocks per file: (start, payload length), from the independent Python decoder
    blocks: Vec<Vec<(usize, usize)>>,
}

fn load_all(base: &Path) -> Vec<Loaded> {
    load_set(base)
        .into_iter()
        .map(|d| {
            let bytes: Vec<Vec<u8>> = d.files.iter().map(|f| std::fs::read(base.join(&d.name).join(f)).expect("pristine file")).collect();
            let regions = bytes.iter().map(|b| classify(b).unwrap_or_default()).collect();
            let mut blocks: Vec<Vec<(usize, usize)>> = d.files.iter().map(|_| vec![]).collect();
            if let Ok(t) = std::fs::read_to_string(base.join(format!("{}.blocks.json", d.name))) {
                if let Ok(j) = serde_json::from_str::<J>(&t) {
                    for b in j["blocks"].as_array().cloned().unwrap_or_default() {
                        if let Some(fi) = d.files.iter().position(|f| Some(f.as_str()) == b[0].as_str()) {
                            blocks[fi].push((b[1].as_u64().unwrap() as usize, b[2].as_u64().unwrap() as usize));
                        }
                    }
                }
            }
            for b in blocks.iter_mut() {
                b.sort();
                b.dedup();
            }
            Loaded { desc: d, bytes, regions, blocks }
        })
        .collect()
}

fn enumerate(sub: &str, thorough: bool, set: &[Loaded]) -> Vec<Case> {
    let mut v = vec![];
    for (ci, l) in set.iter().enumerate() {
        for (fi, buf) in l.bytes.iter().enumerate() {
            let n = buf.len();
            if l.desc.name.ends_with("-beside") && fi > 0 {
                // the separate files left beside a concat output only have to be there: the file
                // at hand holds every pack, damage in the copies beside it is not read
                continue;
            }
            match sub {
                "c04" => {
                    let bigc = l.desc.shape == "big";
                    for r in &l.regions[fi] {
                        let covered = !r.class.ends_with("footer") && r.pack_kind != 'C';
                        if !covered || bigc {
                            // the big container only serves the CRC-fixed and after-open tiers below
                            continue;
                        }
                        for pos in r.start..r.end.min(n) {
                            for mask in [0x01u8, 0x80, 0xff] {
                                v.push(Case { container: ci, file: fi, alt: Alt::Xor { pos, mask } });
                            }
                        }
                        // aligned runs zeroed
                        for len in [4usize, 16] {
                            let mut s = r.start.div_ceil(len) * len;
                            while s + len <= r.end.min(n) {
                                if buf[s..s + len].iter().any(|&b| b != 0) {
                                    v.push(Case { container: ci, file: fi, alt: Alt::Fill { start: s, len, val: 0 } });
                                }
                                s += len;
                            }
                        }
                    }
                    // CRC-consistent alterations: only the blake3 stands between them and a passing check
                    for &(bs, bl) in &l.blocks[fi] {
                        for pos in (bs..bs + bl).step_by(if bigc && !thorough { 7 } else { 1 }) {
                            // bytes covered by the blake3 only: the check block is not covered by the
                            // checksum it carries (rewriting its kind byte to "no check" together with its
                            // CRC is a downgrade the format allows; noted in DESIGN.md, outside C04)
                            let covered = l.regions[fi].iter().any(|r| r.start <= pos && pos < r.end && !r.class.ends_with("footer") && !r.class.ends_with("check-block") && r.pack_kind != 'C' && !r.class.contains("exempt"));
                            if !covered {
                                continue;
                            }
                            let masks: &[u8] = if thorough { &[0x01, 0x80, 0xff] } else { &[0x01] };
                            for &mask in masks {
                                v.push(Case { container: ci, file: fi, alt: Alt::XorFix { pos, mask, block: bs, len: bl } });
                            }
                        }
                    }
                    // alteration after the handles were opened and checked once (file-backed and
                    // mmapped packs only: packs below 4 KiB are private copies of their handle)
                    for r in &l.regions[fi] {
                        if r.class.ends_with("footer") || r.class.ends_with("check-block") || r.pack_kind == 'C' || r.class.contains("exempt") {
                            continue;
                        }
                        let pack_len: usize = l.regions[fi].iter().filter(|x| x.pack_uuid == r.pack_uuid).map(|x| x.end - x.start).sum();
                        if r.pack_kind != 'c' && pack_len < 4096 {
                            continue;
                        }
                        let step = if thorough { 3 } else { 13 };
                        let mut pos = r.start;
                        while pos < r.end.min(n) {
                            v.push(Case { container: ci, file: fi, alt: Alt::AfterOpen { pos, mask: 0x10 } });
                            pos += step;
                        }
                    }
                    if thorough && l.desc.shape == "small" {
                        // every pair of covered positions inside the same pack (small containers)
                        for r1 in &l.regions[fi] {
                            if r1.class.ends_with("footer") || r1.pack_kind == 'C' || r1.class.contains("exempt") {
                                continue;
                            }
                            for r2 in &l.regions[fi] {
                                if r2.pack_uuid != r1.pack_uuid || r2.class.ends_with("footer") || r2.class.contains("exempt") {
                                    continue;
                                }
                                for a in r1.start..r1.end.min(n) {
                                    for b in r2.start..r2.end.min(n) {
                                        if a < b && (a % 7 == 0 || b - a < 3) {
                                            v.push(Case { container: ci, file: fi, alt: Alt::Pair { a, b } });
                                        }
                                    }
                                }
                            }
                        }
                    }
                }
                "c05" | "c06" if l.desc.name.ends_with("-prefixed") => {
                    // only the content pack file: the 64-byte copy of the header at its end, the
                    // header itself behind the foreign bytes, and the junction
                    if l.desc.files[fi] != "c.jbkc" && l.desc.files[fi] != "pack1.jbkc" {
                        continue;
                    }
                    let mut spots: Vec<usize> = (n.saturating_sub(64)..n).collect();
                    spots.extend(3990..4000 + 128);
                    for pos in spots {
                        for mask in [0x01u8, 0x20, 0x80, 0xff] {
                            v.push(Case { container: ci, file: fi, alt: Alt::Xor { pos, mask } });
                        }
                    }
                }
                "c05" | "c06" if l.desc.shape == "wide" => {
                    // the content pack only (the other files are like everywhere else): a spread of
                    // positions over the compressed cluster, ranges, truncations
                    if !l.regions[fi].iter().any(|r| r.pack_kind == 'c') {
                        continue;
                    }
                    let step = if thorough { 7 } else { 61 };
                    let mut pos = 0;
                    while pos < n {
                        for mask in [0x01u8, 0xff] {
                            v.push(Case { container: ci, file: fi, alt: Alt::Xor { pos, mask } });
                        }
                        pos += step;
                    }
                    for len in [64usize, 4096] {
                        let mut s = 0;
                        while s < n {
                            v.push(Case { container: ci, file: fi, alt: Alt::Fill { start: s, len, val: 0 } });
                            s += if thorough { len } else { 4096 };
                        }
                    }
                    if sub == "c06" {
                        let mut t = 0;
                        while t < n {
                            v.push(Case { container: ci, file: fi, alt: Alt::Truncate { len: t } });
                            t += if thorough { 97 } else { 997 };
                        }
                    }
                }
                "c05" | "c06" if l.desc.shape == "huge" => {
                    // only the big tables (every `step`-th byte) and the headers: the rest of this
                    // container is like the others
                    let step = if thorough { 8 } else { 64 };
                    for r in &l.regions[fi] {
                        let big = r.class.ends_with("info-table") || r.class.ends_with("cluster-ptrs");
                        if !big && !r.class.ends_with("header") {
                            continue;
                        }
                        let mut pos = r.start;
                        while pos < r.end.min(n) {
                            for mask in [0x01u8, 0xff] {
                                v.push(Case { container: ci, file: fi, alt: Alt::Xor { pos, mask } });
                            }
                            pos += if big { step } else { 1 };
                        }
                    }
                }
                "c05" => {
                    let many = l.desc.shape == "many" && !thorough;
                    for pos in 0..n {
                        if many {
                            // quick: one bit flip per position (every position still visited)
                            v.push(Case { container: ci, file: fi, alt: Alt::Xor { pos, mask: 0x01 } });
                            continue;
                        }
                        for mask in [0x01u8, 0x80, 0xff] {
                            v.push(Case { container: ci, file: fi, alt: Alt::Xor { pos, mask } });
                        }
                        for val in [0x00u8, 0xff] {
                            if buf[pos] != val {
                                v.push(Case { container: ci, file: fi, alt: Alt::Set { pos, val } });
                            }
                        }
                    }
                    // zeroed ranges that end exactly where a CRC block ends (its 4 CRC bytes and the
                    // last bytes of its data become zero together) or start where it starts
                    for &(bs, bl) in &l.blocks[fi] {
                        let end = bs + bl + 4;
                        for len in [5usize, 6, 8, 16, 64] {
                            if end >= len && end <= n {
                                v.push(Case { container: ci, file: fi, alt: Alt::Fill { start: end - len, len, val: 0 } });
                            }
                            if bs + len <= n {
                                v.push(Case { container: ci, file: fi, alt: Alt::Fill { start: bs, len: len.min(bl + 4), val: 0 } });
                            }
                        }
                    }
                    let lens: &[usize] = if thorough { &[2, 4, 8, 64] } else { &[4, 64] };
                    for &len in lens {
                        let step = if thorough { 1 } else if many { 64 } else { len.max(4) / 4 };
                        let mut s = 0;
                        while s + len <= n {
                            for val in [0x00u8, 0xff] {
                                if buf[s..s + len].iter().any(|&b| b != val) {
                                    v.push(Case { container: ci, file: fi, alt: Alt::Fill { start: s, len, val } });
                                }
                            }
                            s += step;
                        }
                    }
                    if thorough {
                        // pairs inside one 64-byte block
                        let mut s = 0;
                        while s < n {
                            let e = (s + 64).min(n);
                            for a in s..e {
                                for b in (a + 1)..e {
                                    if (b - a) % 5 == 1 {
                                        v.push(Case { container: ci, file: fi, alt: Alt::Pair { a, b } });
                                    }
                                }
                            }
                            s += 64;
                        }
                    }
                }
                _ => {
                    // c06
                    let big = n > 8000;
                    let tstep = if big && !thorough { 7 } else { 1 };
                    let mut t = 0;
                    while t < n {
                        v.push(Case { container: ci, file: fi, alt: Alt::Truncate { len: t } });
                        t += tstep;
                    }
                    // every single-bit flip of the bytes that hold pack headers and their copies
                    let mut spots: std::collections::BTreeSet<usize> = (0..n.min(128)).chain(n.saturating_sub(64)..n).collect();
                    for r in &l.regions[fi] {
                        if r.class.ends_with("header") || r.class.ends_with("footer") || r.class.ends_with("check-block") {
                            spots.extend(r.start..r.end.min(n));
                        }
                    }
                    // (release profile only: the debug profile repeats the other tiers, which hold the
                    // arithmetic-overflow cases; this one is about unexpected field values)
                    if !cfg!(debug_assertions) {
                        for pos in spots {
                            for bit in 1..7u8 {
                                v.push(Case { container: ci, file: fi, alt: Alt::Xor { pos, mask: 1 << bit } });
                            }
                        }
                    }
                    let pstep = if big { if thorough { 3 } else { 11 } } else { 1 };
                    let mut pos = 0;
                    while pos < n {
                        for mask in [0x01u8, 0x80, 0xff] {
                            v.push(Case { container: ci, file: fi, alt: Alt::Xor { pos, mask } });
                        }
                        pos += pstep;
                    }
                    for len in [4usize, 64, 4096] {
                        let step = if thorough { (len / 4).max(1) } else { len.max(8) };
                        let mut s = 0;
                        while s < n {
                            v.push(Case { container: ci, file: fi, alt: Alt::Fill { start: s, len, val: 0 } });
                            s += step;
                        }
                    }
                    for len in [1usize, 63, 64, 65, 4096] {
                        for kind in 0..4u8 {
                            v.push(Case { container: ci, file: fi, alt: Alt::Append { len, kind } });
                        }
                    }
                    if fi == 0 {
                        for kind in 0..12 {
                            v.push(Case { container: ci, file: 0, alt: Alt::NonJbk { kind } });
                        }
                    } else {
                        v.push(Case { container: ci, file: fi, alt: Alt::Remove });
                    }
                    let cstep = if big && !thorough { 13 } else if thorough { 1 } else { 3 };
                    let mut c = 1;
                    while c < n {
                        v.push(Case { container: ci, file: fi, alt: Alt::CutFront { len: c } });
                        c += cstep;
                    }
                }
            }
        }
    }
    v
}

// ------------------------------------------------------------------ worker: run one case

fn check_str(r: Result<Result<bool, String>, String>) -> String {
    match r {
        Ok(Ok(true)) => "true".into(),
        Ok(Ok(false)) => "false".into(),
        Ok(Err(e)) => format!("err: {}", e.chars().take(80).collect::<String>()),
        Err(p) => format!("panic: {p}"),
    }
}

fn pack_check(reader: jubako::Reader, kind: char) -> Result<bool, String> {
    use jubako::Pack;
    match kind {
        'm' => jubako::reader::ManifestPack::new(reader).map_err(|e| e.to_string())?.check().map_err(|e| e.to_string()),
        'd' => jubako::reader::DirectoryPack::new(reader).map_err(|e| e.to_string())?.check().map_err(|e| e.to_string()),
        'c' => jubako::reader::ContentPack::new(reader).map_err(|e| e.to_string())?.check().map_err(|e| e.to_string()),
        _ => Err("container".into()),
    }
}

fn run_case(set: &[Loaded], case: &Case, scratch: &Path, seed: u64, pristine_dumps: &BTreeMap<String, J>) -> J {
    let l = &set[case.container];
    let dir = scratch.join("w");
    let _ = std::fs::remove_dir_all(&dir);
    std::fs::create_dir_all(&dir).unwrap();
    for (fi, name) in l.desc.files.iter().enumerate() {
        let mut b = l.bytes[fi].clone();
        if fi == case.file {
            case.alt.apply(&mut b, seed);
        }
        if fi == case.file && matches!(case.alt, Alt::Remove) {
            continue;
        }
        std::fs::write(dir.join(name), &b).unwrap();
    }
    if let Alt::NonJbk { kind: 11 } = case.alt {
        // a directory at the entry path
        let p = dir.join(&l.desc.files[0]);
        let _ = std::fs::remove_file(&p);
        std::fs::create_dir_all(&p).unwrap();
    }
    let entry = dir.join(&l.desc.files[0]);
    let target = dir.join(&l.desc.files[case.file]);
    let logical = shape(&l.desc.shape);
    let mut opts = opts_for(&logical);
    opts.with_manifest = true;
    let mut panics: Vec<String> = vec![];
    if let Alt::AfterOpen { pos, mask } = case.alt {
        // handles first, alteration afterwards, same handles checked again
        let region = l.regions[case.file].iter().find(|r| r.start <= pos && pos < r.end).cloned();
        let r = jbkmc::catch(|| -> Result<J, String> {
            use jubako::Pack;
            let container = jubako::reader::Container::new(&entry).map_err(|e| e.to_string())?;
            let filepack = jubako::tools::open_pack(&target).map_err(|e| e.to_string())?;
            let pack: Option<Box<dyn Pack>> = match &region {
                Some(r) if r.pack_kind != 'C' => {
                    let uuid = uuid::Uuid::parse_str(&r.pack_uuid).unwrap();
                    let reader = filepack.get_pack_reader(&uuid).ok_or("pack not listed")?;
                    Some(match r.pack_kind {
                        'm' => Box::new(jubako::reader::ManifestPack::new(reader).map_err(|e| e.to_string())?) as Box<dyn Pack>,
                        'd' => Box::new(jubako::reader::DirectoryPack::new(reader).map_err(|e| e.to_string())?),
                        _ => Box::new(jubako::reader::ContentPack::new(reader).map_err(|e| e.to_string())?),
                    })
                }
                _ => None,
            };
            let first = (container.check().map_err(|e| e.to_string())?, filepack.check().map_err(|e| e.to_string())?, pack.as_ref().map(|p| p.check().unwrap_or(false)).unwrap_or(true));
            if first != (true, true, true) {
                return Err(format!("MACHINERY pristine checks are {first:?}"));
            }
            {
                use std::io::{Seek, SeekFrom, Write};
                let mut f = std::fs::OpenOptions::new().write(true).open(&target).map_err(|e| e.to_string())?;
                f.seek(SeekFrom::Start(pos as u64)).map_err(|e| e.to_string())?;
                f.write_all(&[l.bytes[case.file][pos] ^ mask]).map_err(|e| e.to_string())?;
                f.sync_all().ok();
            }
            let s = |r: jubako::Result<bool>| match r {
                Ok(true) => "true".to_string(),
                Ok(false) => "false".to_string(),
                Err(e) => format!("err: {}", e.to_string().chars().take(60).collect::<String>()),
            };
            Ok(json!({"container": s(container.check()), "file": s(filepack.check()), "pack": pack.as_ref().map(|p| s(p.check())).unwrap_or_else(|| "n/a".into())}))
        });
        let (check, err) = match r {
            Ok(Ok(c)) => (c, None),
            Ok(Err(e)) => (json!({"container": "err", "file": "err", "pack": "err"}), Some(e)),
            Err(p) => (json!({"container": "panic", "file": "panic", "pack": "panic"}), Some(format!("panic {p}"))),
        };
        return json!({
            "panics": [], "diffs": [], "check": check, "opened": true,
            "region": format!("{}(altered after the handles were opened)", region.map(|r| r.class).unwrap_or_else(|| "n/a".into())),
            "error": err,
        });
    }
    // (a) everything a user can read
    let dump = match jbkmc::catch(|| {
        let mut d = dump_container(&entry, &opts);
        d["file_packs"] = dump_file_packs(&dir, &l.desc.files);
        d
    }) {
        Ok(d) => d,
        Err(p) => {
            panics.push(p);
            json!({"open": {"err": "panic"}})
        }
    };
    let mut diffs_out: Vec<J> = vec![];
    if let Some(pr) = pristine_dumps.get(&l.desc.name) {
        let mut diffs = vec![];
        compare(pr, &dump, "", &mut diffs);
        for d in diffs.iter().take(6) {
            diffs_out.push(json!({"path": d.path, "pristine": d.pristine, "altered": d.altered}));
        }
    }
    // (b) integrity checks at three levels
    let container_check = dump.get("check").map(|c| if c == &json!(true) { "true".to_string() } else if c == &json!(false) { "false".into() } else { format!("err: {c}") }).unwrap_or_else(|| "err: not opened".into());
    let file_check = check_str(jbkmc::catch(|| jubako::tools::open_pack(&target).map_err(|e| e.to_string()).and_then(|c| c.check().map_err(|e| e.to_string()))));
    if let Some(p) = file_check.strip_prefix("panic: ") {
        panics.push(p.to_string());
    }
    // the pack that holds the altered byte
    let pos = match &case.alt {
        Alt::Xor { pos, .. } | Alt::Set { pos, .. } | Alt::XorFix { pos, .. } | Alt::AfterOpen { pos, .. } => Some(*pos),
        Alt::Pair { a, .. } => Some(*a),
        Alt::Fill { start, .. } => Some(*start),
        _ => None,
    };
    let mut pack_chk = "n/a".to_string();
    let mut region_class = "n/a".to_string();
    if let Some(pos) = pos {
        if let Some(r) = l.regions[case.file].iter().find(|r| r.start <= pos && pos < r.end) {
            region_class = r.class.clone();
            if r.pack_kind != 'C' {
                let uuid = uuid::Uuid::parse_str(&r.pack_uuid).unwrap();
                let kind = r.pack_kind;
                pack_chk = check_str(jbkmc::catch(|| {
                    let c = jubako::tools::open_pack(&target).map_err(|e| e.to_string())?;
                    let reader = c.get_pack_reader(&uuid).ok_or_else(|| "pack not listed".to_string())?;
                    pack_check(reader, kind)
                }));
                if let Some(p) = pack_chk.strip_prefix("panic: ") {
                    panics.push(p.to_string());
                }
            }
        }
    }
    if let Alt::XorFix { .. } = case.alt {
        region_class = format!("{region_class}(block CRC recomputed)");
    }
    json!({
        "panics": panics,
        "diffs": diffs_out,
        "check": {"container": container_check, "file": file_check, "pack": pack_chk},
        "region": region_class,
        "opened": dump.get("open") == Some(&json!("ok")),
    })
}

fn worker(args: &Args) -> ! {
    let base = PathBuf::from(args.opt("--base").expect("--base"));
    let (from, to) = isolate::parse_range(&args.opt("--range").expect("--range"));
    let set = load_all(&base);
    let cases = enumerate(&args.sub, args.thorough(), &set);
    let mut pristine = BTreeMap::new();
    for l in &set {
        if let Ok(t) = std::fs::read_to_string(base.join(format!("{}.dump.json", l.desc.name))) {
            pristine.insert(l.desc.name.clone(), serde_json::from_str(&t).unwrap());
        }
    }
    // panics in foreign threads (decompression pool) abort the process: announce the site first
    let prev = std::panic::take_hook();
    std::panic::set_hook(Box::new(move |info| {
        use std::io::Write;
        let loc = info.location().map(|l| format!("{}:{}", l.file(), l.line())).unwrap_or_default();
        let name = std::thread::current().name().unwrap_or("").to_string();
        let o = std::io::stdout();
        let mut o = o.lock();
        let _ = writeln!(o, "P {loc} thread={name}");
        let _ = o.flush();
        prev(info);
    }));
    let scratch = jbkmc::scratch_dir("fault");
    for idx in from..to.min(cases.len()) {
        isolate::worker_case(idx, || {
            let t = std::time::Instant::now();
            let mut v = run_case(&set, &cases[idx], scratch.path(), args.seed, &pristine);
            v["ms"] = json!(t.elapsed().as_millis() as u64);
            v
        });
    }
    drop(scratch);
    std::process::exit(0)
}

// ------------------------------------------------------------------ C05: one checked block above 16 MiB

/// A directory pack whose single entry store is one CRC-protected block of 19.2 MB (300 000
/// entries of 8 x 8 bytes), read from a file: the biggest block shape the reader treats
/// differently (blocks are copied in memory or mapped depending on their size). A handful of
/// alterations inside that block; the altered entry must fail to read or read as written.
fn giant(args: &Args) -> ! {
    use jubako::reader::{EntryTrait, Range};
    let mut rep = Report::new(
        "faultmc",
        "C05",
        "one container whose entry store is a single checked block of 19.2 MB (300000 entries x 8 unsigned 8-byte properties), file-backed; the value of entry j, property k is a function of (j,k), located in the file by its byte pattern; for j in {0, 1000, 150000, 262143, 299999} x {bit 0, bit 7 of the first byte, last byte xor ff, 8 bytes zeroed}: the container is re-opened and entry j read: every property is as written or the read fails; non-trivial = every case",
    );
    // --mmap-refusals: the same walk with the environment refusing file mappings (shim/mmapfail.c)
    let mm = if args.flag("--mmap-refusals") {
        match jbkmc::mmapfail::MmapSwitch::from_env() {
            Some(m) => Some(m),
            None => {
                rep.machinery_errors.push("--mmap-refusals needs LD_PRELOAD=shim/mmapfail.so with MMAPFAIL_SWITCH and MMAPFAIL_LOG".into());
                rep.finish(args);
            }
        }
    } else {
        None
    };
    if mm.is_some() {
        rep.rule = format!("{}; here every read is repeated once per answer of the environment to the file mappings the reader asks for: the k-th mapping of the run refused (ENOMEM) for every k, and all of them refused; a refused mapping must end in an error or in values as written", rep.rule);
    }
    jbkmc::watchdog::start("faultmc", "C05", "C06 reading a damaged 19 MB entry store does not terminate", std::time::Duration::from_secs(120), args.out.clone(), |c| c);
    const N: u64 = 300_000;
    let value = |j: u64, k: u64| -> u64 { 0xA5_00_00_00_00_00_00_00 | (k << 48) | (j.wrapping_mul(2_654_435_761) & 0xFFFF_FFFF_FFFF) };
    let dir = jbkmc::scratch_dir("giant");
    let path = dir.path().join("giant.jbk");
    let built = jbkmc::catch(|| -> Result<(), String> {
        let up = camino::Utf8PathBuf::from_path_buf(path.clone()).unwrap();
        let creator = jubako::creator::BasicCreator::new(&up, jubako::creator::ConcatMode::OneFile, jubako::VendorId::from(jbkmc::packs::VENDOR), jubako::creator::Compression::None, std::sync::Arc::new(()))
            .map_err(|e| e.to_string())?;
        let names: [&'static str; 8] = ["p0", "p1", "p2", "p3", "p4", "p5", "p6", "p7"];
        let schema = jubako::creator::schema::Schema::<&'static str, &'static str>::new(
            jubako::creator::schema::CommonProperties::new(names.iter().map(|n| jubako::creator::schema::Property::new_uint(*n)).collect()),
            vec![],
            None,
        );
        let mut store = Box::new(jubako::creator::EntryStore::new(schema, None));
        for j in 0..N {
            let mut map = std::collections::HashMap::new();
            for (k, n) in names.iter().enumerate() {
                map.insert(*n, jubako::Value::Unsigned(value(j, k as u64)));
            }
            let e = jubako::creator::BasicEntry::new_from_schema(&store.schema, None, map);
            store.add_entry(e);
        }
        struct One(Option<Box<jubako::creator::EntryStore<&'static str, &'static str, jubako::creator::BasicEntry<&'static str, &'static str>>>>);
        impl jubako::creator::EntryStoreTrait for One {
            fn finalize(self: Box<Self>, directory_pack: &mut jubako::creator::DirectoryPackCreator) {
                let mut me = self;
                let store = me.0.take().unwrap();
                let id = directory_pack.add_entry_store(store);
                directory_pack.create_index("all", Default::default(), 0.into(), id, jubako::EntryCount::from(N as u32), jubako::EntryIdx::from(0).into());
            }
        }
        creator.finalize(Box::new(One(Some(store))), vec![]).map_err(|e| e.to_string())?;
        Ok(())
    });
    match built {
        Ok(Ok(())) => {}
        Ok(Err(e)) => {
            rep.violation("C05 creation of the 19 MB entry store failed", &e, json!({"engine":"faultmc","sub":"c05giant"}));
            rep.finish(args);
        }
        Err(p) => {
            rep.violation(&format!("C05 creation of the 19 MB entry store panics {}", jbkmc::panic_site(&p)), &p, json!({"engine":"faultmc","sub":"c05giant"}));
            rep.finish(args);
        }
    }
    let pristine = std::fs::read(&path).expect("read giant");
    rep.extra.insert("file_bytes".into(), json!(pristine.len()));
    let read_entry = |j: u64| -> Result<Vec<u64>, String> {
        let c = jubako::reader::Container::new(&path).map_err(jerr_short)?;
        let index = c.get_index_for_name("all").map_err(jerr_short)?.ok_or("no index")?;
        let store = index.get_store(c.get_entry_storage()).map_err(jerr_short)?;
        let builder = jubako::reader::builder::AnyBuilder::new(store, &**c.get_value_storage()).map_err(jerr_short)?;
        let e = index.get_entry(&builder, jubako::EntryIdx::from(j as u32)).map_err(jerr_short)?.ok_or("entry absent")?;
        let mut v = vec![];
        for k in 0..8 {
            match e.get_value(&format!("p{k}")).map_err(jerr_short)? {
                Some(jubako::reader::RawValue::U64(x)) => v.push(x),
                Some(other) => return Err(format!("p{k} is not a u64: {other:?}")),
                None => return Err(format!("p{k} absent")),
            }
        }
        Ok(v)
    };
    let picks = [0u64, 1000, 150_000, 262_143, N - 1];
    let mut total_mappings = 0i64;
    let mut total_refused = 0i64;
    let replay_case: Option<J> = args.replay.as_ref().map(|p| {
        let r: J = serde_json::from_str(&std::fs::read_to_string(p).expect("replay")).unwrap();
        if r.get("case").is_some() { r["case"].clone() } else { r }
    });
    for &j in &picks {
        let want: Vec<u64> = (0..8).map(|k| value(j, k)).collect();
        match jbkmc::catch(|| read_entry(j)) {
            Ok(Ok(v)) if v == want => {}
            other => {
                rep.violation("C05 pristine 19 MB entry store does not read as written", &format!("entry {j}: {other:?}"), json!({"engine":"faultmc","sub":"c05giant","entry":j}));
                rep.finish(args);
            }
        }
        // where is entry j? (its first property, little endian, is unique in the file)
        let pat = value(j, 0).to_le_bytes();
        let pos = match pristine.windows(8).position(|w| w == pat) {
            Some(p) => p,
            None => {
                rep.machinery_errors.push(format!("entry {j}: value pattern not found in the file"));
                continue;
            }
        };
        let alts: Vec<(&str, Vec<(usize, u8)>)> = vec![
            ("bit0", vec![(pos, pristine[pos] ^ 0x01)]),
            ("bit7", vec![(pos, pristine[pos] ^ 0x80)]),
            ("last-byte-ff", vec![(pos + 63, pristine[pos + 63] ^ 0xff)]),
            ("zero8", (0..8).map(|d| (pos + 8 + d, 0u8)).collect()),
        ];
        for (name, changes) in alts {
            let case = json!({"engine":"faultmc","sub":"c05giant","entry":j,"alt":name,"at":pos});
            if let Some(p) = &args.replay {
                let r: J = serde_json::from_str(&std::fs::read_to_string(p).expect("replay")).unwrap();
                let r = if r.get("case").is_some() { r["case"].clone() } else { r };
                if r["entry"] != json!(j) || r["alt"] != json!(name) {
                    continue;
                }
            }
            {
                use std::io::{Seek, SeekFrom, Write};
                let mut f = std::fs::OpenOptions::new().write(true).open(&path).unwrap();
                for (at, b) in &changes {
                    f.seek(SeekFrom::Start(*at as u64)).unwrap();
                    f.write_all(&[*b]).unwrap();
                }
            }
            // answers of the environment: none refused (and, under the shim, count the mappings),
            // then each single refusal, then all refused
            let mut runs: Vec<(i64, Result<Result<Vec<u64>, String>, String>)> = vec![];
            if let Some(m) = &mm {
                m.set(0);
            }
            let _wd = jbkmc::watchdog::guard(|| case.to_string());
            runs.push((0, jbkmc::catch(|| read_entry(j))));
            if let Some(m) = &mm {
                let (asked, _) = m.stats();
                total_mappings += asked;
                let mut ks: Vec<i64> = (1..=asked).collect();
                ks.push(-1);
                for k in ks {
                    m.set(k);
                    let r = jbkmc::catch(|| read_entry(j));
                    total_refused += m.stats().1;
                    runs.push((k, r));
                }
                m.set(0);
            }
            {
                use std::io::{Seek, SeekFrom, Write};
                let mut f = std::fs::OpenOptions::new().write(true).open(&path).unwrap();
                for (at, _) in &changes {
                    f.seek(SeekFrom::Start(*at as u64)).unwrap();
                    f.write_all(&[pristine[*at]]).unwrap();
                }
            }
            for (k, got) in runs {
            let case = if mm.is_some() { let mut c = case.clone(); c["refused_mapping"] = json!(k); c["sub"] = json!("c05giant-mmap"); c } else { case.clone() };
            if let Some(r) = &replay_case {
                if r.get("refused_mapping").is_some() && r["refused_mapping"] != json!(k) {
                    continue;
                }
            }
            let refusal = if k == 0 { "" } else if k < 0 { " (every mapping refused)" } else { " (one mapping refused)" };
            let id = case.to_string();
            match got {
                Ok(Err(e)) => rep.case(Some(&id), &format!("error: {}{refusal}", e.split_whitespace().take(4).collect::<Vec<_>>().join(" "))),
                Ok(Ok(v)) if v == want => rep.case(Some(&id), &format!("reads as written{refusal}")),
                Ok(Ok(v)) => {
                    rep.case(Some(&id), "violation");
                    rep.violation(
                        &format!("C05 silently different: property values of an entry in a checked block above 16 MiB{refusal}"),
                        &format!("entry {j} after {name} at byte {pos}: read {:x?}, written {:x?}", v, want),
                        case.clone(),
                    );
                }
                Err(p) => {
                    rep.case(Some(&id), "panic");
                    rep.violation(&format!("C06 panic {}", jbkmc::panic_site(&p)), &p, case.clone());
                }
            }
            if rep.samples.len() < 3 {
                rep.sample(case);
            }
            }
        }
    }
    if mm.is_some() {
        rep.extra.insert("file_mappings_asked_for".into(), json!(total_mappings));
        rep.extra.insert("file_mappings_refused".into(), json!(total_refused));
        if total_refused == 0 && args.replay.is_none() {
            rep.machinery_errors.push("no file mapping was refused: the mmapfail shim is not in the process, or the reader no longer maps this block".into());
        }
    }
    rep.finish(args)
}

fn jerr_short(e: jubako::Error) -> String {
    jerr(e).to_string().chars().take(200).collect()
}

// ------------------------------------------------------------------ C05/C06: checked blocks of every size

/// Content packs with N contents for every N in a range: the cluster tail (4 + k(N+1) bytes) and
/// the content-info table (4N bytes) are CRC-protected blocks whose size grows with N, so every
/// block size up to a few KiB occurs (1-, 2- and 3-byte offsets). Three alterations per pack inside
/// those blocks; the pack is re-opened from its file and three contents are read.
/// `prop` C06: nothing may panic. `prop` C05: a content is an error or what was written (size
/// always; bytes unless check() fails).
fn sweep(args: &Args, prop: &'static str) -> ! {
    use jubako::Pack;
    use rayon::prelude::*;
    use jbkmc::packs::read_region;
    let mut rep = Report::new(
        "faultmc",
        prop,
        "bare content packs with N contents, N = 1..1100 (thorough 1..4400 and 16380..16390), in two variants (1-byte contents; 130-byte contents), uncompressed: cluster tails and content-info tables of every size up to 4.4 KiB (17.6 KiB), offsets of 1, 2 and 3 bytes; per pack: one bit flipped in the middle of the cluster tail, in its first byte, and in the first and last byte of the content-info table; the pack is re-opened from its file and contents 0, N/2 and N-1 are read and check() is called; C06: no panic; C05: every content reads with its written size and bytes, or fails (bytes may differ only when check() is not true); non-trivial = every case",
    );
    let t = args.thorough();
    let mut ns: Vec<usize> = (1..=if t { 4400 } else { 1100 }).collect();
    if t {
        ns.extend(16_380..=16_390);
    }
    // --mmap-refusals: the environment refuses every file mapping (shim/mmapfail.c); only packs
    // whose tables reach the 4 KiB above which the reader maps a block instead of reading it
    let mm = if args.flag("--mmap-refusals") {
        match jbkmc::mmapfail::MmapSwitch::from_env() {
            Some(m) => Some(m),
            None => {
                rep.machinery_errors.push("--mmap-refusals needs LD_PRELOAD=shim/mmapfail.so with MMAPFAIL_SWITCH and MMAPFAIL_LOG".into());
                rep.finish(args);
            }
        }
    } else {
        None
    };
    if mm.is_some() {
        ns = (1000..=if t { 4400 } else { 1100 }).collect();
        rep.rule = format!("{}; here N = 1000.. only, contents of 1..5 bytes (content i has 1 + i mod 5 bytes) in a third variant, and the environment refuses every file mapping the reader asks for (ENOMEM): a block that cannot be mapped must end in an error or in values as written", rep.rule);
    }
    let lens: Vec<usize> = if mm.is_some() { vec![1, 130, 0] } else { vec![1, 130] };
    jbkmc::watchdog::start("faultmc", prop, "C06 reading a damaged content pack does not terminate", std::time::Duration::from_secs(60), args.out.clone(), |c| c);
    let dir = jbkmc::scratch_dir("sweep");
    let replay: Option<J> = args.replay.as_ref().map(|p| {
        let j: J = serde_json::from_str(&std::fs::read_to_string(p).expect("replay")).unwrap();
        if j.get("case").is_some() { j["case"].clone() } else { j }
    });
    let mut jobs: Vec<(usize, usize)> = vec![];
    for &n in &ns {
        for &len in &lens {
            if len == 130 && n > 1100 && n < 16_000 {
                continue;
            }
            if let Some(r) = &replay {
                if r["n"] != json!(n) || r["len"] != json!(len) {
                    continue;
                }
            }
            jobs.push((n, len));
        }
    }
    // len 0 stands for "sizes vary": content i has 1 + i mod 5 bytes
    let content = |i: usize, len: usize| -> Vec<u8> { (0..if len == 0 { 1 + i % 5 } else { len }).map(|k| (i * 31 + k * 7 + 1) as u8).collect() };
    struct Out {
        id: String,
        outcome: String,
        violation: Option<(String, String, J)>,
    }
    // packs are created with mappings granted, read with mappings refused: two passes
    let build = |n: usize, len: usize, path: &Path| {
        let up = camino::Utf8PathBuf::from_path_buf(path.to_path_buf()).unwrap();
        jbkmc::catch(|| -> Result<(), String> {
            let mut c = jubako::creator::ContentPackCreator::new(&up, jubako::PackId::from(1), jubako::VendorId::from(jbkmc::packs::VENDOR), Default::default(), jubako::creator::Compression::None).map_err(|e| e.to_string())?;
            for i in 0..n {
                c.add_content(Box::new(std::io::Cursor::new(content(i, len))), jubako::creator::CompHint::No).map_err(|e| e.to_string())?;
            }
            c.finalize().map_err(|e| e.to_string())?;
            Ok(())
        })
    };
    let mut prebuilt: BTreeMap<(usize, usize), String> = BTreeMap::new();
    if let Some(m) = &mm {
        let r: Vec<((usize, usize), String)> = jobs
            .par_iter()
            .map(|&(n, len)| ((n, len), format!("{:?}", build(n, len, &dir.path().join(format!("s{n}_{len}.jbkc"))))))
            .collect();
        prebuilt.extend(r);
        m.set(-1);
    }
    let results: Vec<Vec<Out>> = jobs
        .par_iter()
        .map(|&(n, len)| {
            let mut outs = vec![];
            let path = dir.path().join(format!("s{n}_{len}.jbkc"));
            let built = if mm.is_some() {
                match prebuilt.get(&(n, len)) {
                    Some(s) if s == "Ok(Ok(()))" => Ok(Ok(())),
                    other => Ok(Err(format!("{other:?}"))),
                }
            } else {
                build(n, len, &path)
            };
            if !matches!(built, Ok(Ok(()))) {
                outs.push(Out { id: format!("{n}/{len}"), outcome: "machinery".into(), violation: Some(("MACHINERY".into(), format!("cannot create the pack n={n} len={len}: {built:?}"), json!({}))) });
                return outs;
            }
            let pristine = std::fs::read(&path).unwrap();
            let map = match indep::content_pack(&pristine, 0) {
                Ok(m) => m,
                Err(e) => {
                    outs.push(Out { id: format!("{n}/{len}"), outcome: "machinery".into(), violation: Some(("MACHINERY".into(), format!("independent decoder rejects the pristine pack n={n}: {e}"), json!({}))) });
                    return outs;
                }
            };
            let info_pos = u64::from_le_bytes(pristine[64..72].try_into().unwrap()) as usize;
            let cl = &map.clusters[0];
            let blobs = cl.bounds.len() - 1;
            let tail_size = 4 + 2 * cl.offset_size + blobs.saturating_sub(1) * cl.offset_size;
            let alts: Vec<(&str, usize, u8)> = vec![
                ("tail-mid", cl.tail_offset + tail_size / 2, 0x10),
                ("tail-first", cl.tail_offset, 0x01),
                ("info-first", info_pos, 0x01),
                ("info-last", info_pos + 4 * n - 1, 0x80),
            ];
            let picks: Vec<usize> = {
                let mut v = vec![0, n / 2, n - 1];
                v.dedup();
                v
            };
            for (name, at, mask) in alts {
                let case = json!({"engine":"faultmc","sub": if prop == "C06" { "c06sweep" } else { "c05sweep" },"n":n,"len":len,"alt":name,"at":at});
                if let Some(r) = &replay {
                    if r["alt"] != json!(name) {
                        continue;
                    }
                }
                let mut bytes = pristine.clone();
                bytes[at] ^= mask;
                std::fs::write(&path, &bytes).unwrap();
                let case = if mm.is_some() { let mut c = case.clone(); c["refused_mapping"] = json!(-1); c } else { case };
                let _wd = jbkmc::watchdog::guard(|| case.to_string());
                let got = jbkmc::catch(|| -> Vec<Result<Vec<u8>, String>> {
                    let pack = match jubako::FileSource::open(&path).map_err(|e| e.to_string()).and_then(|f| jubako::reader::ContentPack::new(jubako::Reader::from(f)).map_err(|e| jerr(e).to_string())) {
                        Ok(p) => p,
                        Err(e) => return vec![Err(e)],
                    };
                    let mut v: Vec<Result<Vec<u8>, String>> = picks
                        .iter()
                        .map(|&i| match pack.get_content(jubako::ContentIdx::from(i as u32)) {
                            Ok(Some(r)) => read_region(&r),
                            Ok(None) => Err("no such content".into()),
                            Err(e) => Err(jerr(e).to_string()),
                        })
                        .collect();
                    v.push(match pack.check() {
                        Ok(true) => Ok(vec![1]),
                        Ok(false) => Ok(vec![0]),
                        Err(e) => Err(jerr(e).to_string()),
                    });
                    v
                });
                let id = case.to_string();
                match got {
                    Err(p) => outs.push(Out { id, outcome: "panic".into(), violation: if prop == "C06" { Some((format!("C06 panic {}", jbkmc::panic_site(&p)), format!("n={n} len={len} {name}: {p}"), case)) } else { None } }),
                    Ok(v) => {
                        let check_true = matches!(v.last(), Some(Ok(c)) if c == &vec![1u8]);
                        let mut bad = None;
                        if v.len() == picks.len() + 1 {
                            for (k, &i) in picks.iter().enumerate() {
                                if let Ok(b) = &v[k] {
                                    let want = content(i, len);
                                    if b.len() != want.len() {
                                        bad = Some(format!("content {i} reads {} bytes, {} were written", b.len(), want.len()));
                                    } else if b != &want && check_true {
                                        bad = Some(format!("content {i} reads other bytes and check() is true"));
                                    }
                                }
                            }
                        }
                        let all_err = v.iter().take(picks.len()).all(|r| r.is_err());
                        let outcome = if bad.is_some() { "silently different" } else if all_err { "error" } else { "as written or error" };
                        outs.push(Out {
                            id,
                            outcome: outcome.into(),
                            violation: match bad {
                                Some(w) if prop == "C05" => Some(("C05 silently different: content of a pack with a damaged cluster tail / content-info table".into(), format!("n={n} len={len} {name} (byte {at}): {w}"), case)),
                                _ => None,
                            },
                        });
                    }
                }
            }
            let _ = std::fs::remove_file(&path);
            outs
        })
        .collect();
    if let Some(m) = &mm {
        let (asked, refused) = m.stats();
        m.set(0);
        rep.extra.insert("file_mappings_asked_for".into(), json!(asked));
        rep.extra.insert("file_mappings_refused".into(), json!(refused));
        if refused == 0 && args.replay.is_none() {
            rep.machinery_errors.push("no file mapping was refused: the mmapfail shim is not in the process, or the reader no longer maps these blocks".into());
        }
    }
    for o in results.into_iter().flatten() {
        rep.case(Some(&o.id), &o.outcome);
        if rep.samples.len() < 3 && o.outcome != "machinery" {
            rep.sample(serde_json::from_str(&o.id).unwrap_or(json!(o.id)));
        }
        if let Some((k, w, c)) = o.violation {
            if k.as_str() == "MACHINERY" {
                rep.machinery_errors.push(w);
            } else {
                rep.violation(&k, &w, c);
            }
        }
    }
    rep.finish(args)
}

// ------------------------------------------------------------------ parent

fn path_class(p: &str) -> String {
    // "/indexes/all/entries/3/values/p1" -> "indexes/*/entries/*/values/*"
    let parts: Vec<&str> = p.split('/').filter(|x| !x.is_empty()).collect();
    let mut out = vec![];
    for (i, part) in parts.iter().enumerate() {
        let keep = matches!(*part, "indexes" | "entries" | "values" | "contents" | "manifest" | "packs" | "directory" | "variant" | "size" | "blake3" | "read" | "count" | "offset" | "store" | "header" | "pack_count" | "open" | "check" | "uuid" | "location" | "kind" | "id" | "free_data" | "content_count" | "packs_free_data" | "group" | "free_data_id" | "check_info_pos" | "#len" | "vendor" | "missing" | "bytes" | "file_packs");
        if keep && !(i > 0 && parts[i - 1] == "values") {
            out.push(part.to_string());
        } else {
            out.push("*".into());
        }
    }
    out.join("/")
}

fn main() {
    jbkmc::install_quiet_panic_hook();
    let args = Args::parse();
    if args.flag("--worker") {
        worker(&args);
    }
    if args.sub == "c05giant" {
        giant(&args);
    }
    if args.sub == "c05sweep" {
        sweep(&args, "C05");
    }
    if args.sub == "c06sweep" {
        sweep(&args, "C06");
    }
    let (prop, rule) = match args.sub.as_str() {
        "c04" => ("C04", "every byte inside a pack's checked range or check block (classified by the independent decoder) x xor masks {01,80,ff}, every aligned 4/16-byte run zeroed, every covered byte inside a CRC block flipped WITH the block CRC recomputed (block map from the independent Python decoder: only the blake3 can notice), every 13th (thorough: 3rd) covered byte of the file-backed / mmapped packs altered in place AFTER the handles were opened and checked once, (thorough) pairs of covered positions on the small containers; oracle: Pack::check of that pack, ContainerPack::check of the file and Container::check each answer false or an error; non-trivial = the altered byte is covered by a checksum; distinct by (container,file,alteration)"),
        "c05" => ("C05", "every byte of every file x {xor 01, xor 80, xor ff, set 00, set ff}, zero/ff-filled ranges of length {4,64} (thorough {2,4,8,64} at every start, plus pairs inside 64-byte blocks), zeroed ranges of 5..64 bytes ending exactly at the end of every CRC block (data tail and CRC zeroed together) and starting at its start; oracle: node-by-node comparison of the full logical dump with the pristine dump (error nodes accepted; content hashes may differ only when check() is not true)"),
        "c06" => ("C06", "every truncation length, every position x {01,80,ff}, every single-bit flip in every pack header, header copy and check block (and the first 128 / last 64 bytes of every file), zeroed ranges {4,64,4096}, appended garbage {1,63,64,65,4096} x 4 kinds, 12 non-jubako inputs, files cut at the front, companion files removed; each case runs the whole reader (open, dump of every entry/value/content, three checks) in a worker process; oracle: no panic, no abort/signal, no hang"),
        other => {
            eprintln!("unknown subcommand {other}");
            std::process::exit(2)
        }
    };
    let mut rep = Report::new("faultmc", prop, rule);
    let base = jbkmc::scratch_dir("faultbase");
    let set_desc = match build_set(base.path(), &args.sub, args.thorough()) {
        Ok(s) => s,
        Err(e) => {
            rep.machinery_errors.push(format!("cannot build the container set: {e}"));
            rep.finish(&args);
        }
    };
    // pristine dumps + pristine checks (first sentence of C04)
    for d in &set_desc {
        let l = shape(&d.shape);
        let mut opts = opts_for(&l);
        opts.with_manifest = true;
        let entry = base.path().join(&d.name).join(&d.files[0]);
        let mut dump = dump_container(&entry, &opts);
        dump["file_packs"] = dump_file_packs(&base.path().join(&d.name), &d.files);
        let diffs = compare_with_model(&model_dump(&l), &dump);
        if !diffs.is_empty() {
            rep.violation(
                &format!("{prop} pristine container does not read as the model"),
                &format!("{}: {} = {} (model {})", d.name, diffs[0].path, diffs[0].altered, diffs[0].pristine),
                json!({"engine": "faultmc", "sub": args.sub, "pristine": d.name}),
            );
        }
        if prop == "C04" {
            for f in &d.files {
                let r = jubako::tools::open_pack(base.path().join(&d.name).join(f)).and_then(|c| c.check());
                rep.case(Some(&format!("pristine:{}:{f}", d.name)), "pristine");
                if !matches!(r, Ok(true)) {
                    rep.violation("C04 pristine pack does not verify", &format!("{}:{f}: {:?}", d.name, r.map_err(|e| e.to_string())), json!({"engine":"faultmc","sub":"c04","pristine": d.name}));
                }
            }
        }
        std::fs::write(base.path().join(format!("{}.dump.json", d.name)), dump.to_string()).unwrap();
    }
    let set = load_all(base.path());
    let mut cases = enumerate(&args.sub, args.thorough(), &set);
    let replay_case: Option<J> = args.replay.as_ref().map(|p| {
        let j: J = serde_json::from_str(&std::fs::read_to_string(p).expect("replay file")).unwrap();
        if j.get("case").is_some() { j["case"].clone() } else { j }
    });
    let case_json = |c: &Case| json!({"engine": "faultmc", "sub": args.sub, "container": set[c.container].desc.name, "file": set[c.container].desc.files[c.file], "alt": c.alt.json()});
    let mut selected: Vec<usize> = (0..cases.len()).collect();
    if let Some(rc) = &replay_case {
        selected.retain(|&i| {
            let j = case_json(&cases[i]);
            j["container"] == rc["container"] && j["file"] == rc["file"] && j["alt"] == rc["alt"]
        });
        if selected.is_empty() {
            eprintln!("replay case not in this tier's enumeration");
            std::process::exit(2);
        }
    }
    if let Some(n) = args.opt("--limit") {
        cases.truncate(n.parse().unwrap());
        selected.retain(|&i| i < cases.len());
    }
    let run = IsolatedRun {
        exe: std::env::current_exe().unwrap(),
        base_args: vec![args.sub.clone(), "--tier".into(), args.tier.clone(), "--base".into(), base.path().to_string_lossy().to_string()],
        env: vec![("VERIF_SEED".into(), args.seed.to_string())],
        per_case_timeout: Duration::from_secs(10),
        confirm_timeout: Duration::from_secs(30),
    };
    let fates: Mutex<Vec<Option<Fate>>> = Mutex::new(vec![None; cases.len()]);
    if replay_case.is_some() {
        for &i in &selected {
            let f = isolate::run_single(&run, i, Duration::from_secs(30));
            println!("replay {}: {:?}", case_json(&cases[i]), f);
            fates.lock().unwrap()[i] = Some(f);
        }
    } else {
        let workers = std::thread::available_parallelism().map(|x| x.get()).unwrap_or(8);
        isolate::run_all(&run, cases.len(), workers, &|i, f| {
            if std::env::var("JBKMC_VERBOSE").is_ok() {
                match &f {
                    Fate::Done(v) if v["ms"].as_u64().unwrap_or(0) < 200 => {}
                    Fate::Done(v) => eprintln!("case {i}: slow {} ms", v["ms"]),
                    _ => eprintln!("case {i}: {f:?} {}", case_json(&cases[i])),
                }
            }
            fates.lock().unwrap()[i] = Some(f);
        });
    }
    let fates = fates.into_inner().unwrap();
    let skipped = isolate::SKIPPED.load(std::sync::atomic::Ordering::Relaxed);
    if skipped > 0 {
        rep.cap(&format!("{skipped} cases were not run: the run was cut short after {} hanging cases", isolate::HANGS.load(std::sync::atomic::Ordering::Relaxed)));
    }
    // ---- oracles
    let mut by_region: BTreeMap<String, u64> = BTreeMap::new();
    for (i, fate) in fates.iter().enumerate() {
        let c = &cases[i];
        let cj = case_json(c);
        let fate = match fate {
            Some(f) => f,
            None => {
                if replay_case.is_none() && skipped == 0 {
                    rep.machinery_errors.push(format!("case {i} was never run"));
                }
                continue;
            }
        };
        let id = cj.to_string();
        match fate {
            Fate::Died(how) => {
                rep.case(Some(&id), &format!("died:{how}"));
                if prop == "C06" {
                    let comp = set[c.container].desc.name.clone();
                    let kind = if comp.contains("none") { "uncompressed" } else { "compressed" };
                    rep.violation(&format!("C06 process death ({how}) reading a damaged {kind} container"), &format!("the reader process died ({how})"), cj);
                } else {
                    rep.note(&format!("reader process died ({how}) on a damaged file: C06's business, counted as 'error' here"));
                }
            }
            Fate::Hung => {
                rep.case(Some(&id), "hung");
                if prop == "C06" {
                    rep.violation("C06 hang reading a damaged container", "no answer within 10 s, confirmed alone with 30 s (typical case: a few ms)", cj);
                } else {
                    rep.note("reader hung on a damaged file: C06's business, counted as 'error' here");
                }
            }
            Fate::Done(v) => {
                let region = v["region"].as_str().unwrap_or("n/a").to_string();
                *by_region.entry(region.clone()).or_insert(0) += 1;
                let panics: Vec<String> = v["panics"].as_array().map(|a| a.iter().map(|x| x.as_str().unwrap_or("").to_string()).collect()).unwrap_or_default();
                match prop {
                    "C04" => {
                        if let Some(e) = v["error"].as_str() {
                            if e.starts_with("MACHINERY") {
                                rep.machinery_errors.push(format!("{e} in {cj}"));
                            }
                        }
                        // a pack given twice to concat lies twice in the file and the readers keep one
                        // copy per identity: the bytes of the shadowed copy are covered by no check the
                        // property names. In the container built for that, only the content pack
                        // (single, last in the file) is swept.
                        let exempt = region.contains("exempt") || (set[c.container].desc.name.ends_with("-dup") && !region.starts_with("content:"));
                        let chk = &v["check"];
                        let mut bad = vec![];
                        for level in ["pack", "file", "container"] {
                            if chk[level].as_str() == Some("true") {
                                bad.push(level);
                            }
                        }
                        let outcome = format!("{}:{}", region, if bad.is_empty() { "detected" } else { "passes" });
                        rep.case(if exempt { None } else { Some(&id) }, &outcome);
                        if !exempt && !bad.is_empty() {
                            rep.violation(
                                &format!("C04 check passes after altering {region} ({})", bad.join("+")),
                                &format!("{}: checks answering true: {:?}; all: {}", cj, bad, chk),
                                cj,
                            );
                        }
                    }
                    "C05" => {
                        let check_true = v["check"]["container"].as_str() == Some("true");
                        let mut verdict = "same-or-error";
                        if let Some(diffs) = v["diffs"].as_array() {
                            for d in diffs {
                                let p = d["path"].as_str().unwrap_or("");
                                if p.ends_with("/check") || p == "/check" {
                                    continue;
                                }
                                let content_bytes = p.starts_with("/contents/") && (p.ends_with("/blake3") || p.ends_with("/bytes"));
                                if content_bytes {
                                    if check_true {
                                        verdict = "violation";
                                        rep.violation("C05 content bytes differ while the integrity check passes", &format!("{p}: {} -> {}", d["pristine"], d["altered"]), cj.clone());
                                    } else if verdict == "same-or-error" {
                                        verdict = "content-bytes-differ(check fails)";
                                    }
                                    continue;
                                }
                                verdict = "violation";
                                rep.violation(
                                    &format!("C05 silently different: {} (altering {region})", path_class(p)),
                                    &format!("{p}: pristine {} altered {}", d["pristine"], d["altered"]),
                                    cj.clone(),
                                );
                            }
                        }
                        rep.case(Some(&id), &format!("{}:{verdict}", region.split(':').next().unwrap_or("")));
                    }
                    _ => {
                        rep.case(Some(&id), if panics.is_empty() { "value-or-error" } else { "panic" });
                        for p in &panics {
                            rep.violation(&format!("C06 panic {}", jbkmc::panic_site(p)), p, cj.clone());
                        }
                    }
                }
                if prop != "C06" && !panics.is_empty() {
                    rep.note("reader panicked on a damaged file (caught): C06's business, counted as 'error' here");
                }
            }
        }
        if i % 5000 == 0 {
            rep.sample(case_json(c));
        }
    }
    rep.extra.insert("containers".into(), json!(set_desc.iter().map(|d| d.name.clone()).collect::<Vec<_>>()));
    rep.extra.insert("cases_by_region".into(), json!(by_region));
    rep.extra.insert("profile".into(), json!(if cfg!(debug_assertions) { "debug" } else { "release" }));
    rep.finish(&args)
}
