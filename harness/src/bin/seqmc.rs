//! seqmc — bounded-exhaustive insertion sequences on the real content-pack creator against a
//! reference model (C01), with the independent byte decoder as observer of how each content is
//! stored (C16).

use jbkmc::gen::*;
use jbkmc::indep;
use jbkmc::packs::*;
use jbkmc::{Args, Report};
use rayon::prelude::*;
use serde_json::{json, Value as J};
use std::collections::{BTreeSet, HashMap};

struct CaseResult {
    id: String,
    nontrivial: bool,
    outcome: String,
    violations: Vec<(String, String)>,
    states: Vec<String>,
    transitions: Vec<String>,
    conformed: bool,
    stats: Stats,
}

#[derive(Default, Clone)]
struct Stats {
    clusters: usize,
    mixed: bool,
    multi: bool,
    widths: BTreeSet<usize>,
}

fn width(n: u64) -> usize {
    let mut v = n;
    let mut b = 0;
    while v > 0 {
        v >>= 8;
        b += 1;
    }
    b.max(1)
}

/// Run one scenario: create, compare with the model, read back (C01) and/or decode bytes (C16).
fn run_scenario(sc: &Scenario, do_c01: bool, do_c16: bool) -> CaseResult {
    let id = sc.json().to_string();
    let _wd = jbkmc::watchdog::guard(|| id.clone());
    let prop = if do_c01 { "C01" } else { "C16" };
    let mut res = CaseResult {
        id,
        nontrivial: false,
        outcome: "ok".into(),
        violations: vec![],
        states: vec![],
        transitions: vec![],
        conformed: false,
        stats: Stats::default(),
    };
    let dir = jbkmc::scratch_dir("seq");
    let items = sc.all_items();
    // ---- reference model
    let mut model_contents: Vec<Vec<u8>> = vec![]; // stored contents by index
    let mut expect_addr: Vec<(u16, u32)> = vec![];
    let mut first_occurrence: Vec<bool> = vec![];
    let mut dedup: HashMap<Vec<u8>, u32> = HashMap::new();
    let mut abs = AbsState::default();
    let mut decided = true;
    let mut diverged: Option<String> = None;
    let mut placement: Vec<Option<(u32, usize)>> = vec![];
    for it in &items {
        let bytes = it.bytes();
        let dup = if sc.cached { dedup.get(&bytes).copied() } else { None };
        match dup {
            Some(idx) => {
                expect_addr.push((1, idx));
                first_occurrence.push(false);
            }
            None => {
                let idx = model_contents.len() as u32;
                if sc.cached {
                    dedup.insert(bytes.clone(), idx);
                }
                expect_addr.push((1, idx));
                first_occurrence.push(true);
                model_contents.push(bytes);
            }
        }
    }
    // ---- the real creator
    let created = match create(sc, dir.path()) {
        Ok(c) => c,
        Err(e) => {
            res.outcome = "creation-failed".into();
            res.violations.push((
                format!("{prop} creation failed {}", jbkmc::panic_site(e.trim_start_matches("panic "))),
                format!("creation failed: {e}"),
            ));
            return res;
        }
    };
    let file = match std::fs::read(match sc.packaging {
        Packaging::TwoFiles | Packaging::NoConcat => created.path.with_extension("jbkc"),
        _ => created.path.clone(),
    }) {
        Ok(f) => f,
        Err(e) => {
            res.violations.push((format!("{prop} output file unreadable"), format!("{e}")));
            return res;
        }
    };
    let located = indep::packs_in_file(&file).and_then(|packs| {
        packs
            .into_iter()
            .find(|p| p.head.kind == b'c')
            .ok_or_else(|| "no content pack in the file".to_string())
    });
    let decoded = located.and_then(|l| indep::content_pack(&file, l.offset));
    // ---- the abstract creator model. Which slot a content goes to is dictated by the property
    // for explicit hints (and for packs without compression); for CompHint::Detect the property
    // leaves it open, so the model takes the decision the implementation made (read from the
    // bytes by the independent decoder) and only checks the cluster structure that follows from it
    let mut decisions: Vec<Option<bool>> = vec![];
    for (k, it) in items.iter().enumerate() {
        if !first_occurrence[k] {
            decisions.push(None);
            continue;
        }
        let d = if sc.comp == Comp::None {
            Some(false)
        } else {
            match it.hint {
                Hint::Yes => Some(true),
                Hint::No => Some(false),
                Hint::Detect => match &decoded {
                    Ok(map) if map.content_count == model_contents.len() => {
                        let (cl, _) = map.contents[expect_addr[k].1 as usize];
                        Some(map.clusters[cl].compression != 0)
                    }
                    _ => None,
                },
            }
        };
        if d.is_none() {
            decided = false;
        }
        decisions.push(d);
    }
    res.states.push(abs.key());
    let mut model_new: Vec<(u32, bool)> = vec![];
    if decided {
        let mut seen = BTreeSet::new();
        for (k, it) in items.iter().enumerate() {
            match decisions[k] {
                Some(c) if first_occurrence[k] => {
                    let before = abs.key();
                    let len = it.len as u64;
                    let (cl, blob) = abs.add(len, c);
                    if seen.insert(cl) {
                        model_new.push((cl, c));
                    }
                    placement.push(Some((cl, blob)));
                    res.transitions.push(format!("{before} --add({},{})--> {}", len, c, abs.key()));
                    res.states.push(abs.key());
                }
                _ => placement.push(None),
            }
        }
        abs.finalize();
    }
    // conformance of the abstract model with the implementation (Progress callbacks)
    if decided {
        if model_new != created.new_clusters {
            // the property's own oracles run first: a placement that contradicts an explicit hint
            // is a violation, not a modelling problem; only a divergence they cannot explain is
            // reported as machinery (see the end of this function)
            diverged = Some(format!("model opens {:?}, implementation opened {:?}", model_new, created.new_clusters));
            decided = false;
        }
        let mut w = created.written.clone();
        w.sort();
        let mut m: Vec<u32> = abs.closed.iter().map(|c| c.0).collect();
        m.sort();
        if w != m && diverged.is_none() {
            diverged = Some(format!("model closes {:?}, implementation wrote {:?}", m, w));
            decided = false;
        }
        res.conformed = diverged.is_none();
        res.stats.clusters = abs.closed.len();
        res.stats.multi = abs.closed.len() >= 2;
        res.stats.mixed = abs.closed.iter().any(|c| c.1) && abs.closed.iter().any(|c| !c.1);
    }
    // addresses returned
    if created.addrs != expect_addr {
        let k = (0..expect_addr.len()).find(|&k| created.addrs.get(k) != Some(&expect_addr[k])).unwrap_or(0);
        res.violations.push((
            format!("{prop} address returned by insertion"),
            format!("insertion #{k} returned {:?}, the model says {:?}", created.addrs.get(k), expect_addr[k]),
        ));
    }
    if do_c01 {
        let r = jbkmc::catch(|| -> Vec<(String, String)> {
            let mut v = vec![];
            let opened = match open(&created.path, sc.packaging) {
                Ok(o) => o,
                Err(e) => return vec![("C01 created pack does not open".into(), e)],
            };
            match opened.content_count() {
                Ok(n) if n as usize == model_contents.len() => {}
                Ok(n) => v.push(("C01 content count".into(), format!("pack reports {n} contents, {} were inserted", model_contents.len()))),
                Err(e) => v.push(("C01 content count unreadable".into(), e)),
            }
            for (k, (p, c)) in created.addrs.iter().enumerate() {
                let want = &model_contents[expect_addr[k].1 as usize];
                match opened.get(*p, *c) {
                    Ok(Got::Bytes(b)) => {
                        if &b != want {
                            let at = b.iter().zip(want.iter()).position(|(x, y)| x != y).unwrap_or(b.len().min(want.len()));
                            v.push((
                                "C01 content bytes differ".into(),
                                format!("item #{k} ({}): read {} bytes, wrote {}; first difference at {at}", items[k].json(), b.len(), want.len()),
                            ));
                            break;
                        }
                    }
                    Ok(Got::NoSuchContent) => v.push(("C01 content not found at its address".into(), format!("item #{k} address ({p},{c}) answers no-such-content"))),
                    Ok(Got::NoSuchPack) => v.push(("C01 pack not found".into(), format!("item #{k} address ({p},{c})"))),
                    Ok(Got::Missing) => v.push(("C01 pack reported missing".into(), format!("item #{k} address ({p},{c})"))),
                    Err(e) => {
                        v.push((format!("C01 read error: {}", e.split_whitespace().take(5).collect::<Vec<_>>().join(" ")), format!("item #{k} ({}): {e}", items[k].json())));
                        break;
                    }
                }
            }
            let n = model_contents.len() as u32;
            for past in [n, n + 1, u32::MAX] {
                match opened.get(1, past) {
                    Ok(Got::NoSuchContent) => {}
                    Ok(Got::Bytes(_)) => v.push(("C01 address past the count returns bytes".into(), format!("address {past} with {n} contents"))),
                    Ok(_) => v.push(("C01 address past the count: wrong answer".into(), format!("address {past}"))),
                    Err(e) => v.push(("C01 address past the count returns an error".into(), format!("address {past} with {n} contents: {e}"))),
                }
            }
            if let Opened::Container(_) = &opened {
                match opened.get(7, 0) {
                    Ok(Got::NoSuchPack) => {}
                    Ok(_) => v.push(("C01 unknown pack id: wrong answer".into(), "pack 7".into())),
                    Err(e) => v.push(("C01 unknown pack id returns an error".into(), e)),
                }
            }
            match opened.check() {
                Ok(true) => {}
                Ok(false) => v.push(("C04 pristine pack does not verify".into(), "check() is false on a freshly created pack".into())),
                Err(e) => v.push(("C04 pristine pack check errs".into(), e)),
            }
            v
        });
        match r {
            Ok(v) => res.violations.extend(v),
            Err(p) => res.violations.push((format!("C01 reader panic {}", jbkmc::panic_site(&p)), p)),
        }
    }
    // ---- the bytes, through the independent decoder
    match decoded {
        Err(e) => res.violations.push((format!("{prop} independent decoder rejects the pack: {}", e.split(':').next().unwrap_or("")), e)),
        Ok(map) => {
            for c in &map.clusters {
                res.stats.widths.insert(c.offset_size);
            }
            if map.content_count != model_contents.len() {
                res.violations.push((
                    format!("{prop} stored content count"),
                    format!("the pack stores {} contents; {} distinct contents were inserted (cached={})", map.content_count, model_contents.len(), sc.cached),
                ));
            } else if do_c16 {
                for (k, it) in items.iter().enumerate() {
                    if !first_occurrence[k] {
                        continue;
                    }
                    let idx = expect_addr[k].1 as usize;
                    let (cl, blob) = map.contents[idx];
                    let c = &map.clusters[cl];
                    let want = &model_contents[idx];
                    let must_raw = sc.comp == Comp::None || it.hint == Hint::No;
                    let must_comp = sc.comp != Comp::None && it.hint == Hint::Yes;
                    if must_raw {
                        if c.compression != 0 {
                            res.violations.push(("C16 'do not compress' content stored in a compressed cluster".into(), format!("item #{k} {}: cluster {cl} has compression {}", it.json(), c.compression)));
                            continue;
                        }
                        let s = c.data_start + c.bounds[blob];
                        let e = c.data_start + c.bounds[blob + 1];
                        if e > file.len() || &file[s..e] != want.as_slice() {
                            res.violations.push(("C16 content not stored verbatim".into(), format!("item #{k} {}: bytes at [{s},{e}) differ from the content", it.json())));
                        }
                    } else if must_comp {
                        if c.compression != sc.comp.nibble() {
                            res.violations.push(("C16 'compress' content not stored with the pack's algorithm".into(), format!("item #{k} {}: cluster {cl} has compression {}, pack uses {}", it.json(), c.compression, sc.comp.nibble())));
                            continue;
                        }
                        match map.content_bytes(&file, idx) {
                            Ok(b) if &b == want => {}
                            Ok(_) => res.violations.push(("C16 compressed cluster does not decode to the content".into(), format!("item #{k} {}", it.json()))),
                            Err(e) => res.violations.push(("C16 compressed cluster does not decode".into(), format!("item #{k} {}: {e}", it.json()))),
                        }
                    }
                }
                // model placement vs bytes (cluster id and blob index)
                if decided {
                    for (k, pl) in placement.iter().enumerate() {
                        if let Some((cl, blob)) = pl {
                            let idx = expect_addr[k].1 as usize;
                            if map.contents[idx] != (*cl as usize, *blob) {
                                diverged = Some(format!("item #{k}: file says {:?}, model says {:?}", map.contents[idx], (cl, blob)));
                                break;
                            }
                        }
                    }
                }
            }
            if do_c16 && sc.cached {
                // unequal contents never share, equal contents share one address (one pass: the
                // first item seen with given bytes / with a given address is the witness)
                let mut by_bytes: HashMap<Vec<u8>, usize> = HashMap::new();
                let mut by_addr: HashMap<(u16, u32), usize> = HashMap::new();
                let mut reported = 0;
                for a in 0..items.len().min(created.addrs.len()) {
                    let bytes = items[a].bytes();
                    let addr = created.addrs[a];
                    let wb = *by_bytes.entry(bytes.clone()).or_insert(a);
                    let wa = *by_addr.entry(addr).or_insert(a);
                    if reported < 5 && wb != a && created.addrs[wb] != addr {
                        reported += 1;
                        res.violations.push(("C16 identical contents do not share one address".into(), format!("items #{wb} and #{a}: addresses {:?} {:?}", created.addrs[wb], addr)));
                    }
                    if reported < 5 && wa != a && items[wa].bytes() != bytes {
                        reported += 1;
                        res.violations.push(("C16 different contents share an address".into(), format!("items #{wa} and #{a}: addresses {:?} {:?}", created.addrs[wa], addr)));
                    }
                }
            }
        }
    }
    res.nontrivial = !items.is_empty();
    if let Some(d) = diverged {
        // How contents are split into clusters is not part of the property: when the abstract
        // creator model (written from the pinned code) does not predict it, the property's own
        // oracles above still decide; the trace just does not count for the state coverage.
        res.states.clear();
        res.transitions.clear();
        res.conformed = false;
        if res.violations.is_empty() {
            res.outcome = "ok (cluster splitting differs from the abstract model)".into();
            res.violations.push(("MODEL".into(), d));
            return res;
        }
    }
    if !res.violations.is_empty() {
        res.outcome = "violation".into();
    } else if !decided {
        res.outcome = "ok (detect near threshold: model undecided)".into();
    } else {
        res.outcome = format!(
            "ok clusters={}{}{}",
            res.stats.clusters.min(3),
            if res.stats.mixed { " mixed" } else { "" },
            if res.stats.widths.len() > 1 { " widths>1" } else { "" }
        );
    }
    res
}

struct Acc {
    states: BTreeSet<u64>,
    transitions: BTreeSet<u64>,
    conformed: u64,
    multi: u64,
    mixed: u64,
    widths: BTreeSet<usize>,
}

fn h(s: &str) -> u64 {
    let mut x = 0xcbf29ce484222325u64;
    for b in s.as_bytes() {
        x ^= *b as u64;
        x = x.wrapping_mul(0x100000001b3);
    }
    x
}

fn run_all(rep: &mut Report, acc: &mut Acc, scs: &[Scenario], c01: bool, c16: bool, engine_sub: &str) {
    for chunk in scs.chunks(2048) {
        let results: Vec<CaseResult> = chunk.par_iter().map(|s| run_scenario(s, c01, c16)).collect();
        for (sc, r) in chunk.iter().zip(results.into_iter()) {
            rep.case(if r.nontrivial { Some(&r.id) } else { None }, &r.outcome);
            if rep.samples.len() < 4 && (rep.samples.is_empty() || r.stats.multi) {
                rep.sample(sc.json());
            }
            for s in &r.states {
                rep.state_set.insert(h(s));
            }
            for t in &r.transitions {
                rep.transition_set.insert(h(t));
            }
            if r.conformed {
                acc.conformed += 1;
            }
            if r.stats.multi {
                acc.multi += 1;
            }
            if r.stats.mixed {
                acc.mixed += 1;
            }
            acc.widths.extend(r.stats.widths.iter());
            for (k, w) in r.violations {
                if k.starts_with("MACHINERY") {
                    rep.machinery_errors.push(format!("{k}: {w} in {}", sc.json()));
                    continue;
                }
                if k == "MODEL" {
                    if !rep.caps.iter().any(|c| c.starts_with("the abstract creator model")) {
                        rep.cap(&format!("the abstract creator model (cluster splitting of the pinned code) does not predict this implementation, e.g. {w} in {}: such traces are decided by the read-back / byte oracles only and do not count as states or transitions", sc.json()));
                    }
                    rep.note("trace outside the abstract creator model");
                    continue;
                }
                rep.violation(&k, &w, json!({"engine": "seqmc", "sub": engine_sub, "scenario": sc.json()}));
            }
        }
    }
}

fn symbols(lens: &[usize], srcs: &[Src]) -> Vec<Item> {
    let mut v = vec![];
    for &len in lens {
        for entropy in [Entropy::Low, Entropy::High] {
            for hint in [Hint::Yes, Hint::No, Hint::Detect] {
                for &src in srcs {
                    v.push(Item { len, entropy, hint, src, tag: 1 });
                }
            }
        }
    }
    v
}

fn retag(seq: &[Item]) -> Vec<Item> {
    // distinct payloads unless the sequence asks for a duplicate (tag 0 = duplicate of item 0)
    seq.iter()
        .enumerate()
        .map(|(i, it)| {
            let mut it = it.clone();
            if it.tag != 0 {
                it.tag = 100 + i as u64;
            } else {
                it.tag = 100;
                it.len = seq[0].len;
                it.entropy = seq[0].entropy;
            }
            it
        })
        .collect()
}

const MIB4: usize = 4 * 1024 * 1024;

fn configs(thorough: bool, packagings: &[Packaging]) -> Vec<(Comp, bool, Packaging)> {
    let mut comps = vec![Comp::None, Comp::Lz4(3), Comp::Lzma(1), Comp::Zstd(5)];
    if thorough {
        comps.extend([Comp::Lz4(0), Comp::Lz4(15), Comp::Lzma(0), Comp::Lzma(6), Comp::Zstd(-22), Comp::Zstd(1), Comp::Zstd(22)]);
    }
    let mut v = vec![];
    for c in comps {
        for cached in [false, true] {
            for &p in packagings {
                v.push((c, cached, p));
            }
        }
    }
    v
}

fn packagings() -> Vec<Packaging> {
    vec![Packaging::Bare, Packaging::OneFile, Packaging::TwoFiles, Packaging::NoConcat]
}

fn c01(args: &Args) -> ! {
    let mut rep = Report::new(
        "seqmc",
        "C01",
        "every insertion sequence up to the stated depth over the symbol alphabet (length in boundary set x entropy x hint x source kind, plus 'duplicate of the first item') from every pre-state (empty; raw/compressed slot holding 4093..4095 blobs; slots filled to a width/4 MiB boundary) for every configuration (compression x adder x packaging); every trace is executed on the real creator and the abstract creator model (slots, cluster ids) is checked against the Progress callbacks; non-trivial = at least one content; distinct by canonical scenario",
    );
    let mut acc = Acc { states: BTreeSet::new(), transitions: BTreeSet::new(), conformed: 0, multi: 0, mixed: 0, widths: BTreeSet::new() };
    if let Some(p) = &args.replay {
        let j: J = serde_json::from_str(&std::fs::read_to_string(p).expect("replay file")).unwrap();
        let case = if j.get("case").is_some() { &j["case"] } else { &j };
        let sc = Scenario::from_json(&case["scenario"]);
        run_all(&mut rep, &mut acc, &[sc], true, false, "c01");
        for (k, v) in &rep.violations {
            println!("replay: {k}: {}", v.0);
        }
        finish(rep, acc, args);
    }
    let t = args.thorough();
    let all_src = [Src::Memory, Src::FileWhole, Src::FileRange];
    let lens_small = [0usize, 1, 255, 256, 65_535, 65_536];
    let full = symbols(&lens_small, &all_src);
    let mut reduced = symbols(&[0, 1, 65_536], &[Src::Memory]);
    reduced.push(Item { len: 0, entropy: Entropy::Low, hint: Hint::Detect, src: Src::Memory, tag: 0 }); // duplicate of item 0
    let mut scs: Vec<Scenario> = vec![];
    let pk = packagings();
    for (comp, cached, packaging) in configs(t, &pk) {
        // depth 0 and 1 over the full alphabet
        scs.push(Scenario { comp, cached, packaging, pre: Pre::none(), items: vec![] });
        for a in &full {
            scs.push(Scenario { comp, cached, packaging, pre: Pre::none(), items: retag(&[a.clone()]) });
        }
        // depth 2
        let second: &Vec<Item> = if t && packaging == Packaging::Bare { &full } else { &reduced };
        for a in &full {
            if packaging != Packaging::Bare && a.src != Src::Memory && !t {
                continue;
            }
            for b in second {
                scs.push(Scenario { comp, cached, packaging, pre: Pre::none(), items: retag(&[a.clone(), b.clone()]) });
            }
        }
        // depth 3 over the reduced alphabet
        if packaging == Packaging::Bare && (t || matches!(comp, Comp::None | Comp::Zstd(5))) {
            for a in &reduced[..reduced.len() - 1] {
                for b in &reduced {
                    for c in &reduced {
                        scs.push(Scenario { comp, cached, packaging, pre: Pre::none(), items: retag(&[a.clone(), b.clone(), c.clone()]) });
                    }
                }
            }
        }
    }
    // pre-states (bare packs, default levels; OneFile for one compression)
    let mut pres = vec![];
    for n in [4093usize, 4094, 4095] {
        pres.push(Pre { raw_blobs: n, comp_blobs: 0, comp_bytes: 0, raw_bytes: 0 });
        pres.push(Pre { raw_blobs: 0, comp_blobs: n, comp_bytes: 0, raw_bytes: 0 });
    }
    pres.push(Pre { raw_blobs: 4094, comp_blobs: 4094, comp_bytes: 0, raw_bytes: 0 });
    for b in [254usize, 255, 65_534, 65_535] {
        pres.push(Pre { raw_blobs: 0, comp_blobs: 0, comp_bytes: 0, raw_bytes: b });
        pres.push(Pre { raw_blobs: 0, comp_blobs: 0, comp_bytes: b, raw_bytes: 0 });
    }
    let follow = symbols(&[0, 1, 2], &[Src::Memory]);
    for (comp, cached, packaging) in configs(false, &[Packaging::Bare, Packaging::OneFile]) {
        if packaging == Packaging::OneFile && comp != Comp::Zstd(5) {
            continue;
        }
        for pre in &pres {
            for a in &follow {
                scs.push(Scenario { comp, cached, packaging, pre: pre.clone(), items: retag(&[a.clone()]) });
                if a.entropy == Entropy::Low {
                    for b in &follow {
                        if b.entropy == Entropy::Low && (t || b.hint == a.hint) {
                            scs.push(Scenario { comp, cached, packaging, pre: pre.clone(), items: retag(&[a.clone(), b.clone()]) });
                        }
                    }
                }
            }
        }
    }
    // a content handed over as a file that opens a new cluster right after a full one was written
    for comp in [Comp::None, Comp::Zstd(5)] {
        for pre in [Pre { raw_blobs: 4095, comp_blobs: 0, comp_bytes: 0, raw_bytes: 0 }, Pre { raw_blobs: 4094, comp_blobs: 0, comp_bytes: 0, raw_bytes: 0 }, Pre { raw_blobs: 0, comp_blobs: 4095, comp_bytes: 0, raw_bytes: 0 }] {
            for src in [Src::FileWhole, Src::FileRange] {
                for hint in [Hint::No, Hint::Yes] {
                    let f = Item { len: 3000, entropy: Entropy::Low, hint, src, tag: 61 };
                    let m = Item { len: 7, entropy: Entropy::Low, hint, src: Src::Memory, tag: 62 };
                    scs.push(Scenario { comp, cached: false, packaging: Packaging::Bare, pre: pre.clone(), items: vec![f.clone()] });
                    scs.push(Scenario { comp, cached: false, packaging: Packaging::Bare, pre: pre.clone(), items: vec![m.clone(), f.clone()] });
                    scs.push(Scenario { comp, cached: false, packaging: Packaging::Bare, pre: pre.clone(), items: vec![f, m] });
                }
            }
        }
    }
    // the 4 MiB split rule of compressed clusters (and of the cached adder's in-memory path)
    let mib_lens: Vec<usize> = if t { vec![MIB4 - 1, MIB4, MIB4 + 1] } else { vec![MIB4 - 1, MIB4] };
    for comp in [Comp::None, Comp::Zstd(5), Comp::Lz4(3)] {
        for cached in [false, true] {
            for &l in &mib_lens {
                for hint in [Hint::Yes, Hint::No] {
                    for src in [Src::Memory, Src::FileRange] {
                        let big = Item { len: l, entropy: Entropy::Low, hint, src, tag: 1 };
                        for small in [0usize, 1, 2] {
                            let s = Item { len: small, entropy: Entropy::Low, hint, src: Src::Memory, tag: 2 };
                            scs.push(Scenario { comp, cached, packaging: Packaging::Bare, pre: Pre::none(), items: vec![s.clone(), big.clone(), s.clone()] });
                        }
                    }
                }
            }
        }
    }
    if t {
        // compressed slot filled to 4 MiB - 2, then every follow-up; raw slot at 2^24-1; 16 MiB+1 content
        for comp in [Comp::Zstd(5), Comp::Lz4(3), Comp::Lzma(0)] {
            for a in &follow {
                scs.push(Scenario { comp, cached: false, packaging: Packaging::Bare, pre: Pre { raw_blobs: 0, comp_blobs: 0, comp_bytes: MIB4 - 2, raw_bytes: 0 }, items: retag(&[a.clone()]) });
            }
        }
        for a in &follow {
            scs.push(Scenario { comp: Comp::Zstd(5), cached: false, packaging: Packaging::Bare, pre: Pre { raw_blobs: 0, comp_blobs: 0, comp_bytes: 0, raw_bytes: (1 << 24) - 1 }, items: retag(&[a.clone()]) });
        }
        for comp in [Comp::None, Comp::Zstd(5)] {
            for hint in [Hint::Yes, Hint::No, Hint::Detect] {
                scs.push(Scenario { comp, cached: true, packaging: Packaging::OneFile, pre: Pre::none(), items: vec![Item { len: 4 * MIB4 + 1, entropy: Entropy::Low, hint, src: Src::FileRange, tag: 5 }, Item { len: 3, entropy: Entropy::Low, hint, src: Src::Memory, tag: 6 }] });
            }
        }
    }
    // single contents above the 4 MiB cluster size: compressible (the decoded cluster is above
    // 4 MiB) and incompressible (the stored cluster is above 4 MiB), read back from the file
    for comp in [Comp::Lz4(3), Comp::Zstd(5)] {
        for (len, entropy) in [(MIB4 + 1, Entropy::Low), (6 * 1024 * 1024 + 123, Entropy::Low), (6 * 1024 * 1024 + 123, Entropy::High)] {
            let small = Item { len: 3000, entropy: Entropy::Low, hint: Hint::Yes, src: Src::Memory, tag: 51 };
            let big = Item { len, entropy, hint: Hint::Yes, src: Src::Memory, tag: 52 };
            scs.push(Scenario { comp, cached: false, packaging: Packaging::Bare, pre: Pre::none(), items: vec![small.clone(), big, small] });
        }
    }
    {
        // one content of 128 MiB in a compressed cluster
        scs.push(Scenario { comp: Comp::Zstd(5), cached: false, packaging: Packaging::Bare, pre: Pre::none(), items: vec![Item { len: 1 << 27, entropy: Entropy::Low, hint: Hint::Yes, src: Src::Memory, tag: 53 }] });
    }
    // stored size around the plain size (read back through the reader): 400 incompressible bytes +
    // a run of 0..48 bytes, hint Yes
    for comp in [Comp::Lz4(3), Comp::Lzma(1), Comp::Zstd(5)] {
        for tail in 0..=48usize {
            scs.push(Scenario { comp, cached: false, packaging: Packaging::Bare, pre: Pre::none(), items: vec![Item { len: 400 + tail, entropy: Entropy::Tail, hint: Hint::Yes, src: Src::Memory, tag: 40 }] });
        }
    }
    if !jbkmc::shard::run_children(args, &mut rep) {
        let scs = jbkmc::shard::select(args, scs);
        run_all(&mut rep, &mut acc, &scs, true, false, "c01");
    }
    finish(rep, acc, args)
}

fn finish(mut rep: Report, acc: Acc, args: &Args) -> ! {
    rep.traces_validated += acc.conformed;
    let add = |rep: &mut Report, k: &str, v: u64| {
        let old = rep.extra.get(k).and_then(|x| x.as_u64()).unwrap_or(0);
        rep.extra.insert(k.into(), json!(old + v));
    };
    add(&mut rep, "scenarios_closing_2+_clusters", acc.multi);
    add(&mut rep, "scenarios_mixing_raw_and_compressed_clusters", acc.mixed);
    for w in &acc.widths {
        add(&mut rep, &format!("scenarios_with_{w}_byte_cluster_offsets(seen>0)"), 1);
    }
    rep.finish(args)
}

fn c16(args: &Args) -> ! {
    let mut rep = Report::new(
        "seqmc",
        "C16",
        "every sequence of length <=3 (quick) / <=4 (thorough) over {A low entropy, B high entropy, A again, empty} x hint {Yes,No,Detect} for every compression {none,lz4,lzma,zstd} x adder {direct,cached} x packaging {bare, one-file}; the produced bytes are decoded by the independent decoder (own CRC, codec crates) and each content's cluster compression, verbatim bytes / decompressed bytes, address sharing and content count are compared with the property; plus, under the deduplicating adder, contents equal except for their last byte (10 bytes .. 4 MiB + 70000, memory and file) and 66000 distinct contents followed by a new content added twice and by repeats of an early and of a late one; plus 400 incompressible bytes followed by a run of 0..48 (thorough 96) bytes with hint Yes (stored size below, equal to and above the plain size); plus contents handed over as whole files and as sub-ranges of files (explicit hints, 3 lengths, alone and second); plus non-initial states (clusters 0..1 blobs short of the 4095-blob limit, raw and/or compressed) followed by every sequence of length <=2 over {A, empty} x {Yes, No}, and by a content handed over as a file (whole / sub-range, alone or after a small one); non-trivial = at least one content with hint Yes or No",
    );
    let mut acc = Acc { states: BTreeSet::new(), transitions: BTreeSet::new(), conformed: 0, multi: 0, mixed: 0, widths: BTreeSet::new() };
    if let Some(p) = &args.replay {
        let j: J = serde_json::from_str(&std::fs::read_to_string(p).expect("replay file")).unwrap();
        let case = if j.get("case").is_some() { &j["case"] } else { &j };
        let sc = Scenario::from_json(&case["scenario"]);
        run_all(&mut rep, &mut acc, &[sc], false, true, "c16");
        for (k, v) in &rep.violations {
            println!("replay: {k}: {}", v.0);
        }
        finish(rep, acc, args);
    }
    let t = args.thorough();
    let maxlen = if t { 4 } else { 3 };
    // content symbols: A (low entropy, 3000 bytes), B (high entropy 5000 bytes), A again, empty
    let content = |k: usize| -> (usize, Entropy, u64) {
        match k {
            0 => (3000, Entropy::Low, 1),
            1 => (5000, Entropy::High, 2),
            2 => (3000, Entropy::Low, 1),
            _ => (0, Entropy::Low, 3),
        }
    };
    let hints = [Hint::Yes, Hint::No, Hint::Detect];
    let mut scs = vec![];
    let lzma = if t { Comp::Lzma(6) } else { Comp::Lzma(1) }; // preset 6 allocates ~100 MiB per cluster
    for comp in [Comp::None, Comp::Lz4(3), lzma, Comp::Zstd(5)] {
        for cached in [false, true] {
            for packaging in [Packaging::Bare, Packaging::OneFile] {
                for len in 1..=maxlen {
                    if packaging == Packaging::OneFile && len > 2 {
                        continue;
                    }
                    for seq in sequences(12, len) {
                        let items: Vec<Item> = seq
                            .iter()
                            .map(|&s| {
                                let (l, e, tag) = content(s / 3);
                                Item { len: l, entropy: e, hint: hints[s % 3], src: Src::Memory, tag }
                            })
                            .collect();
                        scs.push(Scenario { comp, cached, packaging, pre: Pre::none(), items });
                    }
                }
            }
        }
    }
    // boundary contents with an explicit hint: incompressible data whose compressed size crosses a width boundary
    for comp in [Comp::Lz4(3), Comp::Lzma(6), Comp::Zstd(5)] {
        for len in [1usize, 250, 255, 256, 65_530, 65_535, 65_536] {
            for hint in [Hint::Yes, Hint::No] {
                scs.push(Scenario { comp, cached: false, packaging: Packaging::Bare, pre: Pre::none(), items: vec![Item { len, entropy: Entropy::High, hint, src: Src::Memory, tag: 4 }] });
            }
        }
    }
    // compressed size around the plain size: 400 incompressible bytes + a run growing byte by
    // byte (for each codec some tail length makes the stored size equal to the plain size)
    for comp in [Comp::Lz4(3), Comp::Lzma(1), Comp::Zstd(5)] {
        for tail in 0..=if t { 96usize } else { 48 } {
            scs.push(Scenario { comp, cached: false, packaging: Packaging::Bare, pre: Pre::none(), items: vec![Item { len: 400 + tail, entropy: Entropy::Tail, hint: Hint::Yes, src: Src::Memory, tag: 40 }] });
        }
    }
    // contents handed over as files and as sub-ranges of files (the raw path copies from the file
    // itself, the compressed path reads through the reader): explicit hints, alone and after
    // another content
    for comp in [Comp::None, Comp::Lz4(3), Comp::Zstd(5)] {
        for src in [Src::FileWhole, Src::FileRange] {
            for hint in [Hint::Yes, Hint::No] {
                for len in [1usize, 3000, 70_000] {
                    let it = Item { len, entropy: Entropy::Low, hint, src, tag: 30 };
                    scs.push(Scenario { comp, cached: false, packaging: Packaging::Bare, pre: Pre::none(), items: vec![it.clone()] });
                    let first = Item { len: 10, entropy: Entropy::Low, hint, src: Src::Memory, tag: 31 };
                    scs.push(Scenario { comp, cached: len == 3000, packaging: Packaging::Bare, pre: Pre::none(), items: vec![first, it] });
                }
            }
        }
    }
    if let Some(n) = args.opt("--limit") {
        scs.truncate(n.parse().unwrap());
    }
    // non-initial states: clusters one or two blobs short of the 4095-blob limit, then every
    // sequence of length <=2 over {A, empty} x {Yes, No}: the cluster that closes because it is
    // full must keep its kind (a full raw cluster stays raw, a full compressed one is compressed)
    {
        let mut pres = vec![
            Pre { raw_blobs: 4095, comp_blobs: 0, comp_bytes: 0, raw_bytes: 0 },
            Pre { raw_blobs: 0, comp_blobs: 4095, comp_bytes: 0, raw_bytes: 0 },
            Pre { raw_blobs: 4094, comp_blobs: 4094, comp_bytes: 0, raw_bytes: 0 },
        ];
        if t {
            pres.push(Pre { raw_blobs: 4094, comp_blobs: 0, comp_bytes: 0, raw_bytes: 0 });
            pres.push(Pre { raw_blobs: 0, comp_blobs: 4094, comp_bytes: 0, raw_bytes: 0 });
            pres.push(Pre { raw_blobs: 4095, comp_blobs: 4095, comp_bytes: 0, raw_bytes: 0 });
            pres.push(Pre { raw_blobs: 8190, comp_blobs: 0, comp_bytes: 0, raw_bytes: 0 });
        }
        let follow = |k: usize| -> Item {
            let (l, e, tag) = if k / 2 == 0 { (3000, Entropy::Low, 1) } else { (0, Entropy::Low, 3) };
            Item { len: l, entropy: e, hint: if k % 2 == 0 { Hint::Yes } else { Hint::No }, src: Src::Memory, tag }
        };
        let comps: Vec<Comp> = if t { vec![Comp::None, Comp::Lz4(3), Comp::Lzma(1), Comp::Zstd(5)] } else { vec![Comp::Lz4(3), Comp::Zstd(5)] };
        for comp in comps {
            for pre in &pres {
                for len in 1..=2 {
                    for seq in sequences(4, len) {
                        let items: Vec<Item> = seq.iter().map(|&k| follow(k)).collect();
                        scs.push(Scenario { comp, cached: false, packaging: Packaging::Bare, pre: pre.clone(), items });
                    }
                }
            }
        }
    }
    // a content handed over as a file that opens a new cluster right after a full one was written
    for comp in [Comp::None, Comp::Zstd(5)] {
        for pre in [Pre { raw_blobs: 4095, comp_blobs: 0, comp_bytes: 0, raw_bytes: 0 }, Pre { raw_blobs: 0, comp_blobs: 4095, comp_bytes: 0, raw_bytes: 0 }] {
            for src in [Src::FileWhole, Src::FileRange] {
                for hint in [Hint::No, Hint::Yes] {
                    let f = Item { len: 3000, entropy: Entropy::Low, hint, src, tag: 61 };
                    let m = Item { len: 7, entropy: Entropy::Low, hint, src: Src::Memory, tag: 62 };
                    scs.push(Scenario { comp, cached: false, packaging: Packaging::Bare, pre: pre.clone(), items: vec![f.clone()] });
                    scs.push(Scenario { comp, cached: false, packaging: Packaging::Bare, pre: pre.clone(), items: vec![m, f] });
                }
            }
        }
    }
    // the deduplicating adder's two paths: contents below / at the 4 MiB limit (buffered vs streamed)
    for comp in [Comp::None, Comp::Zstd(5), Comp::Lz4(3)] {
        for len in [MIB4 - 1, MIB4] {
            for hint in [Hint::Yes, Hint::No] {
                for src in [Src::Memory, Src::FileWhole] {
                    let big = Item { len, entropy: Entropy::Low, hint, src, tag: 7 };
                    scs.push(Scenario { comp, cached: true, packaging: Packaging::Bare, pre: Pre::none(), items: vec![big.clone(), Item { len: 10, entropy: Entropy::Low, hint, src: Src::Memory, tag: 8 }, big.clone()] });
                }
            }
        }
    }
    // the deduplicating adder on contents that are equal except for their last byte (below, at and
    // above the 4 MiB limit where it switches from buffering to hashing the source in place)
    for comp in [Comp::None, Comp::Zstd(5)] {
        for len in [10usize, MIB4 - 1, MIB4, MIB4 + 1, MIB4 + 70_000] {
            for hint in [Hint::Yes, Hint::No] {
                for src in [Src::Memory, Src::FileWhole] {
                    let a = Item { len, entropy: Entropy::LastByte, hint, src, tag: 1 };
                    let b = Item { len, entropy: Entropy::LastByte, hint, src, tag: 2 };
                    scs.push(Scenario { comp, cached: true, packaging: Packaging::Bare, pre: Pre::none(), items: vec![a.clone(), b.clone(), a.clone(), b] });
                }
            }
        }
    }
    // the deduplicating adder beyond 65536 distinct contents: a content first seen after that many
    // others, added twice, is stored once; so are repeats of an early and of a late content
    for comp in [Comp::None, Comp::Zstd(5)] {
        let mut items: Vec<Item> = (0..66_000u64).map(|i| Item { len: 8, entropy: Entropy::High, hint: Hint::No, src: Src::Memory, tag: 100_000 + i }).collect();
        let fresh = Item { len: 9, entropy: Entropy::High, hint: Hint::No, src: Src::Memory, tag: 7 };
        items.push(fresh.clone());
        items.push(fresh);
        items.push(items[5].clone());
        items.push(items[65_999].clone());
        scs.push(Scenario { comp, cached: true, packaging: Packaging::Bare, pre: Pre::none(), items });
    }
    if !jbkmc::shard::run_children(args, &mut rep) {
        let scs = jbkmc::shard::select(args, scs);
        run_all(&mut rep, &mut acc, &scs, false, true, "c16");
    }
    finish(rep, acc, args)
}

fn main() {
    jbkmc::install_quiet_panic_hook();
    let args = Args::parse();
    let prop = if args.sub == "c01" { "C01" } else { "C16" };
    let wrap: fn(J) -> J = if args.sub == "c01" {
        |c| json!({"engine": "seqmc", "sub": "c01", "scenario": c})
    } else {
        |c| json!({"engine": "seqmc", "sub": "c16", "scenario": c})
    };
    jbkmc::watchdog::start(
        "seqmc",
        prop,
        &format!("{prop} creation or read-back does not terminate"),
        std::time::Duration::from_secs(if args.thorough() { 600 } else { 120 }),
        args.out.clone(),
        wrap,
    );
    match args.sub.as_str() {
        "c01" => c01(&args),
        "c16" => c16(&args),
        other => {
            eprintln!("unknown subcommand {other}");
            std::process::exit(2)
        }
    }
}
