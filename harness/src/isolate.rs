//! Run cases in child processes so that an abort, a fatal signal or a hang of the subject is an
//! *observation about one case* instead of the end of the engine.
//!
//! Protocol: the parent starts `<exe> <sub> --worker --range a..b [engine args]`; the worker
//! enumerates the same deterministic case list, and for each case index prints `B <idx>` before
//! and `E <idx> <json>` after running it. When a worker dies or stays silent for too long the case
//! in flight is recorded as died/hung and a new worker is started after it.

use serde_json::{json, Value};
use std::io::{BufRead, BufReader, Write};
use std::process::{Child, Command, Stdio};
use std::sync::mpsc;
use std::time::{Duration, Instant};

#[derive(Debug, Clone)]
pub enum Fate {
    /// the worker reported a result
    Done(Value),
    /// the worker process died while running the case (signal number or exit code)
    Died(String),
    /// no answer within the limit (confirmed by a solo re-run)
    Hung,
}

/// Hangs seen so far in this engine run (all slices).
pub static HANGS: std::sync::atomic::AtomicUsize = std::sync::atomic::AtomicUsize::new(0);
/// Cases skipped because too many hangs were already recorded.
pub static SKIPPED: std::sync::atomic::AtomicUsize = std::sync::atomic::AtomicUsize::new(0);
const CONFIRM_FIRST_HANGS: usize = 3;
const MAX_HANGS: usize = 8;

pub struct IsolatedRun {
    pub exe: std::path::PathBuf,
    pub base_args: Vec<String>,
    pub env: Vec<(String, String)>,
    pub per_case_timeout: Duration,
    pub confirm_timeout: Duration,
}

fn spawn(run: &IsolatedRun, from: usize, to: usize) -> Child {
    let mut cmd = Command::new(&run.exe);
    cmd.args(&run.base_args)
        .arg("--worker")
        .arg("--range")
        .arg(format!("{from}..{to}"))
        .stdin(Stdio::null())
        .stdout(Stdio::piped())
        .stderr(Stdio::null());
    for (k, v) in &run.env {
        cmd.env(k, v);
    }
    cmd.spawn().expect("spawn worker")
}

fn describe_exit(st: std::process::ExitStatus) -> String {
    use std::os::unix::process::ExitStatusExt;
    match (st.code(), st.signal()) {
        (_, Some(s)) => format!("signal {s}"),
        (Some(c), _) => format!("exit {c}"),
        _ => "unknown".into(),
    }
}

/// Run cases `from..to` (one worker at a time for this slice); `on` is called per case in order.
pub fn run_slice(run: &IsolatedRun, from: usize, to: usize, on: &mut dyn FnMut(usize, Fate)) {
    let mut next = from;
    while next < to {
        if HANGS.load(std::sync::atomic::Ordering::Relaxed) >= MAX_HANGS {
            // every hang costs the per-case timeout: stop exploring, the caller reports a cap
            SKIPPED.fetch_add(to - next, std::sync::atomic::Ordering::Relaxed);
            return;
        }
        let mut child = spawn(run, next, to);
        let stdout = child.stdout.take().unwrap();
        let (tx, rx) = mpsc::channel::<String>();
        let reader = std::thread::spawn(move || {
            for line in BufReader::new(stdout).lines() {
                match line {
                    Ok(l) => {
                        if tx.send(l).is_err() {
                            break;
                        }
                    }
                    Err(_) => break,
                }
            }
        });
        let mut in_flight: Option<usize> = None;
        let mut last = Instant::now();
        let mut hung = false;
        loop {
            match rx.recv_timeout(Duration::from_millis(200)) {
                Ok(line) => {
                    last = Instant::now();
                    if let Some(rest) = line.strip_prefix("B ") {
                        in_flight = rest.trim().parse().ok();
                    } else if let Some(rest) = line.strip_prefix("E ") {
                        let (idx, js) = rest.split_once(' ').unwrap_or((rest, "null"));
                        let idx: usize = idx.parse().unwrap_or(usize::MAX);
                        let v: Value = serde_json::from_str(js).unwrap_or(json!({"unparsable": js}));
                        on(idx, Fate::Done(v));
                        in_flight = None;
                        next = idx + 1;
                    }
                }
                Err(mpsc::RecvTimeoutError::Timeout) => {
                    if in_flight.is_some() && last.elapsed() > run.per_case_timeout {
                        hung = true;
                        let _ = child.kill();
                        break;
                    }
                    if let Ok(Some(_)) = child.try_wait() {
                        // drain what is left
                        while let Ok(line) = rx.recv_timeout(Duration::from_millis(50)) {
                            if let Some(rest) = line.strip_prefix("B ") {
                                in_flight = rest.trim().parse().ok();
                            } else if let Some(rest) = line.strip_prefix("E ") {
                                let (idx, js) = rest.split_once(' ').unwrap_or((rest, "null"));
                                let idx: usize = idx.parse().unwrap_or(usize::MAX);
                                let v: Value = serde_json::from_str(js).unwrap_or(json!({"unparsable": js}));
                                on(idx, Fate::Done(v));
                                in_flight = None;
                                next = idx + 1;
                            }
                        }
                        break;
                    }
                }
                Err(mpsc::RecvTimeoutError::Disconnected) => break,
            }
        }
        let status = child.wait().ok();
        let _ = reader.join();
        match in_flight {
            Some(idx) => {
                if hung {
                    // confirm alone with a longer limit (the first few only)
                    let seen = HANGS.fetch_add(1, std::sync::atomic::Ordering::Relaxed);
                    let fate = if seen < CONFIRM_FIRST_HANGS { run_single(run, idx, run.confirm_timeout) } else { Fate::Hung };
                    on(idx, fate);
                } else {
                    on(idx, Fate::Died(status.map(describe_exit).unwrap_or_else(|| "unknown".into())));
                }
                next = idx + 1;
            }
            None => {
                if next < to {
                    match status {
                        Some(st) if st.success() => {
                            // worker ended normally without covering the range: machinery problem
                            on(next, Fate::Died("worker ended early".into()));
                            next += 1;
                        }
                        Some(st) => {
                            on(next, Fate::Died(format!("between cases: {}", describe_exit(st))));
                            next += 1;
                        }
                        None => next = to,
                    }
                }
            }
        }
    }
}

/// Run exactly one case alone.
pub fn run_single(run: &IsolatedRun, idx: usize, limit: Duration) -> Fate {
    let mut child = spawn(run, idx, idx + 1);
    let stdout = child.stdout.take().unwrap();
    let (tx, rx) = mpsc::channel::<String>();
    std::thread::spawn(move || {
        for line in BufReader::new(stdout).lines().map_while(Result::ok) {
            if tx.send(line).is_err() {
                break;
            }
        }
    });
    let start = Instant::now();
    loop {
        match rx.recv_timeout(Duration::from_millis(200)) {
            Ok(line) => {
                if let Some(rest) = line.strip_prefix("E ") {
                    let (_, js) = rest.split_once(' ').unwrap_or((rest, "null"));
                    let _ = child.wait();
                    return Fate::Done(serde_json::from_str(js).unwrap_or(json!(null)));
                }
            }
            Err(mpsc::RecvTimeoutError::Timeout) => {
                if start.elapsed() > limit {
                    let _ = child.kill();
                    let _ = child.wait();
                    return Fate::Hung;
                }
                if let Ok(Some(st)) = child.try_wait() {
                    return Fate::Died(describe_exit(st));
                }
            }
            Err(mpsc::RecvTimeoutError::Disconnected) => {
                let st = child.wait().ok();
                return Fate::Died(st.map(describe_exit).unwrap_or_else(|| "unknown".into()));
            }
        }
    }
}

/// Run all `n` cases over `workers` parallel slices. Results come back unordered through `on`.
pub fn run_all(run: &IsolatedRun, n: usize, workers: usize, on: &(dyn Fn(usize, Fate) + Sync)) {
    let workers = workers.max(1).min(n.max(1));
    let chunk = n.div_ceil(workers);
    std::thread::scope(|s| {
        for w in 0..workers {
            let from = w * chunk;
            let to = ((w + 1) * chunk).min(n);
            if from >= to {
                continue;
            }
            s.spawn(move || {
                let mut f = |i: usize, fate: Fate| on(i, fate);
                run_slice(run, from, to, &mut f);
            });
        }
    });
}

/// Worker side: announce and report one case.
pub fn worker_case(idx: usize, f: impl FnOnce() -> Value) {
    let out = std::io::stdout();
    {
        let mut o = out.lock();
        let _ = writeln!(o, "B {idx}");
        let _ = o.flush();
    }
    let v = f();
    let mut o = out.lock();
    let _ = writeln!(o, "E {idx} {}", v);
    let _ = o.flush();
}

pub fn parse_range(s: &str) -> (usize, usize) {
    let (a, b) = s.split_once("..").expect("range a..b");
    (a.parse().unwrap(), b.parse().unwrap())
}
