//! Harness side of shim/mmapfail.c: decides, per case, which file mappings of this process the
//! environment refuses, and reads back how many were asked for / refused.
use std::path::PathBuf;
use std::sync::atomic::{AtomicI64, Ordering};

pub struct MmapSwitch {
    switch: PathBuf,
    log: PathBuf,
    epoch: AtomicI64,
}

impl MmapSwitch {
    /// `None` when the process does not run under the shim (MMAPFAIL_SWITCH / MMAPFAIL_LOG unset).
    pub fn from_env() -> Option<Self> {
        let switch = PathBuf::from(std::env::var_os("MMAPFAIL_SWITCH")?);
        let log = PathBuf::from(std::env::var_os("MMAPFAIL_LOG")?);
        let s = Self { switch, log, epoch: AtomicI64::new(1) };
        s.set(0);
        Some(s)
    }
    /// k = 0: every mapping granted; k = -1: every file mapping refused; k > 0: the k-th one
    /// asked for from now on is refused. Starts a new epoch (counters restart).
    pub fn set(&self, k: i64) {
        let e = self.epoch.fetch_add(1, Ordering::SeqCst) + 1;
        std::fs::write(&self.switch, format!("{e} {k}\n")).expect("mmapfail switch file");
        let _ = std::fs::remove_file(&self.log);
    }
    /// (file mappings asked for, refused) since the last `set`.
    pub fn stats(&self) -> (i64, i64) {
        let e = self.epoch.load(Ordering::SeqCst);
        match std::fs::read_to_string(&self.log) {
            Ok(t) => {
                let v: Vec<i64> = t.split_whitespace().filter_map(|x| x.parse().ok()).collect();
                if v.len() == 3 && v[0] == e {
                    (v[1], v[2])
                } else {
                    (0, 0)
                }
            }
            Err(_) => (0, 0),
        }
    }
}
