//! Engine report: what an engine run covered and what it found. The `check` driver merges the
//! reports of the engines that serve one property, applies known_findings.json, writes the
//! evidence file and prints VIOLATION / KNOWN-FINDING lines.

use serde_json::{json, Map, Value};
use std::collections::{BTreeMap, BTreeSet};
use std::time::Instant;

pub struct Args {
    pub sub: String,
    pub tier: String,
    pub out: Option<String>,
    pub replay: Option<String>,
    pub seed: u64,
    pub rest: Vec<String>,
}

impl Args {
    /// `<bin> <sub> [--tier quick|thorough] [--out FILE] [--replay FILE] [other...]`
    pub fn parse() -> Args {
        let mut it = std::env::args().skip(1);
        let sub = it.next().unwrap_or_default();
        let mut a = Args {
            sub,
            tier: std::env::var("VERIF_TIER").unwrap_or_else(|_| "quick".into()),
            out: None,
            replay: None,
            seed: std::env::var("VERIF_SEED")
                .ok()
                .and_then(|s| s.parse().ok())
                .unwrap_or(0),
            rest: vec![],
        };
        while let Some(x) = it.next() {
            match x.as_str() {
                "--tier" => a.tier = it.next().unwrap(),
                "--out" => a.out = it.next(),
                "--replay" => a.replay = it.next(),
                _ => a.rest.push(x),
            }
        }
        a
    }
    pub fn thorough(&self) -> bool {
        self.tier == "thorough"
    }
    pub fn flag(&self, name: &str) -> bool {
        self.rest.iter().any(|x| x == name)
    }
    pub fn opt(&self, name: &str) -> Option<String> {
        self.rest
            .iter()
            .position(|x| x == name)
            .and_then(|i| self.rest.get(i + 1).cloned())
    }
}

pub struct Report {
    pub engine: String,
    pub property: String,
    start: Instant,
    pub evaluations: u64,
    nontrivial: BTreeSet<u64>,
    nontrivial_extra: u64,
    pub rule: String,
    pub outcomes: BTreeMap<String, u64>,
    pub samples: Vec<Value>,
    pub violations: BTreeMap<String, (String, Value, u64)>,
    pub info: BTreeMap<String, u64>,
    pub extra: Map<String, Value>,
    pub exhaustive: bool,
    pub caps: Vec<String>,
    pub states: u64,
    pub transitions: u64,
    pub traces_validated: u64,
    pub machinery_errors: Vec<String>,
    /// hashed abstract states / transitions (exact distinct counts across shards)
    pub state_set: BTreeSet<u64>,
    pub transition_set: BTreeSet<u64>,
    max_samples: usize,
}

fn fnv(s: &str) -> u64 {
    let mut h = 0xcbf29ce484222325u64;
    for b in s.as_bytes() {
        h ^= *b as u64;
        h = h.wrapping_mul(0x100000001b3);
    }
    h
}

impl Report {
    pub fn new(engine: &str, property: &str, rule: &str) -> Report {
        Report {
            engine: engine.into(),
            property: property.into(),
            start: Instant::now(),
            evaluations: 0,
            nontrivial: BTreeSet::new(),
            nontrivial_extra: 0,
            rule: rule.into(),
            outcomes: BTreeMap::new(),
            samples: vec![],
            violations: BTreeMap::new(),
            info: BTreeMap::new(),
            extra: Map::new(),
            exhaustive: true,
            caps: vec![],
            states: 0,
            transitions: 0,
            traces_validated: 0,
            machinery_errors: vec![],
            state_set: BTreeSet::new(),
            transition_set: BTreeSet::new(),
            max_samples: 5,
        }
    }

    /// One case was executed. `nontrivial_id`: Some(canonical text of the case) when the case is
    /// non-trivial by the engine's rule (distinctness is by that text).
    pub fn case(&mut self, nontrivial_id: Option<&str>, outcome: &str) {
        self.evaluations += 1;
        if let Some(id) = nontrivial_id {
            self.nontrivial.insert(fnv(id));
        }
        *self.outcomes.entry(outcome.to_string()).or_insert(0) += 1;
    }

    /// Count many distinct non-trivial cases at once (the caller guarantees distinctness).
    pub fn bulk(&mut self, evaluations: u64, distinct_nontrivial: u64) {
        self.evaluations += evaluations;
        self.nontrivial_extra += distinct_nontrivial;
    }

    pub fn outcome(&mut self, outcome: &str, n: u64) {
        *self.outcomes.entry(outcome.to_string()).or_insert(0) += n;
    }

    pub fn sample(&mut self, v: Value) {
        if self.samples.len() < self.max_samples {
            self.samples.push(v);
        }
    }

    pub fn violation(&mut self, key: &str, what: &str, case: Value) {
        // a case found under the short-read shim is replayed under it
        let mut case = case;
        if std::env::var_os("SHORTREAD_MAX").is_some() {
            if let Some(o) = case.as_object_mut() {
                o.insert("environment".into(), serde_json::json!("short-reads"));
            }
        }
        let n = self.violations.len();
        let e = self
            .violations
            .entry(key.to_string())
            .or_insert_with(|| (what.to_string(), case, 0));
        e.2 += 1;
        if n >= 200 && self.violations.len() > 200 {
            // keep the map bounded; later distinct keys are counted only
            self.violations.pop_last();
            *self.info.entry("violation keys dropped (>200)".into()).or_insert(0) += 1;
        }
    }

    pub fn note(&mut self, what: &str) {
        *self.info.entry(what.to_string()).or_insert(0) += 1;
    }

    pub fn cap(&mut self, what: &str) {
        self.exhaustive = false;
        self.caps.push(what.to_string());
    }

    pub fn distinct_nontrivial(&self) -> u64 {
        self.nontrivial.len() as u64 + self.nontrivial_extra
    }

    /// Merge the report of a child process (see shard.rs). Hash sets travel in `extra`.
    pub fn merge_child(&mut self, j: &Value) {
        self.evaluations += j["evaluations"].as_u64().unwrap_or(0);
        if let Some(a) = j["extra"]["_nontrivial"].as_array() {
            for x in a {
                self.nontrivial.insert(x.as_u64().unwrap());
            }
        }
        self.nontrivial_extra += j["extra"]["_nontrivial_extra"].as_u64().unwrap_or(0);
        for (name, set) in [("_states", 0), ("_transitions", 1)] {
            if let Some(a) = j["extra"][name].as_array() {
                for x in a {
                    if set == 0 {
                        self.state_set.insert(x.as_u64().unwrap());
                    } else {
                        self.transition_set.insert(x.as_u64().unwrap());
                    }
                }
            }
        }
        self.traces_validated += j["traces_validated_against_impl"].as_u64().unwrap_or(0);
        if let Some(o) = j["outcomes"].as_object() {
            for (k, v) in o {
                *self.outcomes.entry(k.clone()).or_insert(0) += v.as_u64().unwrap_or(0);
            }
        }
        if let Some(o) = j["info"].as_object() {
            for (k, v) in o {
                *self.info.entry(k.clone()).or_insert(0) += v.as_u64().unwrap_or(0);
            }
        }
        if let Some(a) = j["samples"].as_array() {
            for s in a {
                self.sample(s.clone());
            }
        }
        if let Some(a) = j["violations"].as_array() {
            for v in a {
                let key = v["key"].as_str().unwrap_or("?");
                let n = v["count"].as_u64().unwrap_or(1);
                let e = self
                    .violations
                    .entry(key.to_string())
                    .or_insert_with(|| (v["what"].as_str().unwrap_or("").to_string(), v["case"].clone(), 0));
                e.2 += n;
            }
        }
        if let Some(a) = j["caps"].as_array() {
            for c in a {
                self.cap(c.as_str().unwrap_or("cap"));
            }
        }
        if let Some(a) = j["machinery_errors"].as_array() {
            for c in a {
                self.machinery_errors.push(c.as_str().unwrap_or("?").to_string());
            }
        }
        if let Some(o) = j["extra"].as_object() {
            for (k, v) in o {
                if k.starts_with('_') {
                    continue;
                }
                // numeric extras add up, others keep the first value
                match (self.extra.get(k).and_then(|x| x.as_u64()), v.as_u64()) {
                    (Some(a), Some(b)) => {
                        self.extra.insert(k.clone(), serde_json::json!(a + b));
                    }
                    (None, _) if !self.extra.contains_key(k) => {
                        self.extra.insert(k.clone(), v.clone());
                    }
                    _ => {}
                }
            }
        }
    }

    pub fn to_json(&self) -> Value {
        let mut extra = self.extra.clone();
        if std::env::var("JBKMC_EMIT_SETS").is_ok() {
            extra.insert("_nontrivial".into(), json!(self.nontrivial.iter().collect::<Vec<_>>()));
            extra.insert("_nontrivial_extra".into(), json!(self.nontrivial_extra));
            extra.insert("_states".into(), json!(self.state_set.iter().collect::<Vec<_>>()));
            extra.insert("_transitions".into(), json!(self.transition_set.iter().collect::<Vec<_>>()));
        }
        let states = self.states.max(self.state_set.len() as u64);
        let transitions = self.transitions.max(self.transition_set.len() as u64);
        let violations: Vec<Value> = self
            .violations
            .iter()
            .map(|(k, (what, case, n))| json!({"key": k, "what": what, "case": case, "count": n}))
            .collect();
        json!({
            "engine": self.engine,
            "property": self.property,
            "evaluations": self.evaluations,
            "distinct_nontrivial": self.distinct_nontrivial(),
            "rule": self.rule,
            "outcomes": self.outcomes,
            "distinct_outcomes": self.outcomes.len(),
            "samples": self.samples,
            "violations": violations,
            "info": self.info,
            "extra": extra,
            "exhaustive": self.exhaustive,
            "caps": self.caps,
            "states": states,
            "transitions": transitions,
            "traces_validated_against_impl": self.traces_validated,
            "machinery_errors": self.machinery_errors,
            "wall_s": self.start.elapsed().as_secs_f64(),
        })
    }

    /// Write the report and exit: 0 when no violation, 1 when violations, 2 on machinery errors.
    pub fn finish(mut self, args: &Args) -> ! {
        // run under shim/shortread.c? then say so, and prove the shim is in the process: one
        // read of 100 bytes on a file of the scratch area must come back short
        if let Ok(max) = std::env::var("SHORTREAD_MAX") {
            use std::io::Read;
            let probe = crate::scratch_dir("shortread-probe");
            let p = probe.path().join("probe.bin");
            let got = std::fs::write(&p, [7u8; 100]).and_then(|_| std::fs::File::open(&p)).and_then(|mut f| {
                let mut b = [0u8; 100];
                f.read(&mut b)
            });
            match got {
                Ok(n) if n < 100 => {
                    self.rule = format!("{}; environment answer: every read(2) on a regular file of the scratch area returns at most {max} bytes (LD_PRELOAD shim, probe read of 100 bytes returned {n})", self.rule);
                    self.extra.insert("short_read_cap".into(), serde_json::json!(n));
                }
                other => self.machinery_errors.push(format!("SHORTREAD_MAX={max} is set but a probe read returned {other:?}: the shortread shim is not in the process")),
            }
        }
        let j = self.to_json();
        let text = serde_json::to_string_pretty(&j).unwrap();
        match &args.out {
            Some(p) => std::fs::write(p, text).expect("write report"),
            None => println!("{text}"),
        }
        eprintln!(
            "[{}] {} evaluations={} nontrivial={} outcomes={} violations(keys)={} wall={:.1}s{}",
            self.engine,
            self.property,
            self.evaluations,
            self.distinct_nontrivial(),
            self.outcomes.len(),
            self.violations.len(),
            self.start.elapsed().as_secs_f64(),
            if self.exhaustive { "" } else { " CAPPED" }
        );
        if !self.machinery_errors.is_empty() {
            for m in &self.machinery_errors {
                eprintln!("MACHINERY-ERROR {m}");
            }
            std::process::exit(2);
        }
        std::process::exit(if self.violations.is_empty() { 0 } else { 1 })
    }
}
