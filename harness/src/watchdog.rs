//! Hang detector for engines that run the subject in-process: a case registers itself while it
//! runs; if one stays registered longer than the limit (3-4 orders of magnitude above the typical
//! case) the watchdog writes a report holding that one violation and exits the process — a thread
//! that waits forever cannot be cancelled.

use serde_json::{json, Value};
use std::collections::HashMap;
use std::sync::atomic::{AtomicU64, Ordering};
use std::sync::Mutex;
use std::time::{Duration, Instant};

static SLOTS: Mutex<Option<HashMap<u64, (Instant, String)>>> = Mutex::new(None);
static NEXT: AtomicU64 = AtomicU64::new(1);
pub static DONE: AtomicU64 = AtomicU64::new(0);

pub struct Guard(u64);
impl Drop for Guard {
    fn drop(&mut self) {
        if let Some(m) = SLOTS.lock().unwrap().as_mut() {
            m.remove(&self.0);
        }
        DONE.fetch_add(1, Ordering::Relaxed);
    }
}

/// Register a running case (canonical JSON text of the case).
pub fn guard(case: impl FnOnce() -> String) -> Guard {
    let id = NEXT.fetch_add(1, Ordering::Relaxed);
    let text = case();
    // trace mode (shard.rs re-runs a shard that died this way): the case about to run is written
    // to a file first, so that the parent can name the case that killed the process
    if let Ok(p) = std::env::var("JBKMC_TRACE_CURRENT") {
        let _ = std::fs::write(p, &text);
    }
    let mut g = SLOTS.lock().unwrap();
    g.get_or_insert_with(HashMap::new).insert(id, (Instant::now(), text));
    Guard(id)
}

/// Start the watchdog. On a hang: write `{violations:[{key, what, case}]...}` to `out` and exit 1.
pub fn start(engine: &str, property: &str, key: &str, limit: Duration, out: Option<String>, wrap: fn(Value) -> Value) {
    let (engine, property, key) = (engine.to_string(), property.to_string(), key.to_string());
    std::thread::spawn(move || loop {
        std::thread::sleep(Duration::from_millis(500));
        let hung: Option<(Duration, String)> = {
            let g = SLOTS.lock().unwrap();
            g.as_ref().and_then(|m| {
                m.values()
                    .filter(|(t, _)| t.elapsed() > limit)
                    .map(|(t, c)| (t.elapsed(), c.clone()))
                    .next()
            })
        };
        if let Some((el, case)) = hung {
            let case_json: Value = serde_json::from_str(&case).unwrap_or(json!(case));
            let done = DONE.load(Ordering::Relaxed);
            let rep = json!({
                "engine": engine, "property": property,
                "evaluations": done + 1, "distinct_nontrivial": 0,
                "rule": "run aborted by the hang watchdog; see caps",
                "outcomes": {"hang": 1}, "distinct_outcomes": 1, "samples": [case_json.clone()],
                "violations": [{"key": key, "what": format!("a case did not terminate within {:?} (typical: milliseconds)", el), "case": wrap(case_json), "count": 1}],
                "info": {}, "extra": {}, "exhaustive": false,
                "caps": [format!("process aborted by the hang watchdog after {done} cases; the remaining cases of this process were not run")],
                "states": 0, "transitions": 0, "traces_validated_against_impl": 0, "machinery_errors": [], "wall_s": 0.0
            });
            let text = serde_json::to_string_pretty(&rep).unwrap();
            match &out {
                Some(p) => {
                    let _ = std::fs::write(p, text);
                }
                None => println!("{text}"),
            }
            eprintln!("[{engine}] HANG detected, aborting process");
            std::process::exit(1);
        }
    });
}
