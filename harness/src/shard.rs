//! Run an engine as N child processes, each pinned (taskset) to its own CPU set and handling the
//! cases whose index is i mod N. Pinning is how the number of compression workers of a
//! ContentPackCreator is chosen without a hook: it follows `available_parallelism()`.

use crate::report::{Args, Report};
use serde_json::Value;
use std::process::{Command, Stdio};

pub struct Shard {
    pub index: usize,
    pub count: usize,
}

impl Shard {
    pub fn from_args(args: &Args) -> Option<Shard> {
        args.opt("--shard").map(|s| {
            let (i, n) = s.split_once('/').expect("--shard i/n");
            Shard { index: i.parse().unwrap(), count: n.parse().unwrap() }
        })
    }
    pub fn mine(&self, case_index: usize) -> bool {
        case_index % self.count == self.index
    }
}

/// Keep only this shard's cases (no-op without --shard).
pub fn select<T>(args: &Args, cases: Vec<T>) -> Vec<T> {
    match Shard::from_args(args) {
        None => cases,
        Some(s) => cases.into_iter().enumerate().filter(|(i, _)| s.mine(*i)).map(|(_, c)| c).collect(),
    }
}

/// If `--shards N` was given (and this is not already a child), run the children and merge their
/// reports into `rep`; returns true when that happened (the caller then finishes the report).
pub fn run_children(args: &Args, rep: &mut Report) -> bool {
    let n: usize = match args.opt("--shards") {
        Some(n) if Shard::from_args(args).is_none() => n.parse().unwrap(),
        _ => return false,
    };
    let ncpu = std::thread::available_parallelism().map(|x| x.get()).unwrap_or(4);
    let per = (ncpu / n).max(1);
    let exe = std::env::current_exe().unwrap();
    let mut children = vec![];
    for i in 0..n {
        let out = format!("{}/jbkmc-shard-{}-{}.json", crate::scratch_base(), std::process::id(), i);
        let lo = (i * per) % ncpu;
        let hi = (lo + per - 1).min(ncpu - 1);
        let mut cmd = Command::new("taskset");
        cmd.arg("-c").arg(format!("{lo}-{hi}")).arg(&exe).arg(&args.sub);
        cmd.arg("--tier").arg(&args.tier).arg("--out").arg(&out);
        cmd.arg("--shard").arg(format!("{i}/{n}"));
        for r in &args.rest {
            cmd.arg(r);
        }
        cmd.env("JBKMC_EMIT_SETS", "1").env("RAYON_NUM_THREADS", per.to_string());
        cmd.stderr(Stdio::null());
        children.push((cmd.spawn().expect("spawn shard"), out));
    }
    for (i, (mut c, out)) in children.into_iter().enumerate() {
        let st = c.wait().expect("wait shard");
        let code = st.code().unwrap_or(-1);
        if !(code == 0 || code == 1 || code == 2) {
            // The shard died (abort, signal): run it again one case at a time, each case named in
            // a file before it starts, to find the case that kills the process.
            use std::os::unix::process::ExitStatusExt;
            let sig = st.signal();
            let trace = format!("{}/jbkmc-shard-{}-{}.current", crate::scratch_base(), std::process::id(), i);
            let mut cmd = Command::new(&exe);
            cmd.arg(&args.sub).arg("--tier").arg(&args.tier).arg("--out").arg(&out).arg("--shard").arg(format!("{i}/{n}"));
            for r in &args.rest {
                cmd.arg(r);
            }
            cmd.env("JBKMC_EMIT_SETS", "1").env("RAYON_NUM_THREADS", "1").env("JBKMC_TRACE_CURRENT", &trace).stderr(Stdio::null());
            let st2 = cmd.status().expect("re-run shard");
            let code2 = st2.code().unwrap_or(-1);
            if !(code2 == 0 || code2 == 1 || code2 == 2) {
                let case_text = std::fs::read_to_string(&trace).unwrap_or_default();
                let case: Value = serde_json::from_str(&case_text).unwrap_or(serde_json::json!(case_text));
                let how = match (sig, st2.signal()) {
                    (_, Some(s)) => format!("signal {s}"),
                    (Some(s), None) => format!("signal {s}"),
                    _ => format!("exit {code2}"),
                };
                rep.violation(
                    &format!("{} the process dies ({how}) while creating or reading a container", rep.property.clone()),
                    &format!("shard {i}/{n} died twice; case running when it died the second time (one case at a time): {}", case_text.chars().take(400).collect::<String>()),
                    serde_json::json!({"engine": rep.engine.clone(), "sub": args.sub, "scenario": case}),
                );
                let _ = std::fs::remove_file(&trace);
                let _ = std::fs::remove_file(&out);
                continue;
            }
            let _ = std::fs::remove_file(&trace);
            // the second run went through: use its report, and say that the first one died
            rep.machinery_errors.push(format!("shard {i}/{n} died ({sig:?}) and went through when run again one case at a time: not reproducible"));
        }
        let code = if code == 0 || code == 1 || code == 2 { code } else { 0 };
        match std::fs::read_to_string(&out).ok().and_then(|t| serde_json::from_str::<Value>(&t).ok()) {
            Some(j) if code == 0 || code == 1 || code == 2 => {
                rep.merge_child(&j);
                // engines that count states instead of collecting their hashes
                if j["extra"]["_states"].as_array().map(|a| a.is_empty()).unwrap_or(true) {
                    rep.states += j["states"].as_u64().unwrap_or(0);
                }
                if j["extra"]["_transitions"].as_array().map(|a| a.is_empty()).unwrap_or(true) {
                    rep.transitions += j["transitions"].as_u64().unwrap_or(0);
                }
            }
            _ => rep.machinery_errors.push(format!("shard {out} exited {code} without a report")),
        }
        let _ = std::fs::remove_file(&out);
    }
    rep.extra.insert("shards".into(), serde_json::json!({"processes": n, "cpus_each": per}));
    true
}
