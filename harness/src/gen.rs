//! Deterministic payloads and the enumerators (odometers, subsets, permutations, compositions).

/// xorshift64* — only used to make payload bytes; never to choose which cases run.
pub struct Rng(pub u64);
impl Rng {
    pub fn new(seed: u64) -> Rng {
        Rng(seed.wrapping_mul(0x9E3779B97F4A7C15) | 1)
    }
    pub fn next(&mut self) -> u64 {
        let mut x = self.0;
        x ^= x >> 12;
        x ^= x << 25;
        x ^= x >> 27;
        self.0 = x;
        x.wrapping_mul(0x2545F4914F6CDD1D)
    }
}

#[derive(Clone, Copy, PartialEq, Eq, Debug)]
pub enum Entropy {
    Low,
    High,
    /// 400 PRNG bytes followed by a run of one byte: incompressible head, trivially compressible
    /// tail - growing the tail byte by byte moves the compressed size across the plain size
    Tail,
    /// one repeated byte, except the very last byte which carries the tag: two payloads of one
    /// length differ in their last byte only
    LastByte,
}

/// A payload of `len` bytes. Low: a 4-symbol pattern (2 bits/byte, compressible, below the 6.0
/// threshold of detect_compression); High: PRNG bytes. `tag` makes distinct payloads of one length.
pub fn payload(len: usize, entropy: Entropy, tag: u64) -> Vec<u8> {
    let mut v = Vec::with_capacity(len);
    match entropy {
        Entropy::Low => {
            let sym = [b'a', b'b', 0x00, 0xff];
            let mut r = Rng::new(tag ^ 0x1234);
            // runs of symbols, so that it is compressible but not constant
            while v.len() < len {
                let x = r.next();
                let s = sym[(x & 3) as usize];
                let run = 1 + ((x >> 2) & 15) as usize;
                for _ in 0..run.min(len - v.len()) {
                    v.push(s);
                }
            }
            if len > 0 {
                v[0] = (tag & 0xff) as u8;
            }
        }
        Entropy::LastByte => {
            v.resize(len, b'k');
            if len > 0 {
                v[len - 1] = (tag & 0xff) as u8;
            }
        }
        Entropy::Tail => {
            let mut r = Rng::new(tag ^ 0x7A11);
            while v.len() < len.min(400) {
                let x = r.next().to_le_bytes();
                let n = (len.min(400) - v.len()).min(8);
                v.extend_from_slice(&x[..n]);
            }
            v.resize(len, b'a');
        }
        Entropy::High => {
            let mut r = Rng::new(tag ^ 0xABCDEF);
            while v.len() < len {
                let x = r.next().to_le_bytes();
                let n = (len - v.len()).min(8);
                v.extend_from_slice(&x[..n]);
            }
        }
    }
    v
}

/// All tuples in `0..radix[0] x 0..radix[1] x ...` (odometer, first index slowest).
pub struct Odometer {
    radix: Vec<usize>,
    cur: Vec<usize>,
    done: bool,
}
impl Odometer {
    pub fn new(radix: Vec<usize>) -> Odometer {
        let done = radix.iter().any(|&r| r == 0);
        Odometer {
            cur: vec![0; radix.len()],
            radix,
            done,
        }
    }
}
impl Iterator for Odometer {
    type Item = Vec<usize>;
    fn next(&mut self) -> Option<Vec<usize>> {
        if self.done {
            return None;
        }
        let out = self.cur.clone();
        let mut i = self.radix.len();
        loop {
            if i == 0 {
                self.done = true;
                break;
            }
            i -= 1;
            self.cur[i] += 1;
            if self.cur[i] < self.radix[i] {
                break;
            }
            self.cur[i] = 0;
        }
        Some(out)
    }
}

/// All sequences of length exactly `len` over `0..n`.
pub fn sequences(n: usize, len: usize) -> Odometer {
    Odometer::new(vec![n; len])
}

/// All subsets of `0..n` with size in `lo..=hi`, in order of size then lexicographic.
pub fn subsets(n: usize, lo: usize, hi: usize) -> Vec<Vec<usize>> {
    fn rec(n: usize, k: usize, start: usize, cur: &mut Vec<usize>, out: &mut Vec<Vec<usize>>) {
        if cur.len() == k {
            out.push(cur.clone());
            return;
        }
        for i in start..n {
            if n - i < k - cur.len() {
                break;
            }
            cur.push(i);
            rec(n, k, i + 1, cur, out);
            cur.pop();
        }
    }
    let mut out = vec![];
    for k in lo..=hi.min(n) {
        rec(n, k, 0, &mut vec![], &mut out);
    }
    out
}

/// All multisets (non-decreasing sequences) over `0..n` of size `k`.
pub fn multisets(n: usize, k: usize) -> Vec<Vec<usize>> {
    fn rec(n: usize, k: usize, start: usize, cur: &mut Vec<usize>, out: &mut Vec<Vec<usize>>) {
        if cur.len() == k {
            out.push(cur.clone());
            return;
        }
        for i in start..n {
            cur.push(i);
            rec(n, k, i, cur, out);
            cur.pop();
        }
    }
    let mut out = vec![];
    rec(n, k, 0, &mut vec![], &mut out);
    out
}

/// All permutations of `0..n` (lexicographic).
pub fn permutations(n: usize) -> Vec<Vec<usize>> {
    fn rec(n: usize, cur: &mut Vec<usize>, used: &mut Vec<bool>, out: &mut Vec<Vec<usize>>) {
        if cur.len() == n {
            out.push(cur.clone());
            return;
        }
        for i in 0..n {
            if !used[i] {
                used[i] = true;
                cur.push(i);
                rec(n, cur, used, out);
                cur.pop();
                used[i] = false;
            }
        }
    }
    let mut out = vec![];
    rec(n, &mut vec![], &mut vec![false; n], &mut out);
    out
}

/// All compositions of `n` into positive parts (2^(n-1) of them; `n == 0` gives one empty one).
pub fn compositions(n: usize) -> Vec<Vec<usize>> {
    if n == 0 {
        return vec![vec![]];
    }
    if n > 20 {
        // too many to enumerate: a fixed, structured selection (callers say so in their rule)
        let mut out = vec![vec![n], vec![1, n - 1], vec![n - 1, 1], vec![n / 2, n - n / 2], vec![1; n]];
        for k in [3usize, 7, 1024, 4096, 4097] {
            if k < n {
                let mut parts = vec![k; n / k];
                if n % k != 0 {
                    parts.push(n % k);
                }
                out.push(parts);
            }
        }
        return out;
    }
    let mut out = vec![];
    for mask in 0u32..(1u32 << (n - 1)) {
        let mut parts = vec![];
        let mut cur = 1;
        for i in 0..n - 1 {
            if mask & (1 << i) != 0 {
                parts.push(cur);
                cur = 1;
            } else {
                cur += 1;
            }
        }
        parts.push(cur);
        out.push(parts);
    }
    out
}
