//! Logical dump of a container through the real reader: pack list, indexes, entries, values,
//! content sizes and hashes, check result. Every node may be `{"err": kind}` instead (lazy errors
//! stay where they occur). Plus "rich" reference containers built from a DirSpec + contents.

use crate::dirmodel::*;
use crate::gen::Entropy;
use crate::packs::*;
use jubako as jbk;
use jbk::reader::MayMissPack;
use serde_json::{json, Map, Value as J};
use std::path::{Path, PathBuf};
use std::sync::Arc;

pub fn err_node(e: impl std::fmt::Display) -> J {
    json!({ "err": format!("{e}").chars().take(160).collect::<String>() })
}

/// Error node from a jubako error without formatting the (possibly huge) corrupted buffer.
pub fn jerr(e: jbk::Error) -> J {
    let text = match &*e {
        jbk::ErrorKind::Corrupted(_) => "Corrupted (checksum mismatch)".to_string(),
        other => format!("{other}").chars().take(160).collect(),
    };
    json!({ "err": text })
}

pub fn is_err(j: &J) -> bool {
    j.as_object().map(|o| o.len() == 1 && o.contains_key("err")).unwrap_or(false)
}

pub struct DumpOpts {
    pub index_names: Vec<String>,
    /// content packs ids to enumerate (each 0..count)
    pub pack_ids: Vec<u16>,
    /// also dump the manifest's pack infos (needs the container/manifest at offset 0 of the file)
    pub with_manifest: bool,
}

fn entry_json(e: &ReadEntry) -> J {
    let mut vals = Map::new();
    for (k, v) in &e.vals {
        vals.insert(k.clone(), v.to_json());
    }
    json!({"variant": e.variant, "values": vals})
}

pub fn dump_index(od: &OpenDir, name: &str) -> J {
    let oi = match od.index(name) {
        Err(e) => return err_node(e),
        Ok(None) => return json!("no such index"),
        Ok(Some(oi)) => oi,
    };
    use jbk::reader::Range;
    let count = oi.count();
    let mut entries = vec![];
    for i in 0..count.min(100_000) {
        entries.push(match oi.entry(i) {
            Ok(Some(e)) => entry_json(&e),
            Ok(None) => json!("none"),
            Err(e) => err_node(e),
        });
    }
    json!({
        "offset": oi.index.offset().into_u32(),
        "count": count,
        "store": oi.index.get_store_id().into_u32(),
        "header": format!("{:?}", oi.index),
        "entries": entries,
    })
}

pub fn dump_content(c: &jbk::reader::Container, pack: u16, idx: u32) -> J {
    let direct = dump_content_direct(c, pack, idx);
    // the same question asked through the helpers of MayMissPack the documentation of get_bytes
    // shows (`transpose`, `as_ref`, `get`): the answer has the same shape
    let a = jbk::ContentAddress::new(jbk::PackId::from(pack), jbk::ContentIdx::from(idx));
    let shape_of = |j: &J| -> &'static str {
        if j == &json!("no such pack") {
            "no such pack"
        } else if j == &json!("no such content") {
            "no such content"
        } else if j.get("missing").is_some() {
            "missing"
        } else if j.get("err").is_some() {
            "error"
        } else {
            "found"
        }
    };
    let via_transpose = match c.get_bytes(a) {
        Err(_) => "error",
        Ok(None) => "no such pack",
        Ok(Some(m)) => match m.transpose() {
            None => "no such content",
            Some(MayMissPack::MISSING(_)) => "missing",
            Some(MayMissPack::FOUND(_)) => "found",
        },
    };
    let via_get = match c.get_bytes(a) {
        Err(_) => "error",
        Ok(None) => "no such pack",
        Ok(Some(m)) => {
            let missing = matches!(m.as_ref(), MayMissPack::MISSING(_));
            match m.get() {
                None if missing => "missing",
                None => "helpers disagree: as_ref says found, get says none",
                Some(_) if missing => "helpers disagree: as_ref says missing, get says some",
                Some(None) => "no such content",
                Some(Some(_)) => "found",
            }
        }
    };
    let want = shape_of(&direct);
    if via_transpose != want || via_get != want {
        return json!({"helpers_disagree": {"match": want, "transpose": via_transpose, "as_ref_get": via_get}});
    }
    direct
}

fn dump_content_direct(c: &jbk::reader::Container, pack: u16, idx: u32) -> J {
    let a = jbk::ContentAddress::new(jbk::PackId::from(pack), jbk::ContentIdx::from(idx));
    match c.get_bytes(a) {
        Err(e) => jerr(e),
        Ok(None) => json!("no such pack"),
        Ok(Some(MayMissPack::MISSING(info))) => json!({"missing": {"pack_id": info.pack_id.into_u16(), "location": info.pack_location.as_str(), "uuid": info.uuid.to_string()}}),
        Ok(Some(MayMissPack::FOUND(None))) => json!("no such content"),
        Ok(Some(MayMissPack::FOUND(Some(region)))) => {
            let size = region.size().into_u64();
            match read_region(&region) {
                Ok(b) => json!({"size": size, "blake3": blake3::hash(&b).to_hex().to_string(), "read": b.len()}),
                Err(e) => json!({"size": size, "bytes": err_node(e)}),
            }
        }
    }
}

pub fn pack_info_json(p: &jbk::reader::PackInfo) -> J {
    json!({
        "uuid": p.uuid.to_string(),
        "size": p.pack_size.into_u64(),
        "id": p.pack_id.into_u16(),
        "kind": format!("{:?}", p.pack_kind),
        "group": p.pack_group,
        "free_data_id": p.free_data_id.into_u64(),
        "location": p.pack_location.as_str(),
        "check_info_pos": format!("{:?}", p.check_info_pos),
    })
}

pub fn dump_manifest(path: &Path) -> J {
    let cp = match jbk::tools::open_pack(path) {
        Ok(c) => c,
        Err(e) => return err_node(e),
    };
    let reader = match cp.get_manifest_pack_reader() {
        Ok(Some(r)) => r,
        Ok(None) => return json!("no manifest"),
        Err(e) => return err_node(e),
    };
    let m = match jbk::reader::ManifestPack::new(reader) {
        Ok(m) => m,
        Err(e) => return err_node(e),
    };
    use jbk::Pack;
    let infos: Vec<J> = m.get_pack_infos().iter().map(pack_info_json).collect();
    let mut free = vec![];
    for p in m.get_pack_infos() {
        free.push(match m.get_pack_free_data_uuid(p.uuid) {
            Ok(Some(d)) => json!(crate::hex(d)),
            Ok(None) => json!(null),
            Err(e) => err_node(e),
        });
    }
    json!({
        "uuid": m.uuid().to_string(),
        "pack_count": m.pack_count().into_u16(),
        "directory": pack_info_json(m.get_directory_pack_info()),
        "packs": infos,
        "packs_free_data": free,
        "free_data": crate::hex(&*m.get_free_data()),
        "size": m.size().into_u64(),
        "check": match m.check() { Ok(b) => json!(b), Err(e) => err_node(e) },
    })
}

/// What `tools::open_pack` says about each file of a container set: the packs it holds (by uuid,
/// sorted) and whether it knows a manifest - the pack list a tool like `concat` works from.
pub fn dump_file_packs(dir: &Path, files: &[String]) -> J {
    let mut out = Map::new();
    for f in files {
        let node = match jbk::tools::open_pack(dir.join(f)) {
            Err(e) => jerr(e),
            Ok(cp) => {
                let mut uuids: Vec<String> = cp.iter().map(|(u, _)| u.to_string()).collect();
                uuids.sort();
                json!({"pack_count": cp.pack_count().into_u16(), "packs": uuids})
            }
        };
        out.insert(f.replace('/', "_"), node);
    }
    J::Object(out)
}

/// Dump everything a reader can learn from the container at `path`.
pub fn dump_container(path: &Path, opts: &DumpOpts) -> J {
    let mut out = Map::new();
    let c = match jbk::reader::Container::new(path) {
        Ok(c) => c,
        Err(e) => {
            out.insert("open".into(), err_node(e));
            return J::Object(out);
        }
    };
    out.insert("open".into(), json!("ok"));
    out.insert("pack_count".into(), json!(c.pack_count().into_u16()));
    if opts.with_manifest {
        out.insert("manifest".into(), dump_manifest(path));
    }
    {
        use jbk::Pack;
        let d = c.get_directory_pack();
        out.insert(
            "directory".into(),
            json!({"free_data": crate::hex(d.get_free_data()), "size": d.size().into_u64(), "kind": format!("{:?}", d.kind()), "vendor": format!("{:?}", &*d.app_vendor_id())}),
        );
    }
    let od = open_from(Arc::clone(c.get_directory_pack()));
    let mut indexes = Map::new();
    for n in &opts.index_names {
        indexes.insert(n.clone(), dump_index(&od, n));
    }
    out.insert("indexes".into(), J::Object(indexes));
    // second use of the same directory pack object: every index header asked again by its id,
    // highest id first (an answer remembered from the first pass, or from a later index, must
    // still be the checked one)
    {
        use jbk::reader::Range;
        let mut by_id = Map::new();
        for k in (0..(opts.index_names.len() as u32 + 1)).rev() {
            let node = match crate::catch(|| od.dir.get_index(k.into())) {
                Ok(Ok(ix)) => json!({"offset": ix.offset().into_u32(), "count": ix.count().into_u32(), "store": ix.get_store_id().into_u32()}),
                Ok(Err(e)) => jerr(e),
                Err(p) => json!({"panic": p}),
            };
            by_id.insert(k.to_string(), node);
        }
        out.insert("indexes_by_id".into(), J::Object(by_id));
    }
    let mut contents = Map::new();
    let mut packs = Map::new();
    for &p in &opts.pack_ids {
        let count = match c.get_pack(jbk::PackId::from(p)) {
            Err(e) => {
                packs.insert(p.to_string(), jerr(e));
                continue;
            }
            Ok(None) => {
                packs.insert(p.to_string(), json!("no such pack"));
                continue;
            }
            Ok(Some(MayMissPack::MISSING(info))) => {
                packs.insert(p.to_string(), json!({"missing": pack_info_json(&info)}));
                // still probe content 0: must be reported missing
                contents.insert(format!("{p}/0"), dump_content(&c, p, 0));
                continue;
            }
            Ok(Some(MayMissPack::FOUND(pack))) => {
                use jbk::Pack;
                let n = pack.get_content_count().into_u32();
                packs.insert(p.to_string(), json!({"content_count": n, "size": pack.size().into_u64(), "free_data": crate::hex(pack.get_free_data()), "uuid": pack.uuid().to_string()}));
                n
            }
        };
        for i in 0..count.min(20_000) {
            contents.insert(format!("{p}/{i}"), dump_content(&c, p, i));
        }
        contents.insert(format!("{p}/{count}"), dump_content(&c, p, count));
        // the same container answers a second request for a content the way it answered the first
        // one, whatever it remembers of the first (first and last content of the pack)
        if count > 0 {
            contents.insert(format!("{p}/0#again"), dump_content(&c, p, 0));
            contents.insert(format!("{p}/{}#again", count - 1), dump_content(&c, p, count - 1));
        }
    }
    out.insert("packs".into(), J::Object(packs));
    out.insert("contents".into(), J::Object(contents));
    out.insert(
        "check".into(),
        match c.check() {
            Ok(b) => json!(b),
            Err(e) => err_node(e),
        },
    );
    J::Object(out)
}

/// Replace every uuid-looking string by its rank of first appearance (dumps of separately created
/// containers become comparable).
pub fn normalize_uuids(j: &mut J) {
    fn looks(s: &str) -> bool {
        s.len() == 36 && s.as_bytes()[8] == b'-' && s.as_bytes()[13] == b'-'
    }
    fn walk(j: &mut J, seen: &mut Vec<String>) {
        match j {
            J::String(s) if looks(s) => {
                let r = match seen.iter().position(|x| x == s) {
                    Some(r) => r,
                    None => {
                        seen.push(s.clone());
                        seen.len() - 1
                    }
                };
                *s = format!("uuid#{r}");
            }
            J::Array(a) => a.iter_mut().for_each(|x| walk(x, seen)),
            J::Object(o) => o.iter_mut().for_each(|(_, x)| walk(x, seen)),
            _ => {}
        }
    }
    walk(j, &mut vec![]);
}

#[derive(Debug, Clone)]
pub struct Diff {
    pub path: String,
    pub pristine: String,
    pub altered: String,
}

/// Node-by-node comparison: a node of `altered` that is an error node is fine; anything else
/// must equal the pristine node. Returns the differing (non-error) nodes.
pub fn compare(pristine: &J, altered: &J, path: &str, out: &mut Vec<Diff>) {
    if is_err(altered) {
        return;
    }
    match (pristine, altered) {
        (J::Object(a), J::Object(b)) => {
            for (k, va) in a {
                // a node absent from the altered dump is the consequence of an error recorded
                // higher up or next to it (counts and lengths are always present, so a reader that
                // silently returns fewer things is still seen through them)
                if let Some(vb) = b.get(k) {
                    compare(va, vb, &format!("{path}/{k}"), out)
                }
            }
            for (k, vb) in b {
                if !a.contains_key(k) && !is_err(vb) {
                    out.push(Diff { path: format!("{path}/{k}"), pristine: "<absent>".into(), altered: short(vb) });
                }
            }
        }
        (J::Array(a), J::Array(b)) => {
            if a.len() != b.len() {
                out.push(Diff { path: format!("{path}/#len"), pristine: a.len().to_string(), altered: b.len().to_string() });
            }
            for (i, (va, vb)) in a.iter().zip(b.iter()).enumerate() {
                compare(va, vb, &format!("{path}/{i}"), out);
            }
        }
        (a, b) => {
            if a != b {
                out.push(Diff { path: path.to_string(), pristine: short(a), altered: short(b) });
            }
        }
    }
}

fn short(j: &J) -> String {
    let s = j.to_string();
    if s.len() > 200 {
        format!("{}…", &s[..200])
    } else {
        s
    }
}

// ------------------------------------------------------------------ rich reference containers

/// A logical container: contents (for pack 1, and extra packs 2..), a directory spec whose
/// `Val::C(pack, idx)` values point at them.
#[derive(Clone, Debug)]
pub struct Logical {
    pub name: String,
    pub contents: Vec<Item>,
    pub extra_packs: Vec<Vec<Item>>,
    pub dir: DirSpec,
}

struct SpecEntries(DirSpec);
impl jbk::creator::EntryStoreTrait for SpecEntries {
    fn finalize(self: Box<Self>, directory_pack: &mut jbk::creator::DirectoryPackCreator) {
        populate(&self.0, None, directory_pack);
    }
}

pub fn shape(name: &str) -> Logical {
    let item = |len, entropy, hint, tag| Item { len, entropy, hint, src: Src::Memory, tag };
    match name {
        // one content, one plain column set
        "small" => Logical {
            name: name.into(),
            contents: vec![item(40, Entropy::Low, Hint::Detect, 1)],
            extra_packs: vec![],
            dir: DirSpec {
                schema: SchemaSpec { stores: vec![StoreKind::Plain], common: vec![PropSpec::A { prefix: 2, store: 0 }, PropSpec::U, PropSpec::C], variants: vec![], sort: None },
                entries: vec![
                    EntrySpec { variant: None, vals: vec![Val::A(b"hello".to_vec()), Val::U(7), Val::C(1, 0)] },
                    EntrySpec { variant: None, vals: vec![Val::A(b"he".to_vec()), Val::U(300), Val::C(1, 0)] },
                ],
                indexes: vec![IndexSpec { name: "main".into(), offset: 0, count: 2 }],
            },
        },
        // raw + compressed clusters, variants, two value stores, two indexes
        "multi" | "big" => {
            let big = name == "big";
            let mut contents = vec![
                item(3000, Entropy::Low, Hint::Yes, 1),
                item(700, Entropy::High, Hint::No, 2),
                item(0, Entropy::Low, Hint::Detect, 3),
                item(1200, Entropy::Low, Hint::Yes, 4),
                item(5, Entropy::High, Hint::No, 5),
            ];
            if big {
                contents.push(item(9000, Entropy::Low, Hint::Yes, 6));
                contents.push(item(6000, Entropy::High, Hint::No, 7));
            }
            let n_entries = if big { 400 } else { 6 };
            let entries: Vec<EntrySpec> = (0..n_entries)
                .map(|i| {
                    let v = i % 3;
                    let mut vals = vec![
                        Val::A(format!("name-{i:03}").into_bytes()),
                        Val::U((i as u64) * 100),
                        Val::S(-(i as i64) * 50 + 3),
                    ];
                    match v {
                        0 => vals.push(Val::C(1, (i % contents.len()) as u32)),
                        1 => {
                            vals.push(Val::A(format!("t{}", i % 4).into_bytes()));
                            vals.push(Val::U(i as u64 % 2));
                        }
                        _ => {}
                    }
                    EntrySpec { variant: Some(v), vals }
                })
                .collect();
            Logical {
                name: name.into(),
                contents,
                extra_packs: vec![],
                dir: DirSpec {
                    schema: SchemaSpec {
                        stores: vec![StoreKind::Plain, StoreKind::Indexed],
                        common: vec![PropSpec::A { prefix: 1, store: 0 }, PropSpec::U, PropSpec::S],
                        variants: vec![vec![PropSpec::C], vec![PropSpec::A { prefix: 0, store: 1 }, PropSpec::U], vec![]],
                        sort: None,
                    },
                    entries,
                    indexes: vec![
                        IndexSpec { name: "all".into(), offset: 0, count: n_entries as u32 },
                        IndexSpec { name: "window".into(), offset: 1, count: 3 },
                    ],
                },
            }
        }
        // two extra content packs (manifest lists 3 content packs)
        "multi2" => {
            let mut l = shape("multi");
            l.name = name.into();
            l.extra_packs = vec![
                vec![item(800, Entropy::Low, Hint::Yes, 21), item(90, Entropy::High, Hint::No, 22)],
                vec![item(300, Entropy::High, Hint::No, 23), item(1500, Entropy::Low, Hint::Yes, 24)],
            ];
            let n = l.dir.entries.len();
            for (i, e) in l.dir.entries.iter_mut().enumerate() {
                if e.variant == Some(0) {
                    let last = e.vals.len() - 1;
                    e.vals[last] = Val::C((1 + i % 3) as u16, (i % 2) as u32);
                }
            }
            let _ = n;
            l
        }
        // "multi" with one source that cannot be read: the first content (hint Yes, first cluster)
        // or the last compressed content (last cluster of the pack)
        "multi-badfirst" | "multi-badlast" => {
            let mut l = shape("multi");
            l.name = name.into();
            let k = if name == "multi-badfirst" { 0 } else { 3 };
            l.contents[k].tag = UNREADABLE_TAG;
            l
        }
        // a raw content first (cluster 0), then one compressed content that cannot be read: the
        // cluster that gets lost is the one with the highest index
        "badhigh" => {
            let mut l = shape("small");
            l.name = name.into();
            l.contents = vec![item(700, Entropy::High, Hint::No, 2), item(3000, Entropy::Low, Hint::Yes, UNREADABLE_TAG)];
            l
        }
        // a compressed cluster stored on more than 8 KiB (written in one call past the writer's
        // buffer) and one extra content pack in its own file
        "mid" => {
            let mut l = shape("small");
            l.name = name.into();
            l.contents = vec![item(160 * 1024, Entropy::Low, Hint::Yes, 70), item(300, Entropy::High, Hint::No, 71)];
            l.extra_packs = vec![vec![item(500, Entropy::Low, Hint::Detect, 72)]];
            l
        }
        // one compressed cluster whose plain data (12 x 48 KiB) spans several blocks of every codec:
        // a decoder that fails late has already published a prefix
        "wide" => {
            let mut l = shape("small");
            l.name = name.into();
            l.contents = (0..12).map(|i| item(48 * 1024, Entropy::Low, Hint::Yes, 300 + i as u64)).collect();
            l
        }
        // as multi2 with contents of a few bytes (the loom engines keep one shadow cell per decoded
        // byte and loom's version counters are 16 bits wide)
        "tiny3" => {
            let mut l = shape("multi2");
            l.name = name.into();
            l.contents = vec![
                item(9, Entropy::Low, Hint::Yes, 1),
                item(7, Entropy::High, Hint::No, 2),
                item(0, Entropy::Low, Hint::Detect, 3),
                item(6, Entropy::Low, Hint::Yes, 4),
                item(5, Entropy::High, Hint::No, 5),
            ];
            l.extra_packs = vec![
                vec![item(8, Entropy::Low, Hint::Yes, 21), item(4, Entropy::High, Hint::No, 22)],
                vec![item(3, Entropy::High, Hint::No, 23), item(10, Entropy::Low, Hint::Yes, 24)],
            ];
            l
        }
        // more than 1024 contents in one raw cluster: the content-info table is a checked block above 4 KiB
        "many" => Logical {
            name: name.into(),
            contents: (0..1100).map(|i| item(1 + i % 3, Entropy::Low, Hint::No, 5000 + i as u64)).collect(),
            extra_packs: vec![],
            dir: DirSpec {
                schema: SchemaSpec { stores: vec![StoreKind::Plain], common: vec![PropSpec::A { prefix: 2, store: 0 }, PropSpec::C], variants: vec![], sort: None },
                entries: (0..3).map(|i| EntrySpec { variant: None, vals: vec![Val::A(format!("e{i}").into_bytes()), Val::C(1, (i * 500) as u32)] }).collect(),
                indexes: vec![IndexSpec { name: "main".into(), offset: 0, count: 3 }],
            },
        },
        // a content-info table above 64 KiB (a checked block larger than any 16-bit size)
        "huge" => Logical {
            name: name.into(),
            contents: (0..17_000).map(|i| item(1 + i % 2, Entropy::Low, Hint::No, 9000 + i as u64)).collect(),
            extra_packs: vec![],
            dir: DirSpec {
                schema: SchemaSpec { stores: vec![StoreKind::Plain], common: vec![PropSpec::A { prefix: 2, store: 0 }, PropSpec::C], variants: vec![], sort: None },
                entries: (0..3).map(|i| EntrySpec { variant: None, vals: vec![Val::A(format!("h{i}").into_bytes()), Val::C(1, (i * 8000) as u32)] }).collect(),
                indexes: vec![IndexSpec { name: "main".into(), offset: 0, count: 3 }],
            },
        },
        other => panic!("unknown shape {other}"),
    }
}

pub struct CreatedLogical {
    /// entry point
    pub path: PathBuf,
    /// every file that belongs to the container (entry point first)
    pub files: Vec<PathBuf>,
}

/// Items carrying this tag are handed to the creator as an unreadable source.
pub const UNREADABLE_TAG: u64 = 0xBAD_50;

fn add_items<A: jbk::creator::ContentAdder + ?Sized>(adder: &mut A, items: &[Item]) -> Result<(), String> {
    for it in items {
        if it.tag == UNREADABLE_TAG {
            // a source whose size is known but whose bytes cannot be read: a file opened for
            // writing only (every read answers EBADF)
            let p = std::path::Path::new(&crate::scratch_base()).join(format!("jbkmc-unreadable-{}-{}.bin", std::process::id(), it.len));
            std::fs::write(&p, it.bytes()).map_err(|e| e.to_string())?;
            let f = std::fs::OpenOptions::new().write(true).open(&p).map_err(|e| e.to_string())?;
            let src = jbk::creator::InputFile::new(f).map_err(|e| format!("unreadable source: {e}"))?;
            let r = adder.add_content(Box::new(src), it.hint.to_jbk()).map_err(|e| format!("add_content: {e}"));
            let _ = std::fs::remove_file(&p);
            r?;
            continue;
        }
        if it.src != Src::Memory {
            // a whole file, or a window at a non-zero origin of a larger file
            let p = std::path::Path::new(&crate::scratch_base()).join(format!("jbkmc-src-{}-{}-{}.bin", std::process::id(), it.len, it.tag));
            let bytes = it.bytes();
            let (origin, all) = if it.src == Src::FileRange {
                let mut all = crate::gen::payload(37, Entropy::High, 77);
                all.extend_from_slice(&bytes);
                all.extend_from_slice(&crate::gen::payload(53, Entropy::High, 78));
                (37u64, all)
            } else {
                (0u64, bytes.clone())
            };
            std::fs::write(&p, &all).map_err(|e| e.to_string())?;
            let f = std::fs::File::open(&p).map_err(|e| e.to_string())?;
            let src = if it.src == Src::FileRange { jbk::creator::InputFile::new_range(f, origin, Some(bytes.len() as u64)) } else { jbk::creator::InputFile::new(f) }.map_err(|e| format!("file source: {e}"))?;
            let r = adder.add_content(Box::new(src), it.hint.to_jbk()).map_err(|e| format!("add_content: {e}"));
            let _ = std::fs::remove_file(&p);
            r?;
            continue;
        }
        adder
            .add_content(Box::new(std::io::Cursor::new(it.bytes())), it.hint.to_jbk())
            .map_err(|e| format!("add_content: {e}"))?;
    }
    Ok(())
}

/// Create the logical container with BasicCreator (extra packs as separate bare files).
pub fn create_logical(l: &Logical, comp: Comp, packaging: Packaging, dir: &Path, stem: &str) -> Result<CreatedLogical, String> {
    create_logical_ext(l, comp, packaging, dir, stem, dir)
}

/// Same, with the extra content packs written into `extra_dir` (any directory, not necessarily
/// the one of the entry-point file).
pub fn create_logical_ext(l: &Logical, comp: Comp, packaging: Packaging, dir: &Path, stem: &str, extra_dir: &Path) -> Result<CreatedLogical, String> {
    create_logical_named(l, comp, packaging, dir, &format!("{stem}.jbk"), stem, extra_dir)
}

thread_local! {
    /// hand the extra content packs to `BasicCreator::finalize` in reverse order (ids 3, 2 instead
    /// of 2, 3): the manifest then lists its packs in an order that is not the order of their ids
    pub static REVERSE_EXTRAS: std::cell::Cell<bool> = const { std::cell::Cell::new(false) };
}

/// Same, with the file name of the entry point given in full (any extension, or none).
pub fn create_logical_named(l: &Logical, comp: Comp, packaging: Packaging, dir: &Path, file_name: &str, stem: &str, extra_dir: &Path) -> Result<CreatedLogical, String> {
    let r = crate::catch(|| -> Result<CreatedLogical, String> {
        let path = dir.join(file_name);
        let base_name = Path::new(file_name).file_name().and_then(|n| n.to_str()).unwrap_or("");
        let first = base_name.split('.').next().unwrap_or("");
        let p = camino::Utf8PathBuf::from_path_buf(path.clone()).unwrap();
        let cm = match packaging {
            Packaging::OneFile => jbk::creator::ConcatMode::OneFile,
            Packaging::TwoFiles => jbk::creator::ConcatMode::TwoFiles,
            Packaging::NoConcat => jbk::creator::ConcatMode::NoConcat,
            Packaging::Bare => return Err("bare is not a container packaging".into()),
        };
        let mut creator = jbk::creator::BasicCreator::new(&p, cm, jbk::VendorId::from(VENDOR), comp.to_jbk(), Arc::new(()))
            .map_err(|e| format!("creator: {e}"))?;
        add_items(&mut creator, &l.contents)?;
        let mut extras: Vec<jbk::creator::ContentPackCreator<dyn jbk::creator::PackRecipient>> = vec![];
        let mut files = vec![path.clone()];
        for (k, items) in l.extra_packs.iter().enumerate() {
            let ep = extra_dir.join(format!("{stem}.extra{}.jbkc", k + 2));
            let up = camino::Utf8PathBuf::from_path_buf(ep.clone()).unwrap();
            let file: Box<dyn jbk::creator::PackRecipient> =
                jbk::creator::AtomicOutFile::new(&up).map_err(|e| format!("extra file: {e}"))?;
            let mut c = jbk::creator::ContentPackCreator::<dyn jbk::creator::PackRecipient>::new_from_output(
                file,
                jbk::PackId::from((k + 2) as u16),
                jbk::VendorId::from(VENDOR),
                Default::default(),
                comp.to_jbk(),
            )
            .map_err(|e| format!("extra creator: {e}"))?;
            add_items(&mut c, items)?;
            files.push(ep);
            extras.push(c);
        }
        if REVERSE_EXTRAS.with(|r| r.get()) {
            extras.reverse();
        }
        creator
            .finalize(Box::new(SpecEntries(l.dir.clone())), extras)
            .map_err(|e| format!("finalize: {e}"))?;
        // the pack files BasicCreator wrote next to the entry point, whatever it named them (today
        // "<stem>.jbkc" and "<stem>..jbkd"): the content pack first, then the others by name
        if !matches!(packaging, Packaging::OneFile) {
            let mut found: Vec<PathBuf> = std::fs::read_dir(path.parent().unwrap_or(dir))
                .map_err(|e| format!("listing: {e}"))?
                .filter_map(|e| e.ok().map(|e| e.path()))
                .filter(|f| f.is_file() && !files.contains(f) && f.file_name().and_then(|n| n.to_str()).map_or(false, |n| n.starts_with(first)))
                .filter(|f| f.extension().and_then(|e| e.to_str()).map_or(false, |e| e.starts_with("jbk")))
                .collect();
            found.sort_by_key(|f| (f.extension().map_or(true, |e| e != "jbkc"), f.clone()));
            files.extend(found);
        }
        let mut seen = std::collections::BTreeSet::new();
        files.retain(|f| seen.insert(f.clone()));
        Ok(CreatedLogical { path, files })
    });
    match r {
        Ok(x) => x,
        Err(p) => Err(format!("panic {p}")),
    }
}

/// Low-level construction: bare content packs + bare directory + manifest file with locations.
/// `order`: the order in which [directory, pack 1, .., pack n] are listed in the manifest.
pub fn create_lowlevel(l: &Logical, comp: Comp, dir: &Path, order: &[usize]) -> Result<CreatedLogical, String> {
    crate::catch(|| -> Result<CreatedLogical, String> {
        let vendor = jbk::VendorId::from(VENDOR);
        let mut files = vec![];
        let mut infos = vec![];
        let mut all: Vec<(u16, &Vec<Item>)> = vec![(1, &l.contents)];
        for (k, e) in l.extra_packs.iter().enumerate() {
            all.push(((k + 2) as u16, e));
        }
        for (id, items) in all {
            let p = dir.join(format!("pack{id}.jbkc"));
            let up = camino::Utf8PathBuf::from_path_buf(p.clone()).unwrap();
            let mut c = jbk::creator::ContentPackCreator::new(&up, jbk::PackId::from(id), vendor, Default::default(), comp.to_jbk()).map_err(|e| e.to_string())?;
            for it in items {
                c.add_content(Box::new(std::io::Cursor::new(it.bytes())), it.hint.to_jbk()).map_err(|e| e.to_string())?;
            }
            let (_f, info) = c.finalize().map_err(|e| e.to_string())?;
            infos.push((info, format!("pack{id}.jbkc")));
            files.push(p);
        }
        let mut d = jbk::creator::DirectoryPackCreator::new(jbk::PackId::from(0), vendor, Default::default());
        populate(&l.dir, None, &mut d);
        let dp = dir.join("dir.jbkd");
        let mut df = std::fs::OpenOptions::new().read(true).write(true).create(true).truncate(true).open(&dp).map_err(|e| e.to_string())?;
        let dinfo = d.finalize().map_err(|e| e.to_string())?.write(&mut df).map_err(|e| e.to_string())?;
        let mut m = jbk::creator::ManifestPackCreator::new(vendor, Default::default());
        let mut listed: Vec<Option<(jbk::creator::PackData, String)>> = vec![Some((dinfo, "dir.jbkd".to_string()))];
        listed.extend(infos.into_iter().map(Some));
        let identity: Vec<usize> = (0..listed.len()).collect();
        let order: &[usize] = if order.is_empty() { &identity } else { order };
        assert_eq!(order.len(), listed.len());
        for &k in order {
            let (info, loc) = listed[k].take().expect("each pack once");
            m.add_pack(info, loc);
        }
        let mp = dir.join("main.jbkm");
        let mut mf = std::fs::OpenOptions::new().read(true).write(true).create(true).truncate(true).open(&mp).map_err(|e| e.to_string())?;
        m.finalize(&mut mf).map_err(|e| e.to_string())?;
        let mut all_files = vec![mp.clone()];
        all_files.extend(files);
        all_files.push(dp);
        Ok(CreatedLogical { path: mp, files: all_files })
    })
    .unwrap_or_else(|p| Err(format!("panic {p}")))
}


/// The model's dump of a logical container: what `dump_container` must return for it.
pub fn opts_for(l: &Logical) -> DumpOpts {
    DumpOpts {
        index_names: l.dir.indexes.iter().map(|i| i.name.clone()).collect(),
        pack_ids: (1..=(1 + l.extra_packs.len() as u16)).chain([99u16]).collect(),
        with_manifest: false,
    }
}

/// Expected dump (subset that the model defines): indexes/entries/values and contents.
/// position -> spec entry, for a store sorted on its `sort` columns (identity when unsorted)
pub fn final_order(dir: &DirSpec) -> Vec<usize> {
    let mut idx: Vec<usize> = (0..dir.entries.len()).collect();
    if let Some(keys) = &dir.schema.sort {
        idx.sort_by(|a, b| {
            for k in keys {
                let o = dir.entries[*a].vals[*k].cmp(&dir.entries[*b].vals[*k]);
                if o != std::cmp::Ordering::Equal {
                    return o;
                }
            }
            std::cmp::Ordering::Equal
        });
    }
    idx
}

pub fn model_dump(l: &Logical) -> J {
    let mut indexes = Map::new();
    let order = final_order(&l.dir);
    let mut pos = vec![0u64; order.len()];
    for (p, k) in order.iter().enumerate() {
        pos[*k] = p as u64;
    }
    for ix in &l.dir.indexes {
        let entries: Vec<J> = (0..ix.count)
            .map(|i| entry_json(&expected_entry(&l.dir, order[(ix.offset + i) as usize], &|k| pos[k])))
            .collect();
        indexes.insert(ix.name.clone(), json!({"offset": ix.offset, "count": ix.count, "entries": entries}));
    }
    let mut contents = Map::new();
    let mut all: Vec<(u16, &Vec<Item>)> = vec![(1, &l.contents)];
    for (k, e) in l.extra_packs.iter().enumerate() {
        all.push(((k + 2) as u16, e));
    }
    for (p, items) in all {
        for (i, it) in items.iter().enumerate() {
            let b = it.bytes();
            contents.insert(format!("{p}/{i}"), json!({"size": b.len(), "blake3": blake3::hash(&b).to_hex().to_string(), "read": b.len()}));
        }
        contents.insert(format!("{p}/{}", items.len()), json!("no such content"));
        if !items.is_empty() {
            for i in [0, items.len() - 1] {
                let again = contents[&format!("{p}/{i}")].clone();
                contents.insert(format!("{p}/{i}#again"), again);
            }
        }
    }
    json!({"open": "ok", "indexes": indexes, "contents": contents, "check": true})
}

/// Compare the model-defined part of a dump: every node the model defines must be equal.
pub fn compare_with_model(model: &J, dump: &J) -> Vec<Diff> {
    fn walk(m: &J, d: &J, path: &str, out: &mut Vec<Diff>) {
        match (m, d) {
            (J::Object(a), J::Object(b)) => {
                for (k, va) in a {
                    match b.get(k) {
                        Some(vb) => walk(va, vb, &format!("{path}/{k}"), out),
                        None => out.push(Diff { path: format!("{path}/{k}"), pristine: short(va), altered: "<absent>".into() }),
                    }
                }
            }
            (J::Array(a), J::Array(b)) => {
                if a.len() != b.len() {
                    out.push(Diff { path: format!("{path}/#len"), pristine: a.len().to_string(), altered: b.len().to_string() });
                }
                for (i, (va, vb)) in a.iter().zip(b.iter()).enumerate() {
                    walk(va, vb, &format!("{path}/{i}"), out);
                }
            }
            (a, b) => {
                if a != b {
                    out.push(Diff { path: path.to_string(), pristine: short(a), altered: short(b) });
                }
            }
        }
    }
    let mut out = vec![];
    walk(model, dump, "", &mut out);
    out
}
