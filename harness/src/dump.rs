//! placeholder (filled below)
