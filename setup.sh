#!/bin/sh
# Build the framework offline from files on disk only (fresh restore).
set -e
cd "$(dirname "$0")/harness"
export CARGO_NET_OFFLINE=true
RUSTFLAGS="--cfg jubako_verif" cargo build --offline --release 2>&1 | grep -v "^warning\|^ *|\|^ *=\|^ *-->\|^$\|^[0-9 ]*|\|^\.\.\." | tail -5
RUSTFLAGS="--cfg jubako_verif" cargo build --offline --bin faultmc --bin viewmc 2>&1 | grep -v "^warning\|^ *|\|^ *=\|^ *-->\|^$\|^[0-9 ]*|\|^\.\.\." | tail -3
cc -shared -fPIC -O1 -o ../shim/faultfs.so ../shim/faultfs.c -ldl -lpthread
cc -shared -fPIC -O1 -o ../shim/mmapfail.so ../shim/mmapfail.c -ldl -lpthread
cc -shared -fPIC -O1 -o ../shim/shortread.so ../shim/shortread.c -ldl
(cd ../harness-loom && RUSTFLAGS="--cfg jubako_verif --cfg jubako_verif_loom" CARGO_TARGET_DIR=../harness/target-loom cargo build --offline --release 2>&1 | tail -1)
(cd ../harness-proto && cargo build --offline --release 2>&1 | tail -1)
echo "setup done"
