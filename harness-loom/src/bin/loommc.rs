//! loommc — stateless exploration (loom, preemption-bounded, iterated) of the REAL code of
//! `bases/io/compression.rs` (decoder progress publication: create_sync_vec, decode_to_end,
//! SyncVecRd, impl Source for SeekableDecoder) and of `FileSource::read` (seek+read under one
//! lock), built with --cfg jubako_verif_loom.
//!
//!   loommc decoder --chunks C --readers R --bound B [--ops all|ends]   one configuration
//!   loommc file --bound B
//! Prints one JSON line: {"executions":..,"ok":bool,"error":..}

use jubako as jbk;
use jubako::reader::Range;
use std::io::Read;

#[path = "../../../harness/src/indep.rs"]
#[allow(dead_code)]
mod indep;
use std::sync::atomic::{AtomicU64, Ordering};
use std::sync::Arc;

static EXECUTIONS: AtomicU64 = AtomicU64::new(0);
static INTERIOR_WAITS: AtomicU64 = AtomicU64::new(0);

/// The decoder's input: delivers the payload with scripted short reads.
struct Scripted {
    data: Vec<u8>,
    pos: usize,
    /// sizes of successive reads (cycled); 0 entries are skipped
    script: Vec<usize>,
    call: usize,
    /// stop delivering after that many bytes (premature end of the compressed stream)
    eof_at: Option<usize>,
}

impl Read for Scripted {
    fn read(&mut self, buf: &mut [u8]) -> std::io::Result<usize> {
        let limit = self.eof_at.unwrap_or(self.data.len()).min(self.data.len());
        if self.pos >= limit || buf.is_empty() {
            return Ok(0);
        }
        let want = self.script[self.call % self.script.len()].max(1);
        self.call += 1;
        let n = want.min(buf.len()).min(limit - self.pos);
        buf[..n].copy_from_slice(&self.data[self.pos..self.pos + n]);
        self.pos += n;
        Ok(n)
    }
}

#[derive(Clone, Copy, Debug)]
enum Op {
    GetSlice(usize, usize),
    Read(usize, usize),
    ReadExact(usize, usize),
    StreamToEnd(usize),
}

fn payload(n: usize) -> Vec<u8> {
    (0..n).map(|i| 0x30 + i as u8).collect()
}

fn run_op(region: &jbk::reader::ByteRegion, op: Op, data: &[u8], chunk: usize) {
    let total = data.len();
    match op {
        Op::GetSlice(o, n) => {
            let r = region.get_slice(jbk::Offset::new(o as u64), n);
            if o + n <= total {
                let s = r.expect("get_slice inside the data");
                assert_eq!(&s[..], &data[o..o + n], "get_slice({o},{n})");
                if (o + n) % chunk == 0 && o + n < total {
                    INTERIOR_WAITS.fetch_add(1, Ordering::Relaxed);
                }
            } else {
                assert!(r.is_err(), "get_slice past the end must be an error, not a wait");
            }
        }
        Op::Read(o, n) => {
            let mut buf = vec![0u8; n];
            let got = jbk::verif::region_read(region, o as u64, &mut buf).expect("read");
            let want = n.min(total - o);
            assert_eq!(got, want, "read({o},{n}) length");
            assert_eq!(&buf[..got], &data[o..o + got], "read({o},{n})");
            if (o + want) % chunk == 0 && o + want < total {
                INTERIOR_WAITS.fetch_add(1, Ordering::Relaxed);
            }
        }
        Op::ReadExact(o, n) => {
            let mut buf = vec![0u8; n];
            let r = jbk::verif::region_read_exact(region, o as u64, &mut buf);
            if o + n <= total {
                r.expect("read_exact inside the data");
                assert_eq!(&buf[..], &data[o..o + n], "read_exact({o},{n})");
            } else {
                assert!(r.is_err(), "read_exact past the end must be an error");
            }
        }
        Op::StreamToEnd(o) => {
            let view = region.cut(jbk::Offset::new(o as u64), jbk::Size::new((total - o) as u64));
            let mut s = view.stream();
            let mut out = vec![];
            let mut buf = [0u8; 3];
            loop {
                let n = s.read(&mut buf).expect("stream read");
                if n == 0 {
                    break;
                }
                out.extend_from_slice(&buf[..n]);
            }
            assert_eq!(&out[..], &data[o..], "stream from {o}");
        }
    }
}

fn all_ops(total: usize) -> Vec<Op> {
    let mut v = vec![];
    for o in 0..=total {
        for n in 0..=(total - o) {
            if n > 0 || o == total {
                v.push(Op::GetSlice(o, n));
            }
        }
    }
    v.push(Op::GetSlice(total - 1, 2)); // one past the end
    for o in 0..total {
        v.push(Op::Read(o, total)); // over-long buffer
        v.push(Op::Read(o, 1));
        v.push(Op::ReadExact(o, 1));
        v.push(Op::StreamToEnd(o));
    }
    v.push(Op::ReadExact(total - 1, 2));
    v
}

fn opt(args: &[String], name: &str) -> Option<String> {
    args.iter().position(|a| a == name).and_then(|i| args.get(i + 1).cloned())
}

fn model(bound: Option<usize>, f: impl Fn() + Sync + Send + 'static) -> Result<(), String> {
    // loom runs the closure on a coroutine with a small stack: do the work on a loom thread with
    // a large one (the extra spawn/join adds two scheduling points and one of loom's 5 threads
    // only for the `pipeline` models, which ask for it)
    let mut b = loom::model::Builder::new();
    b.preemption_bound = bound;
    b.max_branches = 100_000;
    let r = std::panic::catch_unwind(std::panic::AssertUnwindSafe(|| b.check(f)));
    r.map_err(|e| {
        if let Some(s) = e.downcast_ref::<String>() {
            s.clone()
        } else if let Some(s) = e.downcast_ref::<&str>() {
            s.to_string()
        } else {
            "panic".into()
        }
    })
}

fn main() {
    let args: Vec<String> = std::env::args().collect();
    let sub = args.get(1).cloned().unwrap_or_default();
    let bound: Option<usize> = opt(&args, "--bound").and_then(|b| if b == "none" { None } else { b.parse().ok() });
    // keep loom's panic output short
    if std::env::var("LOOMMC_VERBOSE").is_err() {
        // one compact line per panic (loom may abort the process on a panic inside a panic: the
        // driver then classifies the failure from these lines)
        std::panic::set_hook(Box::new(|info| {
            let msg = if let Some(s) = info.payload().downcast_ref::<&str>() {
                s.to_string()
            } else if let Some(s) = info.payload().downcast_ref::<String>() {
                s.clone()
            } else {
                "?".into()
            };
            let loc = info.location().map(|l| format!("{}:{}", l.file(), l.line())).unwrap_or_default();
            eprintln!("PANIC: {} at {}", msg.replace('\n', " ").chars().take(200).collect::<String>(), loc);
        }));
    }
    let result = match sub.as_str() {
        "decoder" => {
            let chunks: usize = opt(&args, "--chunks").unwrap().parse().unwrap();
            let readers: usize = opt(&args, "--readers").unwrap().parse().unwrap();
            let chunk = 2usize;
            let total = chunks * chunk;
            let data = payload(total);
            let ops = all_ops(total);
            // which op tuples: every reader takes ops[i]; enumerate all tuples (readers <= 2) or
            // all pairs + a fixed third (readers == 3)
            let sel = opt(&args, "--ops").unwrap_or_else(|| "all".into());
            let scripts: Vec<Vec<usize>> = vec![vec![2], vec![1], vec![1, 2]];
            let mut tuples: Vec<Vec<Op>> = vec![];
            let pick: Vec<Op> = if sel == "all" { ops.clone() } else { ops.iter().cloned().filter(|o| matches!(o, Op::GetSlice(_, _) | Op::StreamToEnd(_))).collect() };
            match readers {
                1 => pick.iter().for_each(|a| tuples.push(vec![*a])),
                2 => {
                    for a in &pick {
                        for b in &pick {
                            tuples.push(vec![*a, *b]);
                        }
                    }
                }
                _ => {
                    // three readers: every pair of interior-boundary waits plus a reader to the end
                    let interior: Vec<Op> = ops.iter().cloned().filter(|o| matches!(o, Op::GetSlice(o2, n) if (o2 + n) % chunk == 0 && *n > 0)).collect();
                    for a in &interior {
                        for b in &interior {
                            tuples.push(vec![*a, *b, Op::StreamToEnd(0)]);
                            tuples.push(vec![*a, *b, Op::Read(total - 1, 1)]);
                        }
                    }
                }
            }
            let shard: usize = opt(&args, "--shard").and_then(|s| s.parse().ok()).unwrap_or(0);
            let shards: usize = opt(&args, "--shards").and_then(|s| s.parse().ok()).unwrap_or(1);
            let mut err = None;
            let mut configs = 0u64;
            'outer: for (ti, tuple) in tuples.iter().enumerate() {
                if ti % shards != shard {
                    continue;
                }
                for script in &scripts {
                    configs += 1;
                    let (data2, tuple2, script2) = (data.clone(), tuple.clone(), script.clone());
                    let r = model(bound, move || {
                        EXECUTIONS.fetch_add(1, Ordering::Relaxed);
                        let dec = Scripted { data: data2.clone(), pos: 0, script: script2.clone(), call: 0, eof_at: None };
                        // the payload sits at offset 0 of the decoded buffer here: the offset
                        // arithmetic is C13's subject, the protocol is this engine's
                        let region = Arc::new(jbk::verif::region_in_decoder_chunked(dec, total, chunk, 0, total as u64));
                        let data3 = Arc::new(data2.clone());
                        let mut hs = vec![];
                        for op in tuple2.iter().skip(1).cloned() {
                            let (r, d) = (region.clone(), data3.clone());
                            hs.push(loom::thread::spawn(move || run_op(&r, op, &d, chunk)));
                        }
                        run_op(&region, tuple2[0], &data3, chunk);
                        for h in hs {
                            h.join().unwrap();
                        }
                    });
                    if let Err(e) = r {
                        err = Some(format!("ops {tuple:?} short-read script {script:?}: {e}"));
                        break 'outer;
                    }
                }
            }
            (configs, err)
        }
        "decoder-trace" => {
            // Engine M (conformance side): run ONE configuration of the abstract protocol model
            // (readers' operation lists, bytes the compressed stream delivers) on the real
            // compression.rs under loom and write every DISTINCT event trace (hook H7) to --out.
            //   --chunks C --avail E --ops "g:0:2,r:1:1;x:0:1" (readers separated by ';') --out FILE
            let chunks: usize = opt(&args, "--chunks").unwrap().parse().unwrap();
            let chunk = 2usize;
            let total = chunks * chunk;
            let avail: usize = opt(&args, "--avail").map(|x| x.parse().unwrap()).unwrap_or(total);
            let out = opt(&args, "--out").expect("--out");
            let readers: Vec<Vec<(char, usize, usize)>> = opt(&args, "--ops")
                .expect("--ops")
                .split(';')
                .map(|r| {
                    r.split(',')
                        .filter(|x| !x.is_empty())
                        .map(|o| {
                            let f: Vec<&str> = o.split(':').collect();
                            (f[0].chars().next().unwrap(), f[1].parse().unwrap(), f[2].parse().unwrap())
                        })
                        .collect()
                })
                .collect();
            let data = payload(total);
            let traces: Arc<std::sync::Mutex<std::collections::BTreeSet<Vec<jbk::verif::trace::Event>>>> = Default::default();
            jbk::verif::trace::enable(true);
            let (t2, d2, r2) = (traces.clone(), data.clone(), readers.clone());
            let r = model(bound, move || {
                EXECUTIONS.fetch_add(1, Ordering::Relaxed);
                let _ = jbk::verif::trace::take();
                let dec = Scripted { data: d2.clone(), pos: 0, script: vec![2], call: 0, eof_at: Some(avail) };
                let region = Arc::new(jbk::verif::region_in_decoder_chunked(dec, total, chunk, 0, total as u64));
                let data3 = Arc::new(d2.clone());
                let run = |tag: u8, ops: Vec<(char, usize, usize)>, region: Arc<jbk::reader::ByteRegion>, data: Arc<Vec<u8>>| {
                    jbk::verif::trace::set_thread_tag(tag);
                    for (k, (kind, o, n)) in ops.into_iter().enumerate() {
                        jbk::verif::trace::emit(b'b', k, 0);
                        // outcome: 0 = error, 1 + count = Ok(count bytes, all equal to the payload), 9999 = wrong bytes
                        let outcome = match kind {
                            'g' => match region.get_slice(jbk::Offset::new(o as u64), n) {
                                Ok(s) => if s.len() == n && s[..] == data[o..o + n] { 1 + n } else { 9999 },
                                Err(_) => 0,
                            },
                            'r' => {
                                let mut buf = vec![0u8; n];
                                match jbk::verif::region_read(&region, o as u64, &mut buf) {
                                    Ok(got) => if got <= n && o + got <= data.len() && buf[..got] == data[o..o + got] { 1 + got } else { 9999 },
                                    Err(_) => 0,
                                }
                            }
                            'x' => {
                                let mut buf = vec![0u8; n];
                                match jbk::verif::region_read_exact(&region, o as u64, &mut buf) {
                                    Ok(()) => if buf[..] == data[o..o + n] { 1 + n } else { 9999 },
                                    Err(_) => 0,
                                }
                            }
                            _ => panic!("unknown op kind"),
                        };
                        jbk::verif::trace::emit(b'x', outcome, 0);
                    }
                };
                let mut hs = vec![];
                for (i, ops) in r2.iter().enumerate().skip(1) {
                    let (r, d, ops) = (region.clone(), data3.clone(), ops.clone());
                    hs.push(loom::thread::spawn(move || run(i as u8, ops, r, d)));
                }
                run(0, r2[0].clone(), region.clone(), data3.clone());
                for h in hs {
                    h.join().unwrap();
                }
                // the decoder may still be running: only the readers' part of the trace is complete
                t2.lock().unwrap().insert(jbk::verif::trace::take());
            });
            let set = traces.lock().unwrap();
            let mut f = std::io::BufWriter::new(std::fs::File::create(&out).expect("create --out"));
            use std::io::Write;
            for t in set.iter() {
                let line: Vec<String> = t.iter().map(|(tag, code, a, b)| format!("{}{}:{}:{}", if *tag == 255 { "D".to_string() } else { tag.to_string() }, *code as char, a, b)).collect();
                writeln!(f, "{}", line.join(" ")).unwrap();
            }
            let err = r.err().map(|e| format!("ops {readers:?} avail {avail}: {e}"));
            println!("{}", serde_json::json!({"configs": 1, "executions": EXECUTIONS.load(Ordering::Relaxed), "distinct_traces": set.len(), "ok": err.is_none(), "error": err}));
            std::process::exit(if err.is_none() { 0 } else { 1 })
        }
        "decoder-eof" => {
            // the compressed stream ends early: every reader must get an error, never wait forever
            let chunk = 2usize;
            let total = 6;
            let data = payload(total);
            let mut err = None;
            let mut configs = 0;
            'o: for eof in 0..total {
                for (o, n) in [(0usize, 2usize), (2, 2), (4, 2), (0, 6), (5, 1)] {
                    configs += 1;
                    let d2 = data.clone();
                    let r = model(bound, move || {
                        EXECUTIONS.fetch_add(1, Ordering::Relaxed);
                        let dec = Scripted { data: d2.clone(), pos: 0, script: vec![1, 2], call: 0, eof_at: Some(eof) };
                        let region = Arc::new(jbk::verif::region_in_decoder_chunked(dec, total, chunk, 0, total as u64));
                        let r2 = region.clone();
                        let d3 = d2.clone();
                        let h = loom::thread::spawn(move || {
                            let res = r2.get_slice(jbk::Offset::new(o as u64), n);
                            match res {
                                Ok(s) => assert_eq!(&s[..], &d3[o..o + n]),
                                Err(_) => assert!(o + n > eof, "error although the bytes were decoded"),
                            }
                        });
                        let mut buf = [0u8; 1];
                        let res = jbk::verif::region_read_exact(&region, (total - 1) as u64, &mut buf);
                        assert!(res.is_err(), "the last byte is never decoded: read_exact must fail");
                        h.join().unwrap();
                    });
                    if let Err(e) = r {
                        err = Some(format!("stream ends after {eof} of {total} bytes, reader ({o},{n}): {e}"));
                        break 'o;
                    }
                }
            }
            (configs, err)
        }
        "pipeline" => {
            // the real ClusterWriterProxy / ClusterCompressor / ClusterWriter under loom
            let workers: usize = opt(&args, "--workers").unwrap().parse().unwrap();
            let max_blobs: usize = opt(&args, "--max-blobs").map(|x| x.parse().unwrap()).unwrap_or(1);
            // program: string over {c (content with hint Yes), r (content with hint No)}
            let programs: Vec<String> = match opt(&args, "--program") {
                Some(p) => vec![p],
                None => {
                    let n: usize = opt(&args, "--len").map(|x| x.parse().unwrap()).unwrap_or(3);
                    let mut v = vec![];
                    for mask in 0..(1u32 << n) {
                        v.push((0..n).map(|i| if mask & (1 << i) != 0 { 'c' } else { 'r' }).collect::<String>());
                    }
                    v
                }
            };
            jbk::verif::set_max_blobs_per_cluster(max_blobs);
            let mut err = None;
            let mut configs = 0;
            for prog in &programs {
                configs += 1;
                let prog2 = prog.clone();
                let r = model(bound, move || {
                    EXECUTIONS.fetch_add(1, Ordering::Relaxed);
                    let prog2 = prog2.clone();
                    loom::thread::Builder::new().stack_size(0x100000).spawn(move || {
                    let rec = jbk::creator::MemRecipient::new();
                    let mut c = jbk::creator::ContentPackCreator::new_from_output_verif(
                        rec,
                        jbk::PackId::from(1),
                        jbk::VendorId::from([9, 9, 9, 9]),
                        Default::default(),
                        jbk::creator::Compression::lz4(),
                        Arc::new(()),
                        workers,
                    )
                    .expect("creator");
                    let mut expect: Vec<Vec<u8>> = vec![];
                    for (i, ch) in prog2.chars().enumerate() {
                        // c: content with hint Yes, r: hint No, e: empty content with hint Yes, f: empty with hint No
                        let len = if ch == 'e' || ch == 'f' { 0 } else { 5 + i };
                        let bytes: Vec<u8> = (0..len).map(|k| b'a' + ((i * 3 + k) % 20) as u8).collect();
                        let hint = if ch == 'c' || ch == 'e' { jbk::creator::CompHint::Yes } else { jbk::creator::CompHint::No };
                        let a = c.add_content(Box::new(std::io::Cursor::new(bytes.clone())), hint).expect("add_content");
                        assert_eq!(a.content_id.into_u32() as usize, i, "address returned");
                        expect.push(bytes);
                    }
                    let (file, _info) = c.finalize().expect("finalize");
                    let bytes = file.into_bytes();
                    let map = indep::content_pack(&bytes, 0).unwrap_or_else(|e| panic!("independent decoder rejects the pack: {e}"));
                    assert_eq!(map.content_count, expect.len(), "content count");
                    for (i, want) in expect.iter().enumerate() {
                        let got = map.content_bytes(&bytes, i).unwrap_or_else(|e| panic!("content {i} does not decode: {e}"));
                        assert_eq!(&got, want, "content {i} resolves to other bytes");
                    }
                    let mut ids: Vec<usize> = map.clusters.iter().map(|c| c.id).collect();
                    ids.sort();
                    assert_eq!(ids, (0..map.clusters.len()).collect::<Vec<_>>(), "cluster table");
                    }).unwrap().join().unwrap();
                });
                if let Err(e) = r {
                    err = Some(format!("program {prog} with {workers} workers, {max_blobs} blob(s) per cluster: {e}"));
                    break;
                }
            }
            (configs, err)
        }
        "container" => {
            // C07 engine B: the real ContentPack reader (cluster cache Mutex<LruCache> of capacity 1,
            // cluster RwLock raw->plain switch, background decoders, shared FileSource) under loom.
            // The pack (clusters: compressed{0,1} raw{2,3} compressed{4,5}, 6-byte contents) is
            // written beforehand by `corpusmc genpack`.
            let path = opt(&args, "--pack").expect("--pack");
            let cache: usize = opt(&args, "--cache").map(|x| x.parse().unwrap()).unwrap_or(1);
            jbk::verif::set_decode_chunk_size(4);
            let content = |i: u32| -> Vec<u8> { (0..6u8).map(|k| b'A' + (i as u8) * 4 + k % 4).collect() };
            let ids = [0u32, 1, 2, 4];
            let full = opt(&args, "--combos").map(|x| x == "full").unwrap_or(false);
            let mut combos: Vec<(Vec<u32>, Vec<u32>)> = vec![];
            for a1 in ids {
                for a2 in ids {
                    for b1 in ids {
                        combos.push((vec![a1, a2], vec![b1]));
                        if full {
                            for b2 in ids {
                                let compressed = [a1, a2, b1, b2].iter().filter(|x| **x != 2).count();
                                if compressed <= 3 {
                                    combos.push((vec![a1, a2], vec![b1, b2]));
                                }
                            }
                        }
                    }
                }
            }
            let shard: usize = opt(&args, "--shard").and_then(|s| s.parse().ok()).unwrap_or(0);
            let shards: usize = opt(&args, "--shards").and_then(|s| s.parse().ok()).unwrap_or(1);
            let mut err = None;
            let mut configs = 0;
            for (ci, (a, b)) in combos.iter().enumerate() {
                if ci % shards != shard {
                    continue;
                }
                configs += 1;
                let (a2, b2, p2) = (a.clone(), b.clone(), path.clone());
                let r = model(bound, move || {
                    EXECUTIONS.fetch_add(1, Ordering::Relaxed);
                    let fs = jbk::FileSource::open(&p2).expect("open");
                    let pack = Arc::new(jbk::reader::ContentPack::new(jbk::Reader::from(fs)).expect("content pack"));
                    pack.set_cluster_cache_size_verif(cache);
                    let read = move |pack: &jbk::reader::ContentPack, i: u32, k: usize| {
                        let want: Vec<u8> = (0..6u8).map(|x| b'A' + (i as u8) * 4 + x % 4).collect();
                        let region = pack.get_content(jbk::ContentIdx::from(i)).expect("get_content").expect("content exists");
                        assert_eq!(region.size().into_u64(), 6, "content {i} size");
                        if k % 2 == 0 {
                            let mut v = vec![];
                            region.stream().read_to_end(&mut v).expect("stream");
                            assert_eq!(v, want, "content {i} streamed");
                        } else {
                            let s = region.get_slice(jbk::Offset::new(1), 4).expect("get_slice");
                            assert_eq!(&s[..], &want[1..5], "content {i} sliced");
                        }
                    };
                    let (pb, bb) = (pack.clone(), b2.clone());
                    let h = loom::thread::Builder::new()
                        .stack_size(0x80000)
                        .spawn(move || {
                            for (k, i) in bb.iter().enumerate() {
                                read(&pb, *i, k + 1);
                            }
                        })
                        .unwrap();
                    for (k, i) in a2.iter().enumerate() {
                        read(&pack, *i, k);
                    }
                    h.join().unwrap();
                });
                let _ = &content;
                if let Err(e) = r {
                    err = Some(format!("reader A contents {a:?}, reader B contents {b:?}, cache of {cache}: {e}"));
                    break;
                }
            }
            (configs, err)
        }
        "toplevel" => {
            // C07 engine B2: the real `Container` under loom — the per-pack `OnceLock` slots filled
            // lazily by `get_pack`, the `VecCache` of entry and value stores, the check-info cells —
            // two threads doing their FIRST accesses to a freshly opened container.
            // The container and the contents it must yield are written by `corpusmc gentop`.
            let dir = std::path::PathBuf::from(opt(&args, "--dir").expect("--dir"));
            jbk::verif::set_decode_chunk_size(8);
            let expect: serde_json::Value = serde_json::from_str(&std::fs::read_to_string(dir.join("expect.json")).expect("expect.json")).unwrap();
            let entry = dir.join(expect["entry"].as_str().unwrap());
            let contents: Vec<(u16, u32, Vec<u8>)> = expect["contents"]
                .as_array()
                .unwrap()
                .iter()
                .map(|c| {
                    let hex = c["hex"].as_str().unwrap();
                    let bytes: Vec<u8> = (0..hex.len() / 2).map(|i| u8::from_str_radix(&hex[2 * i..2 * i + 2], 16).unwrap()).collect();
                    (c["pack"].as_u64().unwrap() as u16, c["idx"].as_u64().unwrap() as u32, bytes)
                })
                .collect();
            let index_name = expect["index"].as_str().unwrap().to_string();
            let index_count = expect["index_count"].as_u64().unwrap() as u32;
            let missing: Vec<u16> = opt(&args, "--missing").map(|m| m.split(',').filter(|x| !x.is_empty()).map(|x| x.parse().unwrap()).collect()).unwrap_or_default();
            // operations: c<k> = read content k of the list, e = open the index' entry store and
            // read entry 0 through a builder (entry-store and value-store caches), k = check(),
            // u = unknown pack id
            #[derive(Clone, Debug)]
            enum TOp {
                Content(usize),
                Entries,
                Check,
                Unknown,
            }
            let first_of_pack = |p: u16| contents.iter().position(|c| c.0 == p);
            let mut alphabet: Vec<TOp> = vec![];
            let packs: Vec<u16> = {
                let mut v: Vec<u16> = contents.iter().map(|c| c.0).collect();
                v.dedup();
                v
            };
            for p in &packs {
                if let Some(i) = first_of_pack(*p) {
                    alphabet.push(TOp::Content(i));
                }
            }
            if let Some(i) = contents.iter().rposition(|c| c.0 == packs[0]) {
                alphabet.push(TOp::Content(i)); // another content of the first pack
            }
            alphabet.push(TOp::Entries);
            alphabet.push(TOp::Unknown);
            let with_check = opt(&args, "--check").map(|x| x == "yes").unwrap_or(false);
            if with_check {
                alphabet.push(TOp::Check);
            }
            // every (A: two ops, B: one op) and (A: one op, B: one op)
            let mut combos: Vec<(Vec<TOp>, Vec<TOp>)> = vec![];
            for a1 in &alphabet {
                for b1 in &alphabet {
                    combos.push((vec![a1.clone()], vec![b1.clone()]));
                    for a2 in &alphabet {
                        combos.push((vec![a1.clone(), a2.clone()], vec![b1.clone()]));
                    }
                }
            }
            let shard: usize = opt(&args, "--shard").and_then(|s| s.parse().ok()).unwrap_or(0);
            let shards: usize = opt(&args, "--shards").and_then(|s| s.parse().ok()).unwrap_or(1);
            let only: Option<usize> = opt(&args, "--only").and_then(|s| s.parse().ok());
            let contents = Arc::new(contents);
            let missing = Arc::new(missing);
            let mut err = None;
            let mut configs = 0;
            for (ci, (a, b)) in combos.iter().enumerate() {
                if ci % shards != shard || only.map(|o| o != ci).unwrap_or(false) {
                    continue;
                }
                configs += 1;
                let (a2, b2, e2, cs, ms, iname) = (a.clone(), b.clone(), entry.clone(), contents.clone(), missing.clone(), index_name.clone());
                let r = model(bound, move || {
                    EXECUTIONS.fetch_add(1, Ordering::Relaxed);
                    let (a2, b2, e2, cs, ms, iname) = (a2.clone(), b2.clone(), e2.clone(), cs.clone(), ms.clone(), iname.clone());
                    // everything on a loom thread with a large stack (opening a container is deep)
                    loom::thread::Builder::new().stack_size(0x200000).spawn(move || {
                    let c = Arc::new(jbk::reader::Container::new(&e2).expect("container opens"));
                    let run = {
                        let (cs, ms, iname) = (cs.clone(), ms.clone(), iname.clone());
                        move |c: &jbk::reader::Container, op: &TOp| match op {
                            TOp::Content(k) => {
                                let (p, i, want) = &cs[*k];
                                let addr = jbk::ContentAddress::new(jbk::PackId::from(*p), jbk::ContentIdx::from(*i));
                                match c.get_bytes(addr).expect("get_bytes") {
                                    None => panic!("content {p}/{i}: pack id answered as not in the manifest"),
                                    Some(jbk::reader::MayMissPack::MISSING(info)) => {
                                        assert!(ms.contains(p), "content {p}/{i}: pack reported MISSING ({})", info.pack_location.as_str());
                                    }
                                    Some(jbk::reader::MayMissPack::FOUND(None)) => panic!("content {p}/{i}: no such content"),
                                    Some(jbk::reader::MayMissPack::FOUND(Some(region))) => {
                                        assert!(!ms.contains(p), "content {p}/{i}: found although its pack file was removed");
                                        let mut v = vec![];
                                        region.stream().read_to_end(&mut v).expect("stream");
                                        assert_eq!(&v, want, "content {p}/{i} bytes");
                                    }
                                }
                            }
                            TOp::Entries => {
                                let index = c.get_index_for_name(&iname).expect("index lookup").expect("index exists");
                                assert_eq!(index.count().into_u32(), index_count, "index count");
                                let store = index.get_store(c.get_entry_storage()).expect("entry store");
                                let builder = jbk::reader::builder::AnyBuilder::new(store, &**c.get_value_storage()).expect("builder");
                                let e = index.get_entry(&builder, jbk::EntryIdx::from(0u32)).expect("entry 0");
                                assert!(e.is_some() || index_count == 0, "entry 0 exists");
                            }
                            TOp::Check => {
                                assert!(c.check().expect("check"), "check() of a pristine container");
                            }
                            TOp::Unknown => {
                                assert!(c.get_pack(jbk::PackId::from(99u16)).expect("get_pack").is_none(), "unknown pack id");
                            }
                        }
                    };
                    let (cb, bb, runb) = (c.clone(), b2.clone(), run.clone());
                    let h = loom::thread::Builder::new()
                        .stack_size(0x100000)
                        .spawn(move || {
                            for op in &bb {
                                runb(&cb, op);
                            }
                        })
                        .unwrap();
                    for op in &a2 {
                        run(&c, op);
                    }
                    h.join().unwrap();
                    }).unwrap().join().unwrap();
                });
                if let Err(e) = r {
                    err = Some(format!("reader A {a:?}, reader B {b:?}, missing packs {:?}: {e}", &*missing));
                    break;
                }
            }
            (configs, err)
        }
        "file" => {
            // two threads read different offsets of one FileSource
            let path = opt(&args, "--file").expect("--file");
            let data: Vec<u8> = (0..4000u32).map(|i| (i % 251) as u8).collect();
            std::fs::write(&path, &data).unwrap();
            let mut err = None;
            let mut configs = 0;
            'f: for (o1, n1) in [(0usize, 10usize), (100, 1500)] {
                for (o2, n2) in [(1024usize, 10usize), (2000, 10), (5, 1200)] {
                    configs += 1;
                    let (p2, d2) = (path.clone(), data.clone());
                    let r = model(bound, move || {
                        EXECUTIONS.fetch_add(1, Ordering::Relaxed);
                        let region = Arc::new(jbk::verif::region_in_file(std::path::Path::new(&p2), 3, 3900).unwrap());
                        let (r2, d3) = (region.clone(), d2.clone());
                        let h = loom::thread::spawn(move || {
                            let mut buf = vec![0u8; n2];
                            let got = jbk::verif::region_read(&r2, o2 as u64, &mut buf).unwrap();
                            assert!(got > 0);
                            assert_eq!(&buf[..got], &d3[3 + o2..3 + o2 + got], "thread 2 read at {o2}");
                        });
                        let mut buf = vec![0u8; n1];
                        let got = jbk::verif::region_read(&region, o1 as u64, &mut buf).unwrap();
                        assert!(got > 0);
                        assert_eq!(&buf[..got], &d2[3 + o1..3 + o1 + got], "thread 1 read at {o1}");
                        let mut b2 = vec![0u8; 7];
                        jbk::verif::region_read_exact(&region, (o1 + 50) as u64, &mut b2).unwrap();
                        assert_eq!(&b2[..], &d2[3 + o1 + 50..3 + o1 + 57]);
                        h.join().unwrap();
                    });
                    if let Err(e) = r {
                        err = Some(format!("reads ({o1},{n1}) and ({o2},{n2}): {e}"));
                        break 'f;
                    }
                }
            }
            let _ = std::fs::remove_file(&path);
            (configs, err)
        }
        _ => {
            eprintln!("unknown subcommand");
            std::process::exit(2)
        }
    };
    let (configs, err) = result;
    println!(
        "{}",
        serde_json::json!({"configs": configs, "executions": EXECUTIONS.load(Ordering::Relaxed), "interior_boundary_waits": INTERIOR_WAITS.load(Ordering::Relaxed), "ok": err.is_none(), "error": err})
    );
    std::process::exit(if err.is_none() { 0 } else { 1 })
}
