/* faultfs — LD_PRELOAD fault injector for the C09 crash-point enumeration.
 *
 * Counts "units" of the write history of a process on files below FAULTFS_DIR:
 *   - every byte handed to write / pwrite64 / writev / copy_file_range / sendfile = 1 unit
 *   - every rename* / link* / unlink* / ftruncate / open(O_TRUNC) on a watched path = 1 unit
 * and injects one fault at unit number FAULTFS_AT:
 *   FAULTFS_MODE=kill    perform the part of the write below the budget, then _exit(137)
 *                        (process death: what was written stays written, no destructor runs)
 *   FAULTFS_MODE=eio-once
 *                        transient error: short write up to the budget, the next write call to a
 *                        watched file fails with EIO, every later call works again
 *   FAULTFS_MODE=short-once
 *                        the write call crossing the fault point writes only the bytes below it
 *                        and reports that count; nothing fails (a short write is legal at any time)
 *   FAULTFS_MODE=killafter
 *                        as kill, but a metadata operation at the fault point is performed first
 *                        and the process dies right after it (the gap between a visible metadata
 *                        operation and a following one the shim cannot see, e.g. a raw rename)
 *   FAULTFS_MODE=eio | enospc
 *                        short write up to the budget, then every later write to a watched file
 *                        fails with that errno (metadata operations keep working, as on a full disk)
 * FAULTFS_AT=-1 records only. At exit (normal exits only) the totals go to FAULTFS_LOG:
 *   units <n>\n  then one line per call: "<kind> <units> <name>" and "ino <inode> <bytes>".
 */
#define _GNU_SOURCE
#include <dlfcn.h>
#include <errno.h>
#include <fcntl.h>
#include <limits.h>
#include <pthread.h>
#include <stdarg.h>
#include <stdio.h>
#include <stdlib.h>
#include <string.h>
#include <sys/stat.h>
#include <sys/types.h>
#include <sys/uio.h>
#include <unistd.h>

static pthread_mutex_t mu = PTHREAD_MUTEX_INITIALIZER;
static long long units = 0;
static long long fault_at = -1;
static int mode = 0; /* 0 kill, 1 eio, 2 enospc, 3 killafter, 4 eio-once, 5 short-once */
#define KILLMODE (mode == 0 || mode == 3)
static int failing = 0;
static char dir[PATH_MAX] = "";
static size_t dirlen = 0;
static char logpath[PATH_MAX] = "";
static int inited = 0;

#define MAXCALLS 100000
static char *calls[MAXCALLS];
static int ncalls = 0;
#define MAXINO 256
static unsigned long long inos[MAXINO];
static long long inobytes[MAXINO];
static int ninos = 0;

static void dump_log(void) {
    if (!logpath[0]) return;
    int (*real_open)(const char *, int, ...) = dlsym(RTLD_NEXT, "open");
    ssize_t (*real_write)(int, const void *, size_t) = dlsym(RTLD_NEXT, "write");
    int fd = real_open(logpath, O_WRONLY | O_CREAT | O_TRUNC, 0644);
    if (fd < 0) return;
    char buf[512];
    int n = snprintf(buf, sizeof buf, "units %lld\n", units);
    real_write(fd, buf, n);
    for (int i = 0; i < ncalls; i++) {
        real_write(fd, calls[i], strlen(calls[i]));
        real_write(fd, "\n", 1);
    }
    for (int i = 0; i < ninos; i++) {
        n = snprintf(buf, sizeof buf, "ino %llu %lld\n", inos[i], inobytes[i]);
        real_write(fd, buf, n);
    }
    close(fd);
}

static void init(void) {
    if (inited) return;
    inited = 1;
    const char *d = getenv("FAULTFS_DIR");
    if (d) {
        if (!realpath(d, dir)) strncpy(dir, d, sizeof dir - 1);
        dirlen = strlen(dir);
    }
    const char *a = getenv("FAULTFS_AT");
    if (a) fault_at = atoll(a);
    const char *m = getenv("FAULTFS_MODE");
    if (m && !strcmp(m, "eio")) mode = 1;
    if (m && !strcmp(m, "enospc")) mode = 2;
    if (m && !strcmp(m, "killafter")) mode = 3;
    if (m && !strcmp(m, "eio-once")) mode = 4;
    if (m && !strcmp(m, "short-once")) mode = 5;
    const char *l = getenv("FAULTFS_LOG");
    if (l) strncpy(logpath, l, sizeof logpath - 1);
    atexit(dump_log);
}

static int watched_path(const char *p) {
    if (!dirlen || !p) return 0;
    char r[PATH_MAX];
    if (p[0] != '/') {
        /* relative: resolve the directory part */
        char tmp[PATH_MAX];
        if (!getcwd(tmp, sizeof tmp)) return 0;
        snprintf(r, sizeof r, "%s/%s", tmp, p);
    } else {
        strncpy(r, p, sizeof r - 1);
        r[sizeof r - 1] = 0;
    }
    return strncmp(r, dir, dirlen) == 0 && (r[dirlen] == '/' || r[dirlen] == 0);
}

static int watched_fd(int fd) {
    if (!dirlen) return 0;
    char link[64], target[PATH_MAX];
    snprintf(link, sizeof link, "/proc/self/fd/%d", fd);
    ssize_t n = readlink(link, target, sizeof target - 1);
    if (n <= 0) return 0;
    target[n] = 0;
    return strncmp(target, dir, dirlen) == 0 && target[dirlen] == '/';
}

static void record(const char *kind, long long n, const char *name) {
    if (ncalls < MAXCALLS) {
        char buf[PATH_MAX + 64];
        const char *base = name ? strrchr(name, '/') : NULL;
        snprintf(buf, sizeof buf, "%s %lld %s", kind, n, base ? base + 1 : (name ? name : "-"));
        calls[ncalls++] = strdup(buf);
    }
}

static void account_ino(int fd, long long n) {
    struct stat st;
    if (fstat(fd, &st) != 0) return;
    for (int i = 0; i < ninos; i++)
        if (inos[i] == (unsigned long long)st.st_ino) {
            inobytes[i] += n;
            return;
        }
    if (ninos < MAXINO) {
        inos[ninos] = st.st_ino;
        inobytes[ninos++] = n;
    }
}

static int err_no(void) { return mode == 2 ? ENOSPC : EIO; }

/* Decide how many of `count` bytes may be written. Returns -1 when the call must fail (errno set),
 * otherwise the allowed count; *die is set when the process must exit after the partial write. */
static long long budget(int fd, long long count, int *die, const char *kind) {
    *die = 0;
    if (failing) {
        if (mode == 4) {
            /* transient error: this one call fails, everything after it works again */
            failing = 0;
            fault_at = -1;
        }
        errno = err_no();
        return -1;
    }
    record(kind, count, NULL);
    if (fault_at < 0 || units + count <= fault_at) {
        units += count;
        account_ino(fd, count);
        return count;
    }
    long long allowed = fault_at - units;
    if (allowed < 0) allowed = 0;
    units += allowed;
    account_ino(fd, allowed);
    if (KILLMODE) {
        *die = 1;
        return allowed;
    }
    if (mode == 5) {
        /* a short write and nothing else: legal at any time, a caller that does not loop loses data */
        fault_at = -1;
        if (allowed == 0) {
            units += count;
            account_ino(fd, count);
            return count;
        }
        return allowed;
    }
    failing = 1;
    if (allowed == 0) {
        if (mode == 4) {
            failing = 0;
            fault_at = -1;
        }
        errno = err_no();
        return -1;
    }
    return allowed;
}

ssize_t write(int fd, const void *buf, size_t count) {
    static ssize_t (*real)(int, const void *, size_t);
    if (!real) real = dlsym(RTLD_NEXT, "write");
    init();
    if (!watched_fd(fd)) return real(fd, buf, count);
    pthread_mutex_lock(&mu);
    int die;
    long long n = budget(fd, (long long)count, &die, "write");
    if (n < 0) {
        pthread_mutex_unlock(&mu);
        return -1;
    }
    ssize_t r = n > 0 ? real(fd, buf, (size_t)n) : 0;
    if (die) _exit(137);
    pthread_mutex_unlock(&mu);
    return r;
}

ssize_t pwrite64(int fd, const void *buf, size_t count, off64_t off) {
    static ssize_t (*real)(int, const void *, size_t, off64_t);
    if (!real) real = dlsym(RTLD_NEXT, "pwrite64");
    init();
    if (!watched_fd(fd)) return real(fd, buf, count, off);
    pthread_mutex_lock(&mu);
    int die;
    long long n = budget(fd, (long long)count, &die, "pwrite");
    if (n < 0) {
        pthread_mutex_unlock(&mu);
        return -1;
    }
    ssize_t r = n > 0 ? real(fd, buf, (size_t)n, off) : 0;
    if (die) _exit(137);
    pthread_mutex_unlock(&mu);
    return r;
}
ssize_t pwrite(int fd, const void *buf, size_t count, off_t off) { return pwrite64(fd, buf, count, off); }

ssize_t writev(int fd, const struct iovec *iov, int iovcnt) {
    static ssize_t (*real)(int, const struct iovec *, int);
    if (!real) real = dlsym(RTLD_NEXT, "writev");
    init();
    if (!watched_fd(fd)) return real(fd, iov, iovcnt);
    /* turn it into sequential writes so that the budget applies byte by byte */
    ssize_t total = 0;
    for (int i = 0; i < iovcnt; i++) {
        if (iov[i].iov_len == 0) continue;
        ssize_t r = write(fd, iov[i].iov_base, iov[i].iov_len);
        if (r < 0) return total > 0 ? total : -1;
        total += r;
        if ((size_t)r < iov[i].iov_len) break;
    }
    return total;
}

ssize_t copy_file_range(int fd_in, off64_t *off_in, int fd_out, off64_t *off_out, size_t len, unsigned int flags) {
    static ssize_t (*real)(int, off64_t *, int, off64_t *, size_t, unsigned int);
    if (!real) real = dlsym(RTLD_NEXT, "copy_file_range");
    init();
    if (!watched_fd(fd_out)) return real(fd_in, off_in, fd_out, off_out, len, flags);
    /* force the caller onto its read/write fallback, where every byte goes through write() */
    errno = EXDEV;
    return -1;
}

ssize_t sendfile64(int out_fd, int in_fd, off64_t *offset, size_t count) {
    static ssize_t (*real)(int, int, off64_t *, size_t);
    if (!real) real = dlsym(RTLD_NEXT, "sendfile64");
    init();
    if (!watched_fd(out_fd)) return real(out_fd, in_fd, offset, count);
    errno = EINVAL; /* same: fall back to read/write */
    return -1;
}
ssize_t sendfile(int out_fd, int in_fd, off_t *offset, size_t count) { return sendfile64(out_fd, in_fd, (off64_t *)offset, count); }

ssize_t splice(int fd_in, off64_t *off_in, int fd_out, off64_t *off_out, size_t len, unsigned int flags) {
    static ssize_t (*real)(int, off64_t *, int, off64_t *, size_t, unsigned int);
    if (!real) real = dlsym(RTLD_NEXT, "splice");
    init();
    if (!watched_fd(fd_out)) return real(fd_in, off_in, fd_out, off_out, len, flags);
    errno = EINVAL;
    return -1;
}

/* one metadata unit; returns 1 when the process must die right after the operation */
static int meta_unit(const char *kind, const char *name) {
    int die_after = 0;
    pthread_mutex_lock(&mu);
    record(kind, 1, name);
    if (fault_at >= 0 && units == fault_at && mode == 0) _exit(137);
    if (fault_at >= 0 && units == fault_at && mode == 3) die_after = 1;
    units += 1;
    pthread_mutex_unlock(&mu);
    return die_after;
}
#define META(cond, kind, name, call) \
    do { \
        int die_ = (cond) ? meta_unit(kind, name) : 0; \
        int r_ = (call); \
        if (die_) _exit(137); \
        return r_; \
    } while (0)

int rename(const char *a, const char *b) {
    static int (*real)(const char *, const char *);
    if (!real) real = dlsym(RTLD_NEXT, "rename");
    init();
    META(watched_path(b) || watched_path(a), "rename", b, real(a, b));
}
int renameat(int ad, const char *a, int bd, const char *b) {
    static int (*real)(int, const char *, int, const char *);
    if (!real) real = dlsym(RTLD_NEXT, "renameat");
    init();
    META(watched_path(b) || watched_path(a), "renameat", b, real(ad, a, bd, b));
}
int renameat2(int ad, const char *a, int bd, const char *b, unsigned int flags) {
    static int (*real)(int, const char *, int, const char *, unsigned int);
    if (!real) real = dlsym(RTLD_NEXT, "renameat2");
    init();
    META(watched_path(b) || watched_path(a), "renameat2", b, real(ad, a, bd, b, flags));
}
int link(const char *a, const char *b) {
    static int (*real)(const char *, const char *);
    if (!real) real = dlsym(RTLD_NEXT, "link");
    init();
    META(watched_path(b), "link", b, real(a, b));
}
int linkat(int ad, const char *a, int bd, const char *b, int flags) {
    static int (*real)(int, const char *, int, const char *, int);
    if (!real) real = dlsym(RTLD_NEXT, "linkat");
    init();
    META(watched_path(b), "linkat", b, real(ad, a, bd, b, flags));
}
int unlink(const char *a) {
    static int (*real)(const char *);
    if (!real) real = dlsym(RTLD_NEXT, "unlink");
    init();
    META(watched_path(a), "unlink", a, real(a));
}
int unlinkat(int d, const char *a, int flags) {
    static int (*real)(int, const char *, int);
    if (!real) real = dlsym(RTLD_NEXT, "unlinkat");
    init();
    META(watched_path(a), "unlinkat", a, real(d, a, flags));
}
int ftruncate64(int fd, off64_t len) {
    static int (*real)(int, off64_t);
    if (!real) real = dlsym(RTLD_NEXT, "ftruncate64");
    init();
    META(watched_fd(fd), "ftruncate", NULL, real(fd, len));
}
int ftruncate(int fd, off_t len) { return ftruncate64(fd, len); }

static int open_common(const char *kind, const char *path, int flags) {
    if ((flags & O_TRUNC) && watched_path(path)) {
        struct stat st;
        if (stat(path, &st) == 0 && st.st_size > 0) meta_unit(kind, path); /* truncation of existing data */
    }
    return 0;
}
int open64(const char *path, int flags, ...) {
    static int (*real)(const char *, int, ...);
    if (!real) real = dlsym(RTLD_NEXT, "open64");
    init();
    mode_t m = 0;
    if (flags & (O_CREAT | O_TMPFILE)) {
        va_list ap;
        va_start(ap, flags);
        m = va_arg(ap, mode_t);
        va_end(ap);
    }
    open_common("open-trunc", path, flags);
    return real(path, flags, m);
}
int open(const char *path, int flags, ...) {
    static int (*real)(const char *, int, ...);
    if (!real) real = dlsym(RTLD_NEXT, "open");
    init();
    mode_t m = 0;
    if (flags & (O_CREAT | O_TMPFILE)) {
        va_list ap;
        va_start(ap, flags);
        m = va_arg(ap, mode_t);
        va_end(ap);
    }
    open_common("open-trunc", path, flags);
    return real(path, flags, m);
}
int openat64(int d, const char *path, int flags, ...) {
    static int (*real)(int, const char *, int, ...);
    if (!real) real = dlsym(RTLD_NEXT, "openat64");
    init();
    mode_t m = 0;
    if (flags & (O_CREAT | O_TMPFILE)) {
        va_list ap;
        va_start(ap, flags);
        m = va_arg(ap, mode_t);
        va_end(ap);
    }
    if (path && path[0] == '/') open_common("open-trunc", path, flags);
    return real(d, path, flags, m);
}
int openat(int d, const char *path, int flags, ...) {
    static int (*real)(int, const char *, int, ...);
    if (!real) real = dlsym(RTLD_NEXT, "openat");
    init();
    mode_t m = 0;
    if (flags & (O_CREAT | O_TMPFILE)) {
        va_list ap;
        va_start(ap, flags);
        m = va_arg(ap, mode_t);
        va_end(ap);
    }
    if (path && path[0] == '/') open_common("open-trunc", path, flags);
    return real(d, path, flags, m);
}
