/* mmapfail — LD_PRELOAD environment model for file mappings (C05).
 *
 * The reader maps every checked block of 4 KiB and more instead of reading it; whether the
 * kernel grants a mapping is an answer of the environment (vm.max_map_count, RLIMIT_AS, a file
 * system that cannot map). This shim decides that answer for every file-backed mmap of the
 * process (anonymous mappings, i.e. the allocator's, are never touched):
 *
 *   MMAPFAIL_SWITCH  file holding "<epoch> <k>": k = 0 grant everything, k = -1 refuse every
 *                    file mapping (ENOMEM), k > 0 refuse the k-th file mapping requested since
 *                    the epoch last changed and grant the others. Absent file = grant.
 *   MMAPFAIL_LOG     file rewritten at every file mapping with "<epoch> <seen> <refused>"
 *                    (counts since the epoch last changed): how the harness learns how many
 *                    mappings a run asks for, and proves that the shim is in the process.
 */
#define _GNU_SOURCE
#include <dlfcn.h>
#include <errno.h>
#include <fcntl.h>
#include <pthread.h>
#include <stdio.h>
#include <stdlib.h>
#include <string.h>
#include <sys/mman.h>
#include <sys/types.h>
#include <unistd.h>

static pthread_mutex_t mu = PTHREAD_MUTEX_INITIALIZER;
static long long epoch = -1, seen = 0, refused = 0;

static int decide(void) {
    const char *sw = getenv("MMAPFAIL_SWITCH");
    long long e = 0, k = 0;
    if (sw) {
        int fd = open(sw, O_RDONLY);
        if (fd >= 0) {
            char buf[64];
            ssize_t n = read(fd, buf, sizeof buf - 1);
            close(fd);
            if (n > 0) {
                buf[n] = 0;
                sscanf(buf, "%lld %lld", &e, &k);
            }
        }
    }
    if (e != epoch) {
        epoch = e;
        seen = 0;
        refused = 0;
    }
    seen++;
    int refuse = (k < 0) || (k > 0 && seen == k);
    if (refuse) refused++;
    const char *lg = getenv("MMAPFAIL_LOG");
    if (lg) {
        int fd = open(lg, O_WRONLY | O_CREAT | O_TRUNC, 0644);
        if (fd >= 0) {
            char buf[96];
            int n = snprintf(buf, sizeof buf, "%lld %lld %lld\n", epoch, seen, refused);
            if (write(fd, buf, n) < 0) { /* the harness notices the missing log */ }
            close(fd);
        }
    }
    return refuse;
}

static void *do_mmap(const char *sym, void *addr, size_t len, int prot, int flags, int fd, off_t off) {
    static void *(*real)(void *, size_t, int, int, int, off_t) = 0;
    if (!real) real = dlsym(RTLD_NEXT, sym);
    if (fd >= 0 && !(flags & MAP_ANONYMOUS)) {
        pthread_mutex_lock(&mu);
        int refuse = decide();
        pthread_mutex_unlock(&mu);
        if (refuse) {
            errno = ENOMEM;
            return MAP_FAILED;
        }
    }
    return real(addr, len, prot, flags, fd, off);
}

void *mmap(void *addr, size_t len, int prot, int flags, int fd, off_t off) { return do_mmap("mmap", addr, len, prot, flags, fd, off); }
void *mmap64(void *addr, size_t len, int prot, int flags, int fd, off_t off) { return do_mmap("mmap64", addr, len, prot, flags, fd, off); }
