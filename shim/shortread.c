/* shortread — LD_PRELOAD environment model for read(2) on regular files (C13, C10, C12).
 *
 * A read may legally return fewer bytes than asked for at any time. This shim makes every
 * read / pread64 / readv on a regular file whose path lies under SHORTREAD_DIR return at most
 * SHORTREAD_MAX bytes (default 13): the reader under test must loop, or hand the short count on,
 * but never take the buffer as filled. Every capped call is counted; the count goes to
 * SHORTREAD_LOG at exit so that the harness can prove the shim was in the process.
 */
#define _GNU_SOURCE
#include <dlfcn.h>
#include <errno.h>
#include <fcntl.h>
#include <limits.h>
#include <stdio.h>
#include <stdlib.h>
#include <string.h>
#include <sys/stat.h>
#include <sys/types.h>
#include <sys/uio.h>
#include <unistd.h>

static long long capped = 0, seen = 0;
static size_t maxlen = 13;
static char dir[PATH_MAX] = "";
static size_t dirlen = 0;
static int inited = 0;

static void dump(void) {
    const char *lg = getenv("SHORTREAD_LOG");
    if (!lg) return;
    int (*real_open)(const char *, int, ...) = dlsym(RTLD_NEXT, "open");
    ssize_t (*real_write)(int, const void *, size_t) = dlsym(RTLD_NEXT, "write");
    int fd = real_open(lg, O_WRONLY | O_CREAT | O_TRUNC, 0644);
    if (fd < 0) return;
    char buf[96];
    int n = snprintf(buf, sizeof buf, "%lld %lld\n", seen, capped);
    if (real_write(fd, buf, n) < 0) { }
    close(fd);
}

static void init(void) {
    if (inited) return;
    inited = 1;
    const char *d = getenv("SHORTREAD_DIR");
    if (d && realpath(d, dir)) dirlen = strlen(dir);
    const char *m = getenv("SHORTREAD_MAX");
    if (m && atol(m) > 0) maxlen = (size_t)atol(m);
    atexit(dump);
}

static int watched(int fd) {
    init();
    if (!dirlen || fd < 0) return 0;
    char link[64], path[PATH_MAX];
    snprintf(link, sizeof link, "/proc/self/fd/%d", fd);
    ssize_t n = readlink(link, path, sizeof path - 1);
    if (n <= 0) return 0;
    path[n] = 0;
    if (strncmp(path, dir, dirlen) != 0) return 0;
    struct stat st;
    if (fstat(fd, &st) != 0 || !S_ISREG(st.st_mode)) return 0;
    /* the harness's own reports and logs are not the subject */
    size_t l = strlen(path);
    if (l > 5 && strcmp(path + l - 5, ".json") == 0) return 0;
    return 1;
}

ssize_t read(int fd, void *buf, size_t count) {
    static ssize_t (*real)(int, void *, size_t) = 0;
    if (!real) real = dlsym(RTLD_NEXT, "read");
    if (count > maxlen && watched(fd)) {
        __sync_fetch_and_add(&capped, 1);
        count = maxlen;
    }
    __sync_fetch_and_add(&seen, 1);
    return real(fd, buf, count);
}

ssize_t pread64(int fd, void *buf, size_t count, off_t off) {
    static ssize_t (*real)(int, void *, size_t, off_t) = 0;
    if (!real) real = dlsym(RTLD_NEXT, "pread64");
    if (count > maxlen && watched(fd)) {
        __sync_fetch_and_add(&capped, 1);
        count = maxlen;
    }
    return real(fd, buf, count, off);
}

ssize_t pread(int fd, void *buf, size_t count, off_t off) { return pread64(fd, buf, count, off); }

ssize_t readv(int fd, const struct iovec *iov, int iovcnt) {
    static ssize_t (*real)(int, const struct iovec *, int) = 0;
    if (!real) real = dlsym(RTLD_NEXT, "readv");
    if (iovcnt > 0 && watched(fd)) {
        /* only the first buffer, capped */
        struct iovec one = iov[0];
        if (one.iov_len > maxlen) one.iov_len = maxlen;
        __sync_fetch_and_add(&capped, 1);
        return real(fd, &one, 1);
    }
    return real(fd, iov, iovcnt);
}
